(* C08 — scalar resolver model (saphyr/src/scalar.rs, loader.rs parse_f64, Rust std number grammars). *)
From Coq Require Import List NArith ZArith Bool Lia.
Import ListNotations.
Require Export ResolverTables.
Open Scope Z_scope.

Definition chr := N.
Definition str := list chr.
Definition ch (c : chr) (x : N) := N.eqb c x.
Definition str_eqb (a b : str) : bool := if list_eq_dec N.eq_dec a b then true else false.

(* ---------------- Rust std: char::to_digit(radix) ---------------- *)
Definition to_digit (radix : N) (c : chr) : option N :=
  let d := if (48 <=? c)%N && (c <=? 57)%N then Some (c - 48)%N
           else if (97 <=? c)%N && (c <=? 122)%N then Some (c - 97 + 10)%N
           else if (65 <=? c)%N && (c <=? 90)%N then Some (c - 65 + 10)%N
           else None in
  match d with Some v => if (v <? radix)%N then Some v else None | None => None end.

(* digits, most significant first, to a value; None if a char is not a digit *)
Fixpoint digits_val (radix : N) (s : str) (acc : Z) : option Z :=
  match s with
  | [] => Some acc
  | c :: r => match to_digit radix c with
              | Some d => digits_val radix r (acc * Z.of_N radix + Z.of_N d)
              | None => None
              end
  end.

Definition i64_min := - 2 ^ 63.
Definition i64_max := 2 ^ 63 - 1.

(* i64::from_str_radix: optional sign, at least one digit, all digits valid, result in range *)
Definition from_str_radix (s : str) (radix : N) : option Z :=
  match s with
  | [] => None
  | c :: r =>
      let '(neg, ds) := if ch c 43 then (false, r) else if ch c 45 then (true, r) else (false, s) in
      match ds with
      | [] => None
      | _ => match digits_val radix ds 0 with
             | Some v => let v := if neg then - v else v in
                         if (i64_min <=? v) && (v <=? i64_max) then Some v else None
             | None => None
             end
      end
  end.
Definition parse_i64 (s : str) := from_str_radix s 10.

(* ---------------- Rust std: f64::from_str accepted language ---------------- *)
Inductive fval :=
| FNan
| FInf (neg : bool)
| FDec (neg : bool) (mant : Z) (exp10 : Z).    (* (-1)^neg * mant * 10^exp10, exact *)

Definition lower (c : chr) : chr := if (65 <=? c)%N && (c <=? 90)%N then (c + 32)%N else c.
Definition ieq (s : str) (w : str) : bool := str_eqb (map lower s) w.
Definition w_inf : str := [105;110;102]%N.
Definition w_infinity : str := [105;110;102;105;110;105;116;121]%N.
Definition w_nan : str := [110;97;110]%N.

Definition is_dig (c : chr) : bool := (48 <=? c)%N && (c <=? 57)%N.
Fixpoint span_digits (s : str) : str * str :=
  match s with
  | c :: r => if is_dig c then let '(a, b) := span_digits r in (c :: a, b) else ([], s)
  | [] => ([], [])
  end.
Definition dval (ds : str) : Z := match digits_val 10 ds 0 with Some v => v | None => 0 end.

(* Number ::= ( Digit+ | Digit+ '.' Digit* | Digit* '.' Digit+ ) Exp?    Exp ::= [eE] Sign? Digit+ *)
Definition rust_number (s : str) : option (Z * Z) :=
  let '(ip, r1) := span_digits s in
  let '(fp, r2, dot) :=
    match r1 with
    | c :: r => if ch c 46 then let '(f, r') := span_digits r in (f, r', true) else ([], r1, false)
    | [] => ([], [], false)
    end in
  if (match ip, fp with [], [] => true | _, _ => false end) then None else
  let mant := dval (ip ++ fp) in
  let e0 := - Z.of_nat (length fp) in
  match r2 with
  | [] => Some (mant, e0)
  | c :: r =>
      if ch c 101 || ch c 69 then
        let '(eneg, ds) := match r with
                           | x :: r' => if ch x 43 then (false, r') else if ch x 45 then (true, r') else (false, r)
                           | [] => (false, [])
                           end in
        let '(ed, rest) := span_digits ds in
        match ed, rest with
        | _ :: _, [] => Some (mant, e0 + (if eneg then - dval ed else dval ed))
        | _, _ => None
        end
      else None
  end.

Definition rust_parse_f64 (s : str) : option fval :=
  match s with
  | [] => None
  | c :: r =>
      let '(neg, body) := if ch c 43 then (false, r) else if ch c 45 then (true, r) else (false, s) in
      if ieq body w_inf || ieq body w_infinity then Some (FInf neg)
      else if ieq body w_nan then Some FNan
      else match rust_number body with Some (m, e) => Some (FDec neg m e) | None => None end
  end.

(* ---------------- saphyr: parse_f64 (loader.rs 336-343) ---------------- *)
Definition lit (l : list N) : str := l.
Definition s_dinf := lit [46;105;110;102]%N.    Definition s_dInf := lit [46;73;110;102]%N.   Definition s_dINF := lit [46;73;78;70]%N.
Definition s_dnan := lit [46;110;97;110]%N.     Definition s_dNaN := lit [46;78;97;78]%N.     Definition s_dNAN := lit [46;78;65;78]%N.
Definition inl (s : str) (l : list str) := existsb (str_eqb s) l.

Definition in_ranges (c : chr) (l : list (N * N)) : bool := existsb (fun r => (fst r <=? c)%N && (c <=? snd r)%N) l.
Definition float_char (c : chr) : bool := in_ranges c f64_guard_chars.
Definition parse_f64 (v : str) : option fval :=
  if inl v f64_pos_inf_words then Some (FInf false)
  else if inl v f64_neg_inf_words then Some (FInf true)
  else if inl v f64_nan_words then Some FNan
  else if f64_guarded then (if forallb float_char v then rust_parse_f64 v else None)
  else rust_parse_f64 v.

(* ---------------- saphyr: Scalar::parse_from_cow (scalar.rs 150-178) ---------------- *)
Inductive scalar := SNull | SBool (b : bool) | SInt (z : Z) | SFloat (f : fval) | SStr (s : str).

Fixpoint strip_prefix (p s : str) : option str :=
  match p, s with
  | [], _ => Some s
  | a :: p', b :: s' => if N.eqb a b then strip_prefix p' s' else None
  | _, [] => None
  end.

Definition s_null := lit [110;117;108;108]%N.  Definition s_NULL := lit [78;85;76;76]%N.  Definition s_tilde := lit [126]%N.
Definition s_true := lit [116;114;117;101]%N.  Definition s_false := lit [102;97;108;115;101]%N.

Definition parse_tail (v : str) : scalar :=
  if inl v null_words then SNull
  else if inl v true_words then SBool true
  else if inl v false_words then SBool false
  else match parse_i64 v with
       | Some i => SInt i
       | None => match parse_f64 v with Some f => SFloat f | None => SStr v end
       end.

(* parse_unsigned (scalar.rs): from_str_radix without the sign it would accept *)
Definition starts_signed (s : str) : bool := match s with c :: _ => ch c 43 || ch c 45 | [] => false end.
Definition from_str_radix_ns (s : str) (radix : N) : option Z := if starts_signed s then None else from_str_radix s radix.

(* the `if let Some(number) = v.strip_prefix(p) {..} else if ..` chain over the generated prefix table:
   the first prefix that matches decides; a failed parse falls through to the literal/number tail *)
Fixpoint parse_prefixed (pre : list (list N * N)) (v : str) : scalar :=
  match pre with
  | [] => parse_tail v
  | (p, radix) :: rest =>
      match strip_prefix p v with
      | Some number => match from_str_radix_ns number radix with Some i => SInt i | None => parse_tail v end
      | None => parse_prefixed rest v
      end
  end.
Definition parse_from_cow (v : str) : scalar := parse_prefixed int_prefixes v.


(* ---------------- saphyr: Scalar::parse_from_cow_and_metadata (scalar.rs) ----------------
   [plain]: style == ScalarStyle::Plain; [tg]: (handle, suffix) of the resolved tag; None = BadValue *)
Definition w_bool : str := [98;111;111;108]%N.
Definition w_int : str := [105;110;116]%N.
Definition w_float : str := [102;108;111;97;116]%N.
Definition w_null : str := [110;117;108;108]%N.
(* Rust bool::from_str *)
Definition parse_bool (v : str) : option bool :=
  if str_eqb v s_true then Some true else if str_eqb v s_false then Some false else None.

Definition parse_from_cow_and_metadata (v : str) (plain : bool) (tg : option (str * str)) : option scalar :=
  if negb plain then Some (SStr v) else
  match tg with
  | Some (handle, suffix) =>
      if str_eqb handle core_tag_prefix then
        if str_eqb suffix w_bool then option_map SBool (parse_bool v)
        else if str_eqb suffix w_int then option_map SInt (parse_i64 v)
        else if str_eqb suffix w_float then option_map SFloat (parse_f64 v)
        else if str_eqb suffix w_null then (if inl v tagged_null_words then Some SNull else None)
        else Some (SStr v)
      else Some (SStr v)
  | None => Some (parse_from_cow v)
  end.
