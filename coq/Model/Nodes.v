(* C19 — the node types and loading modes of saphyr, and ONE loader run over all of them.

   Rust                                   model
   ------------------------------------   ----------------------------------------------------------------
   Yaml<'_>  and  YamlOwned               ryaml   (Cow<str> vs String is invisible here: borrowed and owned
                                                   nodes are the SAME type in the model; that they hold the
                                                   same data is what the correspondence run checks)
   MarkedYaml<'_> and MarkedYamlOwned     myaml   (ryaml + a span in every node)
   YamlLoader<Node>                       g_load over an `ops node` record (= trait LoadableYamlNode)
   early_parse(true|false)                the `early` flag of the scalar constructor
   parse_representation_recursive         r_resolve / m_resolve (the repaired code: taken nodes are restored)
   PartialEq/Eq/Hash                      r_eqb / m_eqb, r_hash / m_hash (token streams fed to the hasher)
   (the Alias(usize) variant is never produced by the loader and is left out) *)
From Coq Require Import List NArith ZArith Bool.
Import ListNotations.
Require Import Parser Resolver Loader LinkedMap.

(* ---------------------------------------------------------------------------------------------- *)
(* node types                                                                                     *)
(* ---------------------------------------------------------------------------------------------- *)
Inductive ryaml :=
| RRep (v : str) (st : style) (tg : option tag)      (* Representation: an unresolved scalar *)
| RVal (s : scalar)
| RSeq (l : list ryaml)
| RMap (l : list (ryaml * ryaml))
| RBad.

Inductive myaml :=
| MRep (sp : span) (v : str) (st : style) (tg : option tag)
| MVal (sp : span) (s : scalar)
| MSeq (sp : span) (l : list myaml)
| MMap (sp : span) (l : list (myaml * myaml))
| MBad (sp : span).

Fixpoint erase (n : myaml) : ryaml :=
  match n with
  | MRep _ v st tg => RRep v st tg
  | MVal _ s => RVal s
  | MSeq _ l => RSeq (map erase l)
  | MMap _ l => RMap ((fix go (l : list (myaml * myaml)) : list (ryaml * ryaml) :=
                         match l with [] => [] | (k, v) :: r => (erase k, erase v) :: go r end) l)
  | MBad _ => RBad
  end.

Fixpoint embed (y : yaml) : ryaml :=
  match y with
  | YVal s => RVal s
  | YSeq l => RSeq (map embed l)
  | YMap l => RMap ((fix go (l : list (yaml * yaml)) : list (ryaml * ryaml) :=
                       match l with [] => [] | (k, v) :: r => (embed k, embed v) :: go r end) l)
  | YBad => RBad
  end.

Definition span_of (n : myaml) : span :=
  match n with MRep s _ _ _ | MVal s _ | MSeq s _ | MMap s _ | MBad s => s end.
Definition with_span (n : myaml) (s : span) : myaml :=
  match n with
  | MRep _ v st tg => MRep s v st tg
  | MVal _ x => MVal s x
  | MSeq _ l => MSeq s l
  | MMap _ l => MMap s l
  | MBad _ => MBad s
  end.

(* ---------------------------------------------------------------------------------------------- *)
(* equality (derived PartialEq; MarkedYaml compares `data` only) and hashing                      *)
(* ---------------------------------------------------------------------------------------------- *)
Definition style_eqb (a b : style) : bool :=
  match a, b with
  | Plain, Plain | SingleQuoted, SingleQuoted | DoubleQuoted, DoubleQuoted | Literal, Literal | Folded, Folded => true
  | _, _ => false
  end.
Definition tag_eqb (a b : tag) : bool :=
  Parser.str_eqb (tg_handle a) (tg_handle b) && Parser.str_eqb (tg_suffix a) (tg_suffix b).
Definition otag_eqb (a b : option tag) : bool :=
  match a, b with None, None => true | Some x, Some y => tag_eqb x y | _, _ => false end.

Fixpoint r_eqb (a b : ryaml) {struct a} : bool :=
  match a, b with
  | RRep v st tg, RRep v' st' tg' => Parser.str_eqb v v' && style_eqb st st' && otag_eqb tg tg'
  | RVal x, RVal y => scalar_eqb x y
  | RBad, RBad => true
  | RSeq l, RSeq l' =>
      (fix go (l l' : list ryaml) : bool :=
         match l, l' with
         | [], [] => true
         | x :: r, y :: r' => r_eqb x y && go r r'
         | _, _ => false
         end) l l'
  | RMap l, RMap l' =>
      (fix go (l l' : list (ryaml * ryaml)) : bool :=
         match l, l' with
         | [], [] => true
         | (k, v) :: r, (k', v') :: r' => r_eqb k k' && r_eqb v v' && go r r'
         | _, _ => false
         end) l l'
  | _, _ => false
  end.

Fixpoint m_eqb (a b : myaml) {struct a} : bool :=
  match a, b with
  | MRep _ v st tg, MRep _ v' st' tg' => Parser.str_eqb v v' && style_eqb st st' && otag_eqb tg tg'
  | MVal _ x, MVal _ y => scalar_eqb x y
  | MBad _, MBad _ => true
  | MSeq _ l, MSeq _ l' =>
      (fix go (l l' : list myaml) : bool :=
         match l, l' with
         | [], [] => true
         | x :: r, y :: r' => m_eqb x y && go r r'
         | _, _ => false
         end) l l'
  | MMap _ l, MMap _ l' =>
      (fix go (l l' : list (myaml * myaml)) : bool :=
         match l, l' with
         | [], [] => true
         | (k, v) :: r, (k', v') :: r' => m_eqb k k' && m_eqb v v' && go r r'
         | _, _ => false
         end) l l'
  | _, _ => false
  end.

(* what is fed to the Hasher, as a token stream (floats through OrderedFloat: canonical NaN / zero) *)
Inductive htok :=
| HVariant (n : N) | HLen (n : N) | HText (s : str) | HStyle (st : style) | HTag (t : option tag)
| HBool (b : bool) | HInt (z : Z) | HFloat (f : fval).
Definition scalar_hash (s : scalar) : list htok :=
  match s with
  | SNull => [HVariant 0]
  | SBool b => [HVariant 1; HBool b]
  | SInt z => [HVariant 2; HInt z]
  | SFloat f => [HVariant 3; HFloat (fnorm f)]
  | SStr x => [HVariant 4; HText x]
  end.
Fixpoint r_hash (n : ryaml) : list htok :=
  match n with
  | RRep v st tg => [HVariant 0; HText v; HStyle st; HTag tg]
  | RVal s => HVariant 1 :: scalar_hash s
  | RSeq l => HVariant 2 :: HLen (N.of_nat (length l)) :: flat_map r_hash l
  | RMap l => HVariant 3 :: (fix go (l : list (ryaml * ryaml)) : list htok :=
                               match l with [] => [] | (k, v) :: r => r_hash k ++ r_hash v ++ go r end) l
  | RBad => [HVariant 5]
  end.
Fixpoint m_hash (n : myaml) : list htok :=
  match n with
  | MRep _ v st tg => [HVariant 0; HText v; HStyle st; HTag tg]
  | MVal _ s => HVariant 1 :: scalar_hash s
  | MSeq _ l => HVariant 2 :: HLen (N.of_nat (length l)) :: flat_map m_hash l
  | MMap _ l => HVariant 3 :: (fix go (l : list (myaml * myaml)) : list htok :=
                                 match l with [] => [] | (k, v) :: r => m_hash k ++ m_hash v ++ go r end) l
  | MBad _ => [HVariant 5]
  end.

(* ---------------------------------------------------------------------------------------------- *)
(* the loader, generic in the node type (trait LoadableYamlNode)                                  *)
(* ---------------------------------------------------------------------------------------------- *)
Inductive kind := KSeq | KMap | KOther.

Record ops (node : Type) := {
  o_scalar : str -> style -> option tag -> span -> node;  (* from_bare_yaml(Value|BadValue|Representation).with_span *)
  o_seq : span -> node;                                   (* from_bare_yaml(Sequence(vec![])).with_span *)
  o_map : span -> node;                                   (* from_bare_yaml(Mapping(new())).with_span *)
  o_bad : span -> node;                                   (* from_bare_yaml(BadValue).with_span *)
  o_respan : node -> span -> node;                        (* with_span on the clone an alias receives *)
  o_kind : node -> kind;                                  (* is_sequence / is_mapping *)
  o_push : node -> node -> node;                          (* sequence_mut().push(x) *)
  o_insert : node -> node -> node -> node;                (* mapping_mut().insert(key.into(), value) *)
}.
Arguments o_scalar {node}. Arguments o_seq {node}. Arguments o_map {node}. Arguments o_bad {node}.
Arguments o_respan {node}. Arguments o_kind {node}. Arguments o_push {node}. Arguments o_insert {node}.

Record gl (node : Type) := {
  g_docs : list node;               (* reversed *)
  g_stack : list (node * N);        (* head = top *)
  g_keys : list (option node);      (* head = top; None = "next node is a key" *)
  g_anchors : list (N * node);      (* newest first *)
}.
Arguments g_docs {node}. Arguments g_stack {node}. Arguments g_keys {node}. Arguments g_anchors {node}.
Arguments Build_gl {node}.
Definition g0 {node : Type} : gl node := Build_gl [] [] [] [].

Inductive gres (node : Type) := GOk (l : gl node) | GPanic (site : N).
Arguments GOk {node}. Arguments GPanic {node}.

Fixpoint g_get {node : Type} (id : N) (l : list (N * node)) : option node :=
  match l with [] => None | (i, y) :: r => if N.eqb i id then Some y else g_get id r end.

Section GLoader.
  Variable node : Type.
  Variable O : ops node.

  Definition g_insert_new_node (ld : gl node) (n : node) (aid : N) : gres node :=
    let anchors := if (0 <? aid)%N then (aid, n) :: g_anchors ld else g_anchors ld in
    match g_stack ld with
    | [] => GOk (Build_gl (g_docs ld) [(n, aid)] (g_keys ld) anchors)
    | (parent, paid) :: rest =>
        match o_kind O parent with
        | KSeq => GOk (Build_gl (g_docs ld) ((o_push O parent n, paid) :: rest) (g_keys ld) anchors)
        | KMap =>
            match g_keys ld with
            | [] => GPanic 300
            | None :: ks => GOk (Build_gl (g_docs ld) (g_stack ld) (Some n :: ks) anchors)
            | Some key :: ks =>
                GOk (Build_gl (g_docs ld) ((o_insert O parent key n, paid) :: rest) (None :: ks) anchors)
            end
        | KOther => GOk (Build_gl (g_docs ld) (g_stack ld) (g_keys ld) anchors)
        end
    end.

  Definition g_on_event (ld : gl node) (es : event * span) : gres node :=
    let '(ev, sp) := es in
    match ev with
    | EStreamStart | EStreamEnd | EDocumentStart _ => GOk ld
    | EDocumentEnd =>
        match g_stack ld with
        | [] => GOk (Build_gl (o_bad O sp :: g_docs ld) [] (g_keys ld) (g_anchors ld))
        | [(n, _)] => GOk (Build_gl (n :: g_docs ld) [] (g_keys ld) (g_anchors ld))
        | _ => GPanic 301
        end
    | ESequenceStart aid _ => GOk (Build_gl (g_docs ld) ((o_seq O sp, aid) :: g_stack ld) (g_keys ld) (g_anchors ld))
    | EMappingStart aid _ =>
        GOk (Build_gl (g_docs ld) ((o_map O sp, aid) :: g_stack ld) (None :: g_keys ld) (g_anchors ld))
    | ESequenceEnd =>
        match g_stack ld with
        | [] => GPanic 302
        | (n, aid) :: rest => g_insert_new_node (Build_gl (g_docs ld) rest (g_keys ld) (g_anchors ld)) n aid
        end
    | EMappingEnd =>
        match g_keys ld, g_stack ld with
        | _ :: ks, (n, aid) :: rest => g_insert_new_node (Build_gl (g_docs ld) rest ks (g_anchors ld)) n aid
        | _, _ => GPanic 303
        end
    | EScalar v st aid tg => g_insert_new_node ld (o_scalar O v st tg sp) aid
    | EAlias id =>
        g_insert_new_node ld (match g_get id (g_anchors ld) with Some y => o_respan O y sp | None => o_bad O sp end) 0
    end.

  Fixpoint g_load (evs : list (event * span)) (ld : gl node) : gres node :=
    match evs with
    | [] => GOk ld
    | e :: r => match g_on_event ld e with GOk ld' => g_load r ld' | GPanic n => GPanic n end
    end.
End GLoader.
Arguments g_insert_new_node {node}. Arguments g_on_event {node}. Arguments g_load {node}.

(* ---------------------------------------------------------------------------------------------- *)
(* the instances                                                                                  *)
(* ---------------------------------------------------------------------------------------------- *)
Definition scalar_value (v : str) (st : style) (tg : option tag) : option scalar :=
  parse_from_cow_and_metadata v (is_plain st) (option_map (fun t => (tg_handle t, tg_suffix t)) tg).

Definition r_kind (n : ryaml) : kind := match n with RSeq _ => KSeq | RMap _ => KMap | _ => KOther end.
Definition r_ops (early : bool) : ops ryaml := {|
  o_scalar := fun v st tg _ =>
    if early then match scalar_value v st tg with Some s => RVal s | None => RBad end else RRep v st tg;
  o_seq := fun _ => RSeq [];
  o_map := fun _ => RMap [];
  o_bad := fun _ => RBad;
  o_respan := fun n _ => n;
  o_kind := r_kind;
  o_push := fun p x => match p with RSeq l => RSeq (l ++ [x]) | _ => p end;
  o_insert := fun p k v => match p with RMap l => RMap (lm_insert r_eqb k v l) | _ => p end;
|}.

Definition m_kind (n : myaml) : kind := match n with MSeq _ _ => KSeq | MMap _ _ => KMap | _ => KOther end.
Definition m_ops (early : bool) : ops myaml := {|
  o_scalar := fun v st tg sp =>
    if early then match scalar_value v st tg with Some s => MVal sp s | None => MBad sp end else MRep sp v st tg;
  o_seq := fun sp => MSeq sp [];
  o_map := fun sp => MMap sp [];
  o_bad := fun sp => MBad sp;
  o_respan := with_span;
  o_kind := m_kind;
  o_push := fun p x => match p with MSeq s l => MSeq s (l ++ [x]) | _ => p end;
  o_insert := fun p k v => match p with MMap s l => MMap s (lm_insert m_eqb k v l) | _ => p end;
|}.

(* the resolved node type of Model/Loader.v as an instance: the tie to the C07 model *)
Definition y_kind (n : yaml) : kind := match n with YSeq _ => KSeq | YMap _ => KMap | _ => KOther end.
Definition y_ops : ops yaml := {|
  o_scalar := fun v st tg _ => value_of v st tg;
  o_seq := fun _ => YSeq [];
  o_map := fun _ => YMap [];
  o_bad := fun _ => YBad;
  o_respan := fun n _ => n;
  o_kind := y_kind;
  o_push := fun p x => match p with YSeq l => YSeq (l ++ [x]) | _ => p end;
  o_insert := fun p k v => match p with YMap l => YMap (map_insert k v l) | _ => p end;
|}.

Definition load_r (early : bool) (evs : list (event * span)) : gres ryaml := g_load (r_ops early) evs g0.
Definition load_m (early : bool) (evs : list (event * span)) : gres myaml := g_load (m_ops early) evs g0.

(* ---------------------------------------------------------------------------------------------- *)
(* parse_representation_recursive                                                                 *)
(* ---------------------------------------------------------------------------------------------- *)
Fixpoint r_resolve (n : ryaml) : ryaml :=
  match n with
  | RRep v st tg => match scalar_value v st tg with Some s => RVal s | None => RBad end
  | RSeq l => RSeq (map r_resolve l)
  | RMap l => RMap (lm_collect r_eqb
                      ((fix go (l : list (ryaml * ryaml)) : list (ryaml * ryaml) :=
                          match l with [] => [] | (k, v) :: r => (r_resolve k, r_resolve v) :: go r end) l))
  | other => other
  end.

Fixpoint m_resolve (n : myaml) : myaml :=
  match n with
  | MRep sp v st tg => match scalar_value v st tg with Some s => MVal sp s | None => MBad sp end
  | MSeq sp l => MSeq sp (map m_resolve l)
  | MMap sp l => MMap sp (lm_collect m_eqb
                      ((fix go (l : list (myaml * myaml)) : list (myaml * myaml) :=
                          match l with [] => [] | (k, v) :: r => (m_resolve k, m_resolve v) :: go r end) l))
  | other => other
  end.

(* no Representation left anywhere *)
Fixpoint r_resolved (n : ryaml) : bool :=
  match n with
  | RRep _ _ _ => false
  | RSeq l => forallb r_resolved l
  | RMap l => (fix go (l : list (ryaml * ryaml)) : bool :=
                 match l with [] => true | (k, v) :: r => r_resolved k && r_resolved v && go r end) l
  | _ => true
  end.
(* what a LinkedHashMap guarantees by construction: no two equal keys, at every level *)
Fixpoint r_wf (n : ryaml) : bool :=
  match n with
  | RSeq l => forallb r_wf l
  | RMap l => lm_nodupb r_eqb l &&
              (fix go (l : list (ryaml * ryaml)) : bool :=
                 match l with [] => true | (k, v) :: r => r_wf k && r_wf v && go r end) l
  | _ => true
  end.
(* deferred loading leaves only representations at the leaves *)
Fixpoint r_deferred (n : ryaml) : bool :=
  match n with
  | RVal _ => false
  | RSeq l => forallb r_deferred l
  | RMap l => (fix go (l : list (ryaml * ryaml)) : bool :=
                 match l with [] => true | (k, v) :: r => r_deferred k && r_deferred v && go r end) l
  | _ => true
  end.

(* results, for the drivers *)
Definition docs_of {node : Type} (r : gres node) : option (list node) :=
  match r with GOk ld => Some (rev (g_docs ld)) | GPanic _ => None end.
