(* parser.rs wrapper layer: peek / next_event (Iterator::next) over an ABSTRACT deterministic core.
   [step] stands for Parser::parse (state_machine, or StreamEnd again once the state is End); the theorems
   in Proofs/WrapperProofs.v hold for every core, hence for the real one. *)
From Coq Require Import List Bool Arith.
Import ListNotations.

Section Wrapper.
Variables (core E Er : Type).
Variable is_end : E -> bool.                      (* the event is StreamEnd *)
Variable step : core -> (E + Er) * core.          (* Parser::parse *)

Record wr := { w_core : core; w_current : option E; w_see : bool }.   (* current, stream_end_emitted *)

Definition next_event_impl (w : wr) : (E + Er) * wr :=
  match w_current w with
  | Some v => (inl v, {| w_core := w_core w; w_current := None; w_see := w_see w |})
  | None => let '(r, c) := step (w_core w) in (r, {| w_core := c; w_current := None; w_see := w_see w |})
  end.

Definition peek (w : wr) : option (E + Er) * wr :=
  match w_current w with
  | Some x => (Some (inl x), w)
  | None =>
      if w_see w then (None, w)
      else match next_event_impl w with
           | (inl t, w') => (Some (inl t), {| w_core := w_core w'; w_current := Some t; w_see := w_see w' |})
           | (inr e, w') => (Some (inr e), w')
           end
  end.

Definition next_event (w : wr) : option (E + Er) * wr :=
  if w_see w then (None, w)
  else let '(r, w') := next_event_impl w in
       (Some r, match r with
                | inl ev => if is_end ev then {| w_core := w_core w'; w_current := w_current w'; w_see := true |} else w'
                | inr _ => w'
                end).

Inductive op := Peek | Next.
Definition do_op (o : op) (w : wr) := match o with Peek => peek w | Next => next_event w end.

Definition is_err (r : option (E + Er)) : bool := match r with Some (inr _) => true | _ => false end.

(* results of a call history, cut after the first error (a consumer stops there) *)
Fixpoint run (h : list op) (w : wr) : list (option (E + Er)) :=
  match h with
  | [] => []
  | o :: h' => let '(r, w') := do_op o w in if is_err r then [r] else r :: run h' w'
  end.

(* plain iteration of the core: the k-th result *)
Fixpoint core_after (k : nat) (c : core) : core :=
  match k with O => c | S k' => core_after k' (snd (step c)) end.
Definition plain (c0 : core) (k : nat) : E + Er := fst (step (core_after k c0)).

(* the specification of a history: Peek and Next both report the k-th result of plain iteration, where k is
   the number of Next calls made so far; Next advances; after a Next has returned StreamEnd everything is None *)
Fixpoint spec_run (c0 : core) (h : list op) (k : nat) (ended : bool) : list (option (E + Er)) :=
  match h with
  | [] => []
  | o :: h' =>
      if ended then None :: spec_run c0 h' k true
      else match plain c0 k with
           | inr e => [Some (inr e)]
           | inl ev => Some (inl ev) :: match o with
                                        | Peek => spec_run c0 h' k false
                                        | Next => spec_run c0 h' (S k) (is_end ev)
                                        end
           end
  end.

Definition init (c : core) : wr := {| w_core := c; w_current := None; w_see := false |}.
End Wrapper.
