(* Scratch prototype: scanner model, part 2 — Input default methods, mark primitives, whitespace skipping, indent/simple-key helpers. *)
From Coq Require Import List NArith ZArith Bool.
Import ListNotations.
Require Import Parser SBase.
Open Scope N_scope.
Open Scope mon_scope.

Section Prim.
Context {I : Type} (ops : InputOps I).
Notation M := (@M I).

Definition lift_o {A} (o : outcome A) (k : A -> M A) : M A :=
  match o with Ok a => k a | Err e m => fail e m | Panic n => panic n | OutOfFuel => oof end.

Definition look (n : nat) : M unit :=
  fun s => match lookahead ops n (sc_in s) with
           | Ok i => Ok (tt, set_in i s) | Err e m => Err e m | Panic k => Panic k | OutOfFuel => OutOfFuel end.
Definition peekn (n : nat) : M chr :=
  fun s => match peek_nth ops n (sc_in s) with
           | Ok c => Ok (c, s) | Err e m => Err e m | Panic k => Panic k | OutOfFuel => OutOfFuel end.
Definition peek : M chr := peekn 0.
Definition look_ch : M chr := look 1 ;;; peek.
Definition in_skip : M unit := modify (fun s => set_in (skip1 ops (sc_in s)) s).
Definition in_skip_n (n : nat) : M unit :=
  fun s => match skip_n ops n (sc_in s) with
           | Ok i => Ok (tt, set_in i s) | Err e m => Err e m | Panic k => Panic k | OutOfFuel => OutOfFuel end.
Definition raw_read : M (option chr) :=
  fun s => match raw_read_non_breakz ops (sc_in s) with
           | Ok (c, i) => Ok (c, set_in i s) | Err e m => Err e m | Panic k => Panic k | OutOfFuel => OutOfFuel end.
Definition buf_is_empty : M bool := gets (fun s => Nat.eqb (buflen ops (sc_in s)) 0).
Definition assert_buflen (n : nat) (site : N) : M unit :=
  fun s => if Nat.ltb (buflen ops (sc_in s)) n then Panic site else Ok (tt, s).

(* Input default methods (input.rs) *)
Definition next_char_is (c : chr) : M bool := x <- peek ;; ret (x =? c).
Definition nth_char_is (n : nat) (c : chr) : M bool := x <- peekn n ;; ret (x =? c).
Definition next_2_are (a b : chr) : M bool :=
  assert_buflen 2 103 ;;; x <- peek ;; y <- peekn 1 ;; ret ((x =? a) && (y =? b)).
Definition next_3_are (a b c : chr) : M bool :=
  assert_buflen 3 104 ;;; x <- peek ;; y <- peekn 1 ;; z <- peekn 2 ;; ret ((x =? a) && (y =? b) && (z =? c)).
Definition next_is_document_indicator : M bool :=
  assert_buflen 4 105 ;;; c3 <- peekn 3 ;;
  if is_blank_or_breakz c3 then
    d <- next_3_are 46 46 46 ;; if d then ret true else next_3_are 45 45 45
  else ret false.
Definition next_is_document_start : M bool :=
  assert_buflen 4 106 ;;; d <- next_3_are 45 45 45 ;;
  if d then c3 <- peekn 3 ;; ret (is_blank_or_breakz c3) else ret false.
Definition next_is_document_end : M bool :=
  assert_buflen 4 107 ;;; d <- next_3_are 46 46 46 ;;
  if d then c3 <- peekn 3 ;; ret (is_blank_or_breakz c3) else ret false.
Definition next_is (p : chr -> bool) : M bool := c <- peek ;; ret (p c).
Definition next_can_be_plain_scalar (in_flow : bool) : M bool :=
  nc <- peekn 1 ;; c <- peek ;;
  if (c =? 58) && (is_blank_or_breakz nc || (in_flow && is_flow nc)) then ret false
  else if in_flow && is_flow c then ret false else ret true.

(* skip_ws_to_eol: returns (chars consumed, Ok (found_tabs, has_ws) | Err) ; fuel = chars *)
Inductive skiptabs := SkipYes | SkipNo.
Fixpoint in_skip_ws_to_eol (fuel : nat) (st : skiptabs) (tab ws : bool) (n : N) : M (N * option (bool * bool)) :=
  match fuel with
  | O => oof
  | S fuel =>
    c <- look_ch ;;
    if c =? 32 then in_skip ;;; in_skip_ws_to_eol fuel st tab true (n + 1)
    else if (c =? 9) && (match st with SkipYes => true | SkipNo => false end) then
      in_skip ;;; in_skip_ws_to_eol fuel st true ws (n + 1)
    else if c =? 35 then
      if negb tab && negb ws then ret (n, None)
      else
        in_skip ;;;
        (fix comment (f : nat) (k : N) : M (N * option (bool * bool)) :=
           match f with
           | O => oof
           | S f => c <- look_ch ;; if is_breakz c then in_skip_ws_to_eol fuel st tab ws (k + 1)
                                    else in_skip ;;; comment f (k + 1)
           end) fuel n
    else ret (n, Some (tab, ws))
  end.

Definition in_skip_while (fuel : nat) (p : chr -> bool) : M N :=
  (fix go (f : nat) (k : N) : M N :=
     match f with
     | O => oof
     | S f => c <- look_ch ;; if p c then in_skip ;;; go f (k + 1) else ret k
     end) fuel 0.
Definition in_skip_while_non_breakz fuel := in_skip_while fuel (fun c => negb (is_breakz c)).
Definition in_skip_while_blank fuel := in_skip_while fuel is_blank.
(* fetch_while_is_alpha: returns reversed chars and count *)
Definition in_fetch_while_alpha (fuel : nat) (acc : list chr) : M (list chr * N) :=
  (fix go (f : nat) (acc : list chr) (k : N) : M (list chr * N) :=
     match f with
     | O => oof
     | S f => c <- look_ch ;; if is_alpha c then in_skip ;;; go f (c :: acc) (k + 1) else ret (acc, k)
     end) fuel acc 0.

(* ---- mark primitives (scanner.rs 536-632) ---- *)
Definition adv (n : N) (m : marker) : marker := {| m_index := m_index m + n; m_line := m_line m; m_col := m_col m + n |}.
Definition nlm (m : marker) : marker := {| m_index := m_index m + 1; m_line := m_line m + 1; m_col := 0 |}.
Definition mark : M marker := gets sc_mark.
Definition adv_mark (n : N) : M unit := modify (fun s => set_mark (adv n (sc_mark s)) s).
Definition skip_blank : M unit := in_skip ;;; adv_mark 1.
Definition skip_non_blank : M unit := in_skip ;;; adv_mark 1 ;;; modify (set_lws false).
Definition skip_n_non_blank (n : nat) : M unit := in_skip_n n ;;; adv_mark (N.of_nat n) ;;; modify (set_lws false).
Definition skip_nl : M unit := in_skip ;;; modify (fun s => set_lws true (set_mark (nlm (sc_mark s)) s)).
Definition skip_linebreak : M unit :=
  crlf <- next_2_are 13 10 ;;
  if crlf then skip_blank ;;; skip_nl
  else c <- peek ;; if is_break c then skip_nl else ret tt.
Definition skip_break : M unit :=
  c <- peek ;; nc <- peekn 1 ;;
  (* debug_assert!(is_break(c)) *)
  (if is_break c then ret tt else panic 110) ;;;
  (if (c =? 13) && (nc =? 10) then skip_blank else ret tt) ;;; skip_nl.

Definition push_tok (t : token) : M unit := modify (fun s => set_tokens (sc_tokens s ++ [t]) s).
Fixpoint insert_at {A} (n : nat) (x : A) (l : list A) : option (list A) :=
  match n, l with
  | O, _ => Some (x :: l)
  | S n, [] => None
  | S n, y :: r => match insert_at n x r with Some r' => Some (y :: r') | None => None end
  end.
Definition insert_token (pos : N) (t : token) : M unit :=
  fun s => match insert_at (N.to_nat pos) t (sc_tokens s) with
           | Some l => Ok (tt, set_tokens l s)
           | None => Panic 111
           end.
Definition allow_simple_key : M unit := modify (set_ska true).
Definition disallow_simple_key : M unit := modify (set_ska false).
Definition flow_level : M N := gets sc_flow_level.
Definition in_flow : M bool := fl <- flow_level ;; ret (0 <? fl).

(* skip_ws_to_eol wrapper (scanner.rs 906) : error site 40 "comments must be separated" *)
Definition skip_ws_to_eol (fuel : nat) (st : skiptabs) : M (bool * bool) :=
  r <- in_skip_ws_to_eol fuel st false false 0 ;;
  adv_mark (fst r) ;;;
  match snd r with
  | Some tw => ret tw
  | None => m <- mark ;; fail 40 m
  end.

Definition is_within_block : M bool := gets (fun s => match sc_indents s with [] => false | _ => true end).

(* skip_to_next_token (827-867) *)
Fixpoint skip_to_next_token (fuel : nat) : M unit :=
  match fuel with
  | O => oof
  | S fuel' =>
    c <- look_ch ;;
    s <- get ;;
    wb <- is_within_block ;;
    if (c =? 9) && wb && sc_lws s && (Z.of_N (m_col (sc_mark s)) <? sc_indent s)%Z then
      skip_ws_to_eol fuel SkipYes ;;; b <- next_is is_breakz ;;
      if b then skip_to_next_token fuel' else m <- mark ;; fail 41 m
    else if (c =? 9) || (c =? 32) then skip_blank ;;; skip_to_next_token fuel'
    else if (c =? 10) || (c =? 13) then
      look 2 ;;; skip_linebreak ;;; fl <- flow_level ;;
      (if fl =? 0 then allow_simple_key else ret tt) ;;; skip_to_next_token fuel'
    else if c =? 35 then
      n <- in_skip_while_non_breakz fuel ;; adv_mark n ;;; skip_to_next_token fuel'
    else ret tt
  end.

(* skip_yaml_whitespace (873-904) *)
Definition skip_yaml_whitespace (fuel : nat) : M unit :=
  (fix go (f : nat) (need : bool) : M unit :=
     match f with
     | O => oof
     | S f' =>
       c <- look_ch ;;
       if c =? 32 then skip_blank ;;; go f' false
       else if (c =? 10) || (c =? 13) then
         look 2 ;;; skip_linebreak ;;; fl <- flow_level ;;
         (if fl =? 0 then allow_simple_key else ret tt) ;;; go f' false
       else if c =? 35 then n <- in_skip_while_non_breakz fuel ;; adv_mark n ;;; go f' need
       else if need then m <- mark ;; fail 42 m else ret tt
     end) fuel true.

(* ---- indentation (2485-2565) ---- *)
Definition roll_indent (col : N) (number : option N) (tk : tok) (mk : marker) : M unit :=
  s <- get ;;
  if 0 <? sc_flow_level s then ret tt else
  let '(ind, inds) :=
    if (sc_indent s <=? Z.of_N col)%Z then
      match sc_indents s with
      | i :: r => if negb (in_needs_block_end i) then (in_indent i, r) else (sc_indent s, sc_indents s)
      | [] => (sc_indent s, sc_indents s)
      end
    else (sc_indent s, sc_indents s) in
  if (ind <? Z.of_N col)%Z then
    if BLOCK_NESTING_MAX <=? N.of_nat (length inds) then fail 46 (sc_mark s) else
    put (set_indent (Z.of_N col) ({| in_indent := ind; in_needs_block_end := true |} :: inds) s) ;;;
    match number with
    | Some n =>
        if n <? sc_tokens_parsed s then panic 112
        else insert_token (n - sc_tokens_parsed s) (span_empty mk, tk)
    | None => push_tok (span_empty mk, tk)
    end
  else put (set_indent ind inds s).

Fixpoint unroll_indent_go (fuel : nat) (col : Z) : M unit :=
  match fuel with
  | O => oof
  | S fuel =>
    s <- get ;;
    if (col <? sc_indent s)%Z then
      match sc_indents s with
      | [] => panic 113
      | i :: r =>
          put (set_indent (in_indent i) r s) ;;;
          (if in_needs_block_end i then push_tok (span_empty (sc_mark s), TBlockEnd) else ret tt) ;;;
          unroll_indent_go fuel col
      end
    else ret tt
  end.
Definition unroll_indent (col : Z) : M unit :=
  s <- get ;;
  if 0 <? sc_flow_level s then ret tt else unroll_indent_go (S (length (sc_indents s))) col.

Definition roll_one_col_indent : M unit :=
  s <- get ;;
  if (sc_flow_level s =? 0) && (match sc_indents s with i :: _ => in_needs_block_end i | [] => false end) then
    put (set_indent (sc_indent s + 1)%Z ({| in_indent := sc_indent s; in_needs_block_end := false |} :: sc_indents s) s)
  else ret tt.

Fixpoint unroll_nb (l : list indent_rec) (ind : Z) : Z * list indent_rec :=
  match l with
  | i :: r => if in_needs_block_end i then (ind, l) else unroll_nb r (in_indent i)
  | [] => (ind, [])
  end.
Definition unroll_non_block_indents : M unit :=
  modify (fun s => let '(ind, l) := unroll_nb (sc_indents s) (sc_indent s) in set_indent ind l s).

(* ---- simple keys (2568-2591, 806-820) ---- *)
Definition save_simple_key : M unit :=
  s <- get ;;
  if sc_ska s then
    r <- (if (sc_flow_level s =? 0) && (sc_indent s =? Z.of_N (m_col (sc_mark s)))%Z then
            match sc_indents s with
            | i :: _ => ret (in_needs_block_end i)
            | [] => panic 114
            end
          else ret false) ;;
    let sk := {| sk_possible := true; sk_required := r;
                 sk_token_number := sc_tokens_parsed s + N.of_nat (length (sc_tokens s)); sk_mark := sc_mark s |} in
    put (set_sks (sk :: tl (sc_sks s)) s)
  else ret tt.

Definition remove_simple_key : M unit :=
  s <- get ;;
  match sc_sks s with
  | [] => panic 115
  | k :: r =>
      if sk_possible k && sk_required k then fail 43 (sc_mark s)
      else put (set_sks ({| sk_possible := false; sk_required := sk_required k;
                            sk_token_number := sk_token_number k; sk_mark := sk_mark k |} :: r) s)
  end.

Definition stale_simple_keys : M unit :=
  s <- get ;;
  let stale k := sk_possible k && (sc_flow_level s =? 0)
                 && ((m_line (sk_mark k) <? m_line (sc_mark s)) || (m_index (sk_mark k) + SIMPLE_KEY_MAX <? m_index (sc_mark s))) in
  if existsb (fun k => stale k && sk_required k) (sc_sks s) then fail 44 (sc_mark s)
  else put (set_sks (map (fun k => if stale k then
                                     {| sk_possible := false; sk_required := sk_required k;
                                        sk_token_number := sk_token_number k; sk_mark := sk_mark k |}
                                   else k) (sc_sks s)) s).

Definition end_implicit_mapping (mk : marker) : M unit :=
  s <- get ;;
  match sc_ifms s with
  | ImInside :: r =>
      put (set_ifms (ImPossible :: r) s) ;;; push_tok (span_empty mk, TFlowMappingEnd)
  | ImInsideExplicitKey :: r => put (set_ifms (ImPossible :: r) s)
  | _ => ret tt
  end.

Definition increase_flow_level : M unit :=
  s <- get ;;
  let s' := set_sks ({| sk_possible := false; sk_required := false; sk_token_number := 0; sk_mark := mk0 |} :: sc_sks s) s in
  if sc_flow_level s =? FLOW_LEVEL_MAX then (fun _ => Err 45 (sc_mark s)) else put (set_fl (sc_flow_level s + 1) s').
Definition decrease_flow_level : M unit :=
  s <- get ;;
  if 0 <? sc_flow_level s then
    match sc_sks s with
    | [] => panic 116
    | _ :: r => put (set_sks r (set_fl (sc_flow_level s - 1) s))
    end
  else ret tt.

End Prim.
