(* C11 — what a model can say about nesting depth and recursion (no stack bytes: those are run-time facts,
   measured by the child-process sweep of vlib/p_c11.py).

   (1) nesting depth of an event sequence (running counter, maximum);
   (2) the PUSH interface of parser/src/parser.rs (load_node -> load_sequence / load_mapping -> load_node,
       lines ~495-561) as a fuelled recursive function over the event list with an explicit counter of
       live load_node activations; the result records the largest value the counter reached;
   (3) a structural traversal of the loaded tree (what the derived Drop / Clone / Eq / Hash of
       saphyr::Yaml and the emitter's emit_node -> emit_sequence / emit_mapping -> emit_node do) with the
       same kind of counter, and the depth of a tree;
   (4) the witness family: token streams and event sentences of every nesting depth;
   (5) nesting of a token stream, the scanner's flow level along it, the two flow families;
   (6) the oracle that vlib/p_c11.py runs (extracted) on the implementation's tokens and events.
   Executable definitions only; the lemmas are in Proofs/DepthProofs.v. *)
From Coq Require Import List NArith Bool.
Import ListNotations.
Require Import Parser Resolver Loader.
Require Consts.
Local Open Scope nat_scope.

(* ---------- (1) nesting depth of events ---------- *)
(* (collections currently open, largest number of collections that enclosed a node so far).
   A node is a scalar, an alias or a collection; a node inside k collections has k ancestors, so the
   second component is the height of the tallest document tree (0 for a lone scalar or an empty collection). *)
Definition depth_step (cm : nat * nat) (e : event) : nat * nat :=
  let '(c, m) := cm in
  match e with
  | ESequenceStart _ _ | EMappingStart _ _ => (S c, Nat.max m c)
  | EScalar _ _ _ _ | EAlias _ => (c, Nat.max m c)
  | ESequenceEnd | EMappingEnd => (Nat.pred c, m)
  | _ => (c, m)
  end.
Definition depth_run (c m : nat) (evs : list event) : nat * nat := fold_left depth_step evs (c, m).
Definition open_depth (evs : list event) : nat := fst (depth_run 0 0 evs).
Definition max_nesting (evs : list event) : nat := snd (depth_run 0 0 evs).

(* ---------- (2) the recursive push loader ---------- *)
(* Parser::load_node / load_sequence / load_mapping.  [d] = number of load_node activations on the call
   stack (the callee's own included); every function gets the events not yet consumed ([next_event_impl]
   is the head of the list; in the Rust code the caller fetches the first event of a node and passes it,
   here the callee takes it — the same event either way).  The receiver is irrelevant for the recursion.
   Result: the events left and the largest [d] that occurred.  The [while] loops of load_sequence /
   load_mapping are tail calls at the SAME depth: iteration, not recursion, in the Rust code. *)
Inductive pl_res :=
| PlDone (rest : list event) (maxd : nat)
| PlEof                       (* next_event_impl failed: the ScanError is propagated by `?` *)
| PlUnreachable               (* the `unreachable!()` arm of load_node *)
| PlFuel.

Fixpoint pl_node (fuel d : nat) (evs : list event) : pl_res :=
  match fuel with
  | O => PlFuel
  | S f =>
    match evs with
    | [] => PlEof
    | EAlias _ :: r | EScalar _ _ _ _ :: r => PlDone r d
    | ESequenceStart _ _ :: r => pl_sequence f d r
    | EMappingStart _ _ :: r => pl_mapping f d r
    | _ :: _ => PlUnreachable
    end
  end
with pl_sequence (fuel d : nat) (evs : list event) : pl_res :=
  match fuel with
  | O => PlFuel
  | S f =>
    match evs with
    | [] => PlEof
    | ESequenceEnd :: r => PlDone r d
    | _ :: _ =>
        match pl_node f (S d) evs with
        | PlDone r m =>
            match pl_sequence f d r with
            | PlDone r' m' => PlDone r' (Nat.max m m')
            | x => x
            end
        | x => x
        end
    end
  end
with pl_mapping (fuel d : nat) (evs : list event) : pl_res :=
  match fuel with
  | O => PlFuel
  | S f =>
    match evs with
    | [] => PlEof
    | EMappingEnd :: r => PlDone r d
    | _ :: _ =>
        match pl_node f (S d) evs with          (* key *)
        | PlDone r m =>
            match pl_node f (S d) r with        (* value *)
            | PlDone r' m' =>
                match pl_mapping f d r' with
                | PlDone r'' m'' => PlDone r'' (Nat.max (Nat.max m m') m'')
                | x => x
                end
            | x => x
            end
        | x => x
        end
    end
  end.

(* load_document: DocumentStart, one node (load_node is entered with one activation), DocumentEnd *)
Definition pl_document (fuel : nat) (evs : list event) : pl_res :=
  match evs with
  | EDocumentStart _ :: r =>
      match pl_node fuel 1 r with
      | PlDone (EDocumentEnd :: r') m => PlDone r' m
      | PlDone _ _ => PlUnreachable              (* assert_eq!(ev, Event::DocumentEnd) *)
      | x => x
      end
  | _ => PlEof
  end.

(* ---------- (3) structural recursion over the loaded tree ---------- *)
Definition list_max (l : list nat) : nat := fold_right Nat.max 0 l.

(* longest chain of collections below a node: 0 for a scalar and for an empty collection *)
Fixpoint ydepth (y : yaml) : nat :=
  match y with
  | YVal _ | YBad => 0
  | YSeq l => list_max (map (fun x => S (ydepth x)) l)
  | YMap l => list_max (map (fun kv => Nat.max (S (ydepth (fst kv))) (S (ydepth (snd kv)))) l)
  end.

(* a traversal that visits every child through a recursive call (drop_in_place::<Yaml>, Clone::clone,
   PartialEq::eq, Hash::hash, YamlEmitter::emit_node): entered with [d] live activations, returns the
   largest number of live activations reached *)
Fixpoint ywalk (d : nat) (y : yaml) : nat :=
  match y with
  | YVal _ | YBad => d
  | YSeq l => Nat.max d (list_max (map (fun x => ywalk (S d) x) l))
  | YMap l => Nat.max d (list_max (map (fun kv => Nat.max (ywalk (S d) (fst kv)) (ywalk (S d) (snd kv))) l))
  end.

(* ---------- (4) witness family: "- " * d ++ "a" ---------- *)
Definition mk00 : marker := {| m_index := 0; m_line := 0; m_col := 0 |}.
Definition sp0 : span := span_empty mk00.
Definition tk (t : tok) : token := (sp0, t).
Definition leaf_text : str := [97%N].                      (* "a" *)
Definition leaf_tok : tok := TScalar Plain leaf_text.
Definition leaf_ev : event := EScalar leaf_text Plain 0%N None.

(* tokens of a node nested n times, as head and tail (the parser always holds the head in its cache) *)
Definition nhd (n : nat) : token := match n with O => tk leaf_tok | S _ => tk TBlockSequenceStart end.
Fixpoint ntl (n : nat) (rest : list token) : list token :=
  match n with
  | O => rest
  | S k => tk TBlockEntry :: nhd k :: ntl k (tk TBlockEnd :: rest)
  end.
(* StreamStart (BlockSequenceStart BlockEntry)^d Scalar BlockEnd^d StreamEnd *)
Definition seq_tokens (d : nat) : list token := tk TStreamStart :: nhd d :: ntl d [tk TStreamEnd].
(* the same, written flat *)
Definition seq_tokens_flat (d : nat) : list token :=
  tk TStreamStart :: flat_map (fun _ => [tk TBlockSequenceStart; tk TBlockEntry]) (repeat tt d)
    ++ tk leaf_tok :: repeat (tk TBlockEnd) d ++ [tk TStreamEnd].

Fixpoint node_evs (n : nat) : list event :=
  match n with
  | O => [leaf_ev]
  | S k => ESequenceStart 0%N None :: node_evs k ++ [ESequenceEnd]
  end.
Definition seq_events (d : nat) : list event :=
  EStreamStart :: EDocumentStart false :: node_evs d ++ [EDocumentEnd; EStreamEnd].

Fixpoint nest_seq (n : nat) (leaf : yaml) : yaml :=
  match n with O => leaf | S k => YSeq [nest_seq k leaf] end.

(* ---------- (5) token nesting, the scanner's flow level along a token stream, witness families ---------- *)
(* A FlowMappingStart token the scanner emits for a '{' character spans that character (fetch_flow_collection_start:
   span = mark before the indicator .. mark after it and the blanks behind it); the SYNTHETIC FlowMappingStart that
   fetch_value pushes or inserts for an implicit "key: value" pair inside a flow sequence has an EMPTY span.  That is
   how a token stream tells them apart (checked against the real scanner's tokens by vlib/p_c11.py). *)
Definition span_is_empty (sp : span) : bool := N.eqb (m_index (sp_start sp)) (m_index (sp_end sp)).
Definition real_flow_open (t : token) : bool :=
  match snd t with
  | TFlowSequenceStart => true
  | TFlowMappingStart => negb (span_is_empty (fst t))
  | _ => false
  end.
Definition flow_close (t : token) : bool :=
  match snd t with TFlowSequenceEnd | TFlowMappingEnd => true | _ => false end.

(* what the scanner's flow_level does along the token stream it emits: +1 at a '[' or '{' token (the only tokens
   pushed by fetch_flow_collection_start, after increase_flow_level), at most -1 at a flow collection end
   (decrease_flow_level saturates at 0); (current level, maximum) *)
Definition tok_flow_step (cm : nat * nat) (t : token) : nat * nat :=
  let '(c, m) := cm in
  if real_flow_open t then (S c, Nat.max m (S c))
  else if flow_close t then (Nat.pred c, m)
  else (c, m).
Definition tok_flow_run (toks : list token) (cm : nat * nat) : nat * nat := fold_left tok_flow_step toks cm.
Definition tok_flow_max (toks : list token) : nat := snd (tok_flow_run toks (0, 0)).

(* nesting of the token stream itself: EVERY collection start token opens a level (block or flow, synthetic or not),
   every collection end token closes at most one *)
Definition tok_open (t : tok) : bool :=
  match t with TBlockSequenceStart | TBlockMappingStart | TFlowSequenceStart | TFlowMappingStart => true | _ => false end.
Definition tok_close (t : tok) : bool :=
  match t with TBlockEnd | TFlowSequenceEnd | TFlowMappingEnd => true | _ => false end.
Definition tok_nest_next (c : nat) (t : tok) : nat :=
  if tok_open t then S c else if tok_close t then Nat.pred c else c.
Definition tok_nest_step (cm : nat * nat) (t : token) : nat * nat :=
  let c' := tok_nest_next (fst cm) (snd t) in (c', Nat.max (snd cm) c').
Definition tok_nest_run (toks : list token) (cm : nat * nat) : nat * nat := fold_left tok_nest_step toks cm.
Definition tok_nest_cur (toks : list token) : nat := fst (tok_nest_run toks (0, 0)).
Definition tok_nest_max (toks : list token) : nat := snd (tok_nest_run toks (0, 0)).

(* collection start tokens that are NOT counted by the scanner's flow level: block collections and the synthetic
   FlowMappingStart of implicit pairs *)
Definition other_open (t : token) : bool := tok_open (snd t) && negb (real_flow_open t).
Definition other_openers (toks : list token) : nat := length (filter other_open toks).

(* -- family A (regression; was the first flow-limit bypass, repaired by c5ad60c):
      "[ ? ] , " * (d-1) ++ "[ ? ] " ++ "]" * d  -- *)
Definition qflow_group : list token := [tk TFlowSequenceStart; tk TKey; tk TFlowSequenceEnd].
Fixpoint qflow_groups (n : nat) : list token :=
  match n with
  | O => []
  | S k => qflow_group ++ tk TFlowEntry :: qflow_groups k
  end.
(* StreamStart ([ ? ] ,)^(d-1) [ ? ] ]^d StreamEnd *)
Definition qflow_tokens (d : nat) : list token :=
  tk TStreamStart :: qflow_groups (Nat.pred d) ++ qflow_group ++ repeat (tk TFlowSequenceEnd) d ++ [tk TStreamEnd].
Definition qflow_text (d : nat) : list N :=
  flat_map (fun _ => [91; 32; 63; 32; 93; 32; 44; 32]%N) (repeat tt (Nat.pred d))
    ++ [91; 32; 63; 32; 93; 32]%N ++ repeat 93%N d.

(* -- family B (the remaining flow-limit bypass): "[" ++ " :" * d ++ " " ++ "}" * d ++ "]"
      fetch_value pushes one synthetic (empty-span) FlowMappingStart per bare ':' inside the flow sequence; the first
      '}' lowers the scanner's flow level to 0; the parser sees d properly closed nested mappings -- *)
Definition cflow_pair : list token := [tk TFlowMappingStart; tk TValue].
(* StreamStart [ (FlowMappingStart Value)^d FlowMappingEnd^d ] StreamEnd *)
Definition cflow_tokens (d : nat) : list token :=
  tk TStreamStart :: tk TFlowSequenceStart :: flat_map (fun _ => cflow_pair) (repeat tt d)
    ++ repeat (tk TFlowMappingEnd) d ++ [tk TFlowSequenceEnd; tk TStreamEnd].
Definition cflow_text (d : nat) : list N :=
  91%N :: flat_map (fun _ => [32; 58]%N) (repeat tt d) ++ 32%N :: repeat 125%N d ++ [93%N].

(* ---------- (6) the oracle run on the IMPLEMENTATION's tokens and events (extracted; vlib/p_c11.py) ---------- *)
(* the CONSTANT bounds of Proofs/DepthNest.v / DepthText.v, stated with the limits generated from the Rust source
   (Gen/Consts.v): the scanner never has more than NEST_TOK_BOUND collection-start tokens open at once — at most
   BLOCK_NESTING_MAX block collections, FLOW_LEVEL_MAX '[' / '{', FLOW_LEVEL_MAX synthetic FlowMappingStart of single pairs
   (one per flow level), and FLOW_LEVEL_MAX + 1 simple keys whose ':' may still insert a start token in front of what is
   queued (the allowance of the proof) — and the events nest at most twice as deep *)
Definition NEST_TOK_BOUND : nat := N.to_nat Consts.BLOCK_NESTING_MAX + 3 * N.to_nat Consts.FLOW_LEVEL_MAX + 1.
Definition NEST_BOUND : nat := 2 * NEST_TOK_BOUND.

(* (theorem (h): the flow level of the token stream is within the limit,
    theorem (g): the events nest at most twice as deep as the tokens,
    theorem (i): ... at most twice as deep as the limit + the starts the flow level does not count,
    theorem (h'): the nesting of the token stream is within NEST_TOK_BOUND,
    theorem (k): the events nest at most NEST_BOUND deep) *)
Definition c11_oracle (toks : list token) (evs : list event) : bool * bool * bool * bool * bool :=
  (Nat.leb (tok_flow_max toks) (N.to_nat Consts.FLOW_LEVEL_MAX),
   Nat.leb (max_nesting evs) (2 * tok_nest_max toks),
   Nat.leb (max_nesting evs) (2 * (N.to_nat Consts.FLOW_LEVEL_MAX + other_openers toks)),
   Nat.leb (tok_nest_max toks) NEST_TOK_BOUND,
   Nat.leb (max_nesting evs) NEST_BOUND).
Definition c11_measures (toks : list token) (evs : list event) : N * N * N * N :=
  (N.of_nat (tok_flow_max toks), N.of_nat (tok_nest_max toks), N.of_nat (other_openers toks), N.of_nat (max_nesting evs)).
Definition c11_bounds : N * N := (N.of_nat NEST_TOK_BOUND, N.of_nat NEST_BOUND).
