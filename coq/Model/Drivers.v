(* Entry points evaluated by the correspondence check (extracted to OCaml, or vm_compute'd). *)
From Coq Require Import List NArith ZArith Bool.
Import ListNotations.
Require Import Parser SBase SPrim SDir SScalar SFetch Pipe SBuf Resolver Loader PipeL Grammar Wrapper.

(* tokens of the scanner model over the string back-end *)
Definition scan_str (s : list N) : list token * scan_end :=
  let F := (2 * length s + 10)%nat in
  scan_all str_ops F (4 * F + 20) (init_sc {| si_chars := s; si_look := 0 |}) [].

(* the parser model alone, run on a given token list (used on the implementation's real tokens) *)
Definition parse_tokens (toks : list token) (se : scan_end) (keep : bool) : list (event * span) * pend :=
  let p := {| p_toks := toks; p_token := None; p_states := []; p_state := SStreamStart;
              p_anchors := []; p_anchor_id := 1%N; p_tags := []; p_keep_tags := keep |} in
  parse_all (4 * length toks + 40) p se [].

(* oracle for C02: (is a sentence prefix, is a complete sentence, anchor ids are 1,2,3,.. and aliases refer back) *)
Definition grammar_verdict (evs : list event) : bool * bool * bool :=
  let a := match arun 0 evs with Some _ => true | None => false end in
  match grun GInit evs with
  | None => (false, false, a)
  | Some GEnd => (true, true, a)
  | Some _ => (true, false, a)
  end.

(* oracle for C17: the specification of a peek/next history over the plain iteration results, given as a
   list (events are abstracted to their index; [inr] = the error that ends the iteration; an exhausted list
   reads as an error).  [end_idx] = index of StreamEnd in the list, if any. *)
Definition list_step (c : list (N + N)) : (N + N) * list (N + N) :=
  match c with [] => (inr 999999%N, []) | r :: c' => (r, c') end.
Definition hist_spec (h : list op) (results : list (N + N)) (end_idx : N) : list (option (N + N)) :=
  spec_run (list (N + N)) N N (fun i => N.eqb i end_idx) list_step results h 0 false.
