(* Scratch prototype: scanner model, part 1 — types, char classes, input ops, monad, primitives. *)
From Coq Require Import List NArith ZArith Bool.
Import ListNotations.
Require Import Parser.
Open Scope N_scope.

Definition chr := N.

(* ---- parser/src/char_traits.rs ---- *)
Definition is_z (c : chr) := c =? 0.
Definition is_break (c : chr) := (c =? 10) || (c =? 13).
Definition is_breakz c := is_break c || is_z c.
Definition is_blank (c : chr) := (c =? 32) || (c =? 9).
Definition is_blank_or_breakz c := is_blank c || is_breakz c.
Definition is_digit (c : chr) := (48 <=? c) && (c <=? 57).
Definition is_alpha (c : chr) :=
  is_digit c || ((97 <=? c) && (c <=? 122)) || ((65 <=? c) && (c <=? 90)) || (c =? 95) || (c =? 45).
Definition is_hex (c : chr) := is_digit c || ((97 <=? c) && (c <=? 102)) || ((65 <=? c) && (c <=? 70)).
Definition as_hex (c : chr) : N :=
  if is_digit c then c - 48 else if (97 <=? c) && (c <=? 102) then c - 97 + 10 else c - 65 + 10.
Definition is_flow (c : chr) := (c =? 44) || (c =? 91) || (c =? 93) || (c =? 123) || (c =? 125).
Definition is_bom (c : chr) := c =? 65279.
Definition is_yaml_non_break c := negb (is_break c) && negb (is_bom c).
Definition is_yaml_non_space c := is_yaml_non_break c && negb (is_blank c).
Definition is_anchor_char c := is_yaml_non_space c && negb (is_flow c) && negb (is_z c).
Definition is_word_char c := is_alpha c && negb (c =? 95).
Definition mem (c : chr) (l : list chr) := existsb (N.eqb c) l.
(* "#;/?:@&=+$,_.!~*'()[]%" *)
Definition uri_extra : list chr := [35;59;47;63;58;64;38;61;43;36;44;95;46;33;126;42;39;40;41;91;93;37].
Definition is_uri_char c := is_word_char c || mem c uri_extra.
Definition is_tag_char c := is_uri_char c && negb (is_flow c) && negb (c =? 33).

(* ---- outcomes ---- *)
Inductive outcome (A : Type) :=
| Ok (a : A) | Err (site : N) (at_ : marker) | Panic (site : N) | OutOfFuel.
Arguments Ok {A}. Arguments Err {A}. Arguments Panic {A}. Arguments OutOfFuel {A}.

(* ---- Input: primitive operations ---- *)
Record InputOps (I : Type) := {
  lookahead : nat -> I -> outcome I;
  buflen : I -> nat;
  bufmaxlen : nat;
  peek_nth : nat -> I -> outcome chr;
  skip1 : I -> I;
  skip_n : nat -> I -> outcome I;
  raw_read_non_breakz : I -> outcome (option chr * I);
}.
Arguments lookahead {I}. Arguments buflen {I}. Arguments bufmaxlen {I}. Arguments peek_nth {I}.
Arguments skip1 {I}. Arguments skip_n {I}. Arguments raw_read_non_breakz {I}.

(* StrInput seen at the char level (byte-level overrides are a later refinement):
   chars + the lookahead counter that buflen reports *)
Record strin := { si_chars : list chr; si_look : nat }.
Definition str_ops : InputOps strin := {|
  lookahead := fun n s => Ok {| si_chars := si_chars s; si_look := Nat.max (si_look s) n |};
  buflen := si_look;
  bufmaxlen := 128;
  peek_nth := fun n s => Ok (nth n (si_chars s) 0);
  skip1 := fun s => {| si_chars := tl (si_chars s); si_look := si_look s |};
  skip_n := fun n s => Ok {| si_chars := skipn n (si_chars s); si_look := si_look s |};
  raw_read_non_breakz := fun s =>
    match si_chars s with
    | [] => Ok (None, s)
    | c :: r => if is_breakz c then Ok (None, s) else Ok (Some c, {| si_chars := r; si_look := si_look s |})
    end;
|}.

Record simple_key := { sk_possible : bool; sk_required : bool; sk_token_number : N; sk_mark : marker }.
Record indent_rec := { in_indent : Z; in_needs_block_end : bool }.
Inductive ims := ImPossible | ImInside.

Record sc (I : Type) := {
  sc_in : I; sc_mark : marker; sc_tokens : list token;
  sc_stream_start : bool; sc_stream_end : bool;
  sc_adjacent : N; sc_ska : bool;
  sc_sks : list simple_key;      (* head = last() *)
  sc_indent : Z; sc_indents : list indent_rec;   (* head = last() *)
  sc_flow_level : N; sc_tokens_parsed : N; sc_token_available : bool;
  sc_lws : bool; sc_fms : bool; sc_ifms : list ims;   (* head = last() *)
}.
Arguments sc_in {I}. Arguments sc_mark {I}. Arguments sc_tokens {I}. Arguments sc_stream_start {I}.
Arguments sc_stream_end {I}. Arguments sc_adjacent {I}. Arguments sc_ska {I}. Arguments sc_sks {I}.
Arguments sc_indent {I}. Arguments sc_indents {I}. Arguments sc_flow_level {I}.
Arguments sc_tokens_parsed {I}. Arguments sc_token_available {I}. Arguments sc_lws {I}.
Arguments sc_fms {I}. Arguments sc_ifms {I}.

Definition mk0 : marker := {| m_index := 0; m_line := 0; m_col := 0 |}.
Definition init_sc {I} (i : I) : sc I := {|
  sc_in := i; sc_mark := {| m_index := 0; m_line := 1; m_col := 0 |}; sc_tokens := [];
  sc_stream_start := false; sc_stream_end := false; sc_adjacent := 0; sc_ska := true;
  sc_sks := []; sc_indent := (-1)%Z; sc_indents := []; sc_flow_level := 0; sc_tokens_parsed := 0;
  sc_token_available := false; sc_lws := true; sc_fms := false; sc_ifms := [] |}.

Section Mon.
Context {I : Type}.
Definition M (A : Type) := sc I -> outcome (A * sc I).
Definition ret {A} (a : A) : M A := fun s => Ok (a, s).
Definition bind {A B} (m : M A) (f : A -> M B) : M B :=
  fun s => match m s with
           | Ok (a, s') => f a s'
           | Err e k => Err e k | Panic k => Panic k | OutOfFuel => OutOfFuel
           end.
Definition fail {A} (site : N) (m : marker) : M A := fun _ => Err site m.
Definition panic {A} (site : N) : M A := fun _ => Panic site.
Definition oof {A} : M A := fun _ => OutOfFuel.
Definition get : M (sc I) := fun s => Ok (s, s).
Definition put (s : sc I) : M unit := fun _ => Ok (tt, s).
Definition modify (f : sc I -> sc I) : M unit := fun s => Ok (tt, f s).
Definition gets {A} (f : sc I -> A) : M A := fun s => Ok (f s, s).
End Mon.

(* field setters *)
Section Setters.
Context {I : Type}.
Definition upd (s : sc I) (i : I) (m : marker) (t : list token) : sc I :=
  {| sc_in := i; sc_mark := m; sc_tokens := t;
     sc_stream_start := sc_stream_start s; sc_stream_end := sc_stream_end s; sc_adjacent := sc_adjacent s;
     sc_ska := sc_ska s; sc_sks := sc_sks s; sc_indent := sc_indent s; sc_indents := sc_indents s;
     sc_flow_level := sc_flow_level s; sc_tokens_parsed := sc_tokens_parsed s;
     sc_token_available := sc_token_available s; sc_lws := sc_lws s; sc_fms := sc_fms s; sc_ifms := sc_ifms s |}.
Definition set_in i (s : sc I) := upd s i (sc_mark s) (sc_tokens s).
Definition set_mark m (s : sc I) := upd s (sc_in s) m (sc_tokens s).
Definition set_tokens t (s : sc I) := upd s (sc_in s) (sc_mark s) t.
Definition set_flags (s : sc I) (ss se : bool) (adj : N) (ska : bool) (ta : bool) (lws fms : bool) : sc I :=
  {| sc_in := sc_in s; sc_mark := sc_mark s; sc_tokens := sc_tokens s;
     sc_stream_start := ss; sc_stream_end := se; sc_adjacent := adj; sc_ska := ska;
     sc_sks := sc_sks s; sc_indent := sc_indent s; sc_indents := sc_indents s;
     sc_flow_level := sc_flow_level s; sc_tokens_parsed := sc_tokens_parsed s;
     sc_token_available := ta; sc_lws := lws; sc_fms := fms; sc_ifms := sc_ifms s |}.
Definition set_ska b (s : sc I) := set_flags s (sc_stream_start s) (sc_stream_end s) (sc_adjacent s) b (sc_token_available s) (sc_lws s) (sc_fms s).
Definition set_lws b (s : sc I) := set_flags s (sc_stream_start s) (sc_stream_end s) (sc_adjacent s) (sc_ska s) (sc_token_available s) b (sc_fms s).
Definition set_fms b (s : sc I) := set_flags s (sc_stream_start s) (sc_stream_end s) (sc_adjacent s) (sc_ska s) (sc_token_available s) (sc_lws s) b.
Definition set_adj n (s : sc I) := set_flags s (sc_stream_start s) (sc_stream_end s) n (sc_ska s) (sc_token_available s) (sc_lws s) (sc_fms s).
Definition set_ta b (s : sc I) := set_flags s (sc_stream_start s) (sc_stream_end s) (sc_adjacent s) (sc_ska s) b (sc_lws s) (sc_fms s).
Definition set_ss b (s : sc I) := set_flags s b (sc_stream_end s) (sc_adjacent s) (sc_ska s) (sc_token_available s) (sc_lws s) (sc_fms s).
Definition set_se b (s : sc I) := set_flags s (sc_stream_start s) b (sc_adjacent s) (sc_ska s) (sc_token_available s) (sc_lws s) (sc_fms s).
Definition set_struct (s : sc I) (sks : list simple_key) (ind : Z) (inds : list indent_rec) (fl tp : N) (ifms : list ims) : sc I :=
  {| sc_in := sc_in s; sc_mark := sc_mark s; sc_tokens := sc_tokens s;
     sc_stream_start := sc_stream_start s; sc_stream_end := sc_stream_end s; sc_adjacent := sc_adjacent s;
     sc_ska := sc_ska s; sc_sks := sks; sc_indent := ind; sc_indents := inds;
     sc_flow_level := fl; sc_tokens_parsed := tp;
     sc_token_available := sc_token_available s; sc_lws := sc_lws s; sc_fms := sc_fms s; sc_ifms := ifms |}.
Definition set_sks l (s : sc I) := set_struct s l (sc_indent s) (sc_indents s) (sc_flow_level s) (sc_tokens_parsed s) (sc_ifms s).
Definition set_indent z l (s : sc I) := set_struct s (sc_sks s) z l (sc_flow_level s) (sc_tokens_parsed s) (sc_ifms s).
Definition set_fl n (s : sc I) := set_struct s (sc_sks s) (sc_indent s) (sc_indents s) n (sc_tokens_parsed s) (sc_ifms s).
Definition set_tp n (s : sc I) := set_struct s (sc_sks s) (sc_indent s) (sc_indents s) (sc_flow_level s) n (sc_ifms s).
Definition set_ifms l (s : sc I) := set_struct s (sc_sks s) (sc_indent s) (sc_indents s) (sc_flow_level s) (sc_tokens_parsed s) l.
End Setters.

Declare Scope mon_scope.
Notation "x <- m ;; f" := (bind m (fun x => f)) (at level 61, m at next level, right associativity) : mon_scope.
Notation "m ;;; f" := (bind m (fun _ => f)) (at level 61, right associativity) : mon_scope.
