(* Model of saphyr/src/encoding.rs: encoding detection and the decode loop.

   * [for_bom]                 = encoding_rs::Encoding::for_bom (EF BB BF / FF FE / FE FF)
   * [detect_utf16_endianness] = encoding.rs:193-202
   * [choose_encoding]         = the first statement of YamlDecoder::decode (encoding.rs:101-102)
   * [decode_loop]             = encoding.rs:114-182 as a fuelled loop over an ABSTRACT decoder: the step
     function [dstep] stands for one call of encoding_rs's
     [Decoder::decode_to_string_without_replacement (&input[total..], output, last = true)] and is a
     parameter of the loop.  What the bytes decode to is encoding_rs's business and stays in the trusted
     base; the loop only sees how many bytes were read / written and which of the three results came back.
   * [reserve]                 = String::reserve / RawVec::grow_amortized on (len, cap) for a byte vector
     (MIN_NON_ZERO_CAP = 8).
   The growth step of the loop, [max (input.len() / RESERVE_DIV) RESERVE_MIN], takes its two constants from
   Gen/Consts.v, which the translator regenerates from encoding.rs on every run.

   Bytes are [N] (values above 255 never occur in the correspondence run; no theorem needs the bound). *)
From Coq Require Import List NArith Bool.
Import ListNotations.
Require Import Consts.
Open Scope N_scope.

(* ------------------------------------------------------------------------------------------------ *)
(* Encoding detection                                                                                *)
(* ------------------------------------------------------------------------------------------------ *)
Inductive encoding := Utf8 | Utf16LE | Utf16BE.

Definition encoding_eqb (a b : encoding) : bool :=
  match a, b with
  | Utf8, Utf8 | Utf16LE, Utf16LE | Utf16BE, Utf16BE => true
  | _, _ => false
  end.

(* Encoding::for_bom: the encoding and the length of the byte-order mark *)
Definition for_bom (b : list N) : option (encoding * N) :=
  match b with
  | b0 :: b1 :: t =>
      if (b0 =? 239) && (b1 =? 187) && (match t with b2 :: _ => b2 =? 191 | [] => false end)
      then Some (Utf8, 3)
      else if (b0 =? 255) && (b1 =? 254) then Some (Utf16LE, 2)
      else if (b0 =? 254) && (b1 =? 255) then Some (Utf16BE, 2)
      else None
  | _ => None
  end.

Definition detect_utf16_endianness (b : list N) : encoding :=
  match b with
  | b0 :: b1 :: _ =>
      if negb (b0 =? b1) then
        if b0 =? 0 then Utf16BE
        else if b1 =? 0 then Utf16LE
        else Utf8
      else Utf8
  | _ => Utf8
  end.

(* (encoding the decoder is created for, number of BOM bytes its BOM sniffing then removes) *)
Definition choose_encoding (b : list N) : encoding * N :=
  match for_bom b with
  | Some r => r
  | None => (detect_utf16_endianness b, 0)
  end.

(* ------------------------------------------------------------------------------------------------ *)
(* String capacity                                                                                   *)
(* ------------------------------------------------------------------------------------------------ *)
(* String::reserve(additional) on a string of length [len] and capacity [cap]: the new capacity *)
Definition reserve (len cap additional : N) : N :=
  if additional <=? cap - len then cap
  else N.max (N.max (cap * 2) (len + additional)) 8.

(* ------------------------------------------------------------------------------------------------ *)
(* The decode loop                                                                                   *)
(* ------------------------------------------------------------------------------------------------ *)
(* result of one decode_to_string_without_replacement call:
   (DecoderResult, bytes_read) + the number of bytes appended to the output string *)
Inductive step_result :=
| InputEmpty (written : N)
| OutputFull (read written : N)
| Malformed (malformed_len bytes_after read written : N).

(* A YAMLDecodingTrapFn may do anything to the output string: it is a function from its four arguments
   (the string being its (len, cap)) to the new (len, cap) or a Break with an empty / non-empty message. *)
Inductive cb_result :=
| CbContinue (len cap : N)
| CbBreak (empty_message : bool).

Definition callback := N -> N -> list N -> N * N -> cb_result.

Inductive trap :=
| Ignore
| Strict
| Replace
| Call (cb : callback).

Inductive panic :=
| PSliceFrom          (* &input[total_bytes_read..] with total_bytes_read > input.len() *)
| PWrittenBeyondCap   (* encoding_rs: assert!(new_len <= vec.capacity()) *)
| PSubUnderflow       (* total_bytes_read - (malformed_len + bytes_after_malformed) *)
| PSliceMalformed     (* &input[byte_idx..byte_idx + malformed_len] *)
| PU8Add.             (* malformed_len + bytes_after_malformed computed in u8 (Call branch only) *)

Inductive outcome :=
| Done (len cap : N)                                    (* Ok(()) with the final output string *)
| DecodeError (byte_idx malformed_len : N)              (* "Invalid character sequence at {byte_idx}: .." *)
| CallbackError                                         (* the callback's own message *)
| Panicked (p : panic)
| OutOfFuel.

Definition terminated (o : outcome) : bool :=
  match o with
  | Done _ _ | DecodeError _ _ | CallbackError => true
  | Panicked _ | OutOfFuel => false
  end.

Definition nlen (l : list N) : N := N.of_nat (length l).

Section Loop.
  Variable dstate : Type.
  (* decoder state -> remaining input -> spare capacity of the output -> new state, result *)
  Variable dstep : dstate -> list N -> N -> dstate * step_result.
  (* growth step constants: reserve (max (input.len() / div) min) *)
  Variables div min : N.

  (* loop state: total_bytes_read, decoder, output (len, cap) *)
  Record config := Config { c_total : N; c_dec : dstate; c_len : N; c_cap : N }.

  Definition growth_step (n : N) : N := N.max (n / div) min.

  (* the malformed-sequence context shared by Strict and Call; [u8] selects the u8 addition of the Call branch *)
  Definition malformed_index (u8 : bool) (n total ml af : N) : panic + N :=
    if u8 && (255 <? ml + af) then inl PU8Add
    else if total <? ml + af then inl PSubUnderflow
    else
      let idx := total - (ml + af) in
      if n <? idx + ml then inl PSliceMalformed else inr idx.

  (* one iteration of `loop { match decoder.decode_to_string_without_replacement(..) {..} }` *)
  Definition loop_step (t : trap) (input : list N) (c : config) : config + outcome :=
    let n := nlen input in
    if n <? c_total c then inr (Panicked PSliceFrom)
    else
      let rem := skipn (N.to_nat (c_total c)) input in
      let spare := c_cap c - c_len c in
      let '(d', r) := dstep (c_dec c) rem spare in
      match r with
      | InputEmpty w =>
          if spare <? w then inr (Panicked PWrittenBeyondCap) else inr (Done (c_len c + w) (c_cap c))
      | OutputFull rd w =>
          if spare <? w then inr (Panicked PWrittenBeyondCap)
          else
            let len' := c_len c + w in
            inl (Config (c_total c + rd) d' len' (reserve len' (c_cap c) (growth_step n)))
      | Malformed ml af rd w =>
          if spare <? w then inr (Panicked PWrittenBeyondCap)
          else
            let len' := c_len c + w in
            let total' := c_total c + rd in
            match t with
            | Ignore => inl (Config total' d' len' (c_cap c))
            | Replace => inl (Config total' d' (len' + 3) (reserve len' (c_cap c) 3))   (* push('\u{FFFD}') *)
            | Strict =>
                match malformed_index false n total' ml af with
                | inl p => inr (Panicked p)
                | inr idx => inr (DecodeError idx ml)
                end
            | Call cb =>
                match malformed_index true n total' ml af with
                | inl p => inr (Panicked p)
                | inr idx =>
                    match cb ml af (skipn (N.to_nat idx) input) (len', c_cap c) with
                    | CbContinue l2 c2 => inl (Config total' d' l2 c2)
                    | CbBreak true => inr (DecodeError idx ml)
                    | CbBreak false => inr CallbackError
                    end
                end
            end
      end.

  Fixpoint loop_go (fuel : nat) (t : trap) (input : list N) (c : config) : outcome :=
    match fuel with
    | O => OutOfFuel
    | S f =>
        match loop_step t input c with
        | inr o => o
        | inl c' => loop_go f t input c'
        end
    end.

  (* output.reserve(input.len()) on the empty string, total_bytes_read = 0 *)
  Definition initial_config (d0 : dstate) (input : list N) : config :=
    Config 0 d0 0 (reserve 0 0 (nlen input)).

  Definition decode_loop (fuel : nat) (d0 : dstate) (t : trap) (input : list N) : outcome :=
    loop_go fuel t input (initial_config d0 input).

End Loop.

Arguments Config {dstate}.
Arguments c_total {dstate}.
Arguments c_dec {dstate}.
Arguments c_len {dstate}.
Arguments c_cap {dstate}.

(* the loop of the implementation: constants as found in encoding.rs *)
Definition decode_loop_impl {dstate} (dstep : dstate -> list N -> N -> dstate * step_result) :=
  decode_loop dstate dstep RESERVE_DIV RESERVE_MIN.

(* The amount of fuel that always suffices (see Proofs/DecodeProofs.v): 2 * input.len() + 2 iterations *)
Definition decode_fuel (input : list N) : nat := N.to_nat (2 * nlen input + 2).

(* Smallest spare capacity with which every encoding_rs decoder used here (UTF-8, UTF-16LE, UTF-16BE) makes
   progress: before reading a byte they ask for room for an astral character
   (handles.rs, Utf8Destination::check_space_astral: pos + 3 < len). *)
Definition DECODER_K : N := 4.

(* ------------------------------------------------------------------------------------------------ *)
(* A concrete toy decoder: UTF-16LE, BMP only                                                        *)
(* ------------------------------------------------------------------------------------------------ *)
(* Shaped like encoding_rs's Utf16Decoder (utf_16.rs + macros.rs decoder_function!): before reading a byte
   it needs 4 spare bytes, a pending lead byte is its only state, a surrogate code unit is reported as
   Malformed(2, 0), a dangling byte at the end as Malformed(1, 0) (needing 3 spare bytes for a later
   replacement character).  Used to show that the decoder contract is satisfiable and that the growth step
   matters; it is NOT what the correspondence run decodes with. *)
Definition utf8_len_bmp (u : N) : N := if u <? 128 then 1 else if u <? 2048 then 2 else 3.
Definition is_surrogate_unit (u : N) : bool := (55296 <=? u) && (u <? 57344).

Fixpoint toy_go (rem : list N) (lead : option N) (spare rd w : N) : option N * step_result :=
  match rem with
  | [] =>
      match lead with
      | None => (None, InputEmpty w)
      | Some _ => if spare <? 3 then (lead, OutputFull rd w) else (None, Malformed 1 0 rd w)
      end
  | b :: tl =>
      if spare <? 4 then (lead, OutputFull rd w)
      else
        match lead with
        | None => toy_go tl (Some b) spare (rd + 1) w
        | Some l =>
            let u := l + 256 * b in
            if is_surrogate_unit u then (None, Malformed 2 0 (rd + 1) w)
            else toy_go tl None (spare - utf8_len_bmp u) (rd + 1) (w + utf8_len_bmp u)
        end
  end.

Definition toy_step (lead : option N) (rem : list N) (spare : N) : option N * step_result :=
  toy_go rem lead spare 0 0.

(* bytes the decoder has consumed but not yet accounted for in the output *)
Definition toy_pending (lead : option N) : N := match lead with Some _ => 1 | None => 0 end.

(* entry point of the executable model for the correspondence run: the loop of the implementation over the
   toy decoder, with the fuel of the termination theorem; trap 0 = Strict, 1 = Ignore, otherwise Replace *)
Definition toy_run (which : N) (input : list N) : outcome :=
  decode_loop_impl toy_step (decode_fuel input) None
    (match which with 0 => Strict | 1 => Ignore | _ => Replace end) input.

(* ================================================================================================ *)
(* The decode loop with the CONTENT of the output string                                            *)
(* ================================================================================================ *)
(* Same loop, but the output String is its text (a list of Unicode scalar values) and its capacity; its
   length in bytes is the UTF-8 length of the text.  A decoder step returns the characters it appended
   instead of their number.  This is the loop the result theorems of C18 are about; [erase_step] maps a
   decoder of this kind to the (read, written) view of the loop above. *)
Definition utf8_len (c : N) : N :=
  if c <? 128 then 1 else if c <? 2048 then 2 else if c <? 65536 then 3 else 4.

Fixpoint text_len (t : list N) : N :=
  match t with
  | [] => 0
  | c :: r => utf8_len c + text_len r
  end.

Inductive xresult :=
| XInputEmpty
| XOutputFull (read : N)
| XMalformed (malformed_len bytes_after read : N).

Definition erase_result (r : xresult) (w : N) : step_result :=
  match r with
  | XInputEmpty => InputEmpty w
  | XOutputFull rd => OutputFull rd w
  | XMalformed ml af rd => Malformed ml af rd w
  end.

Definition erase_step {dstate : Type} (xstep : dstate -> list N -> N -> dstate * xresult * list N)
  : dstate -> list N -> N -> dstate * step_result :=
  fun d rem spare => let '(d', r, cs) := xstep d rem spare in (d', erase_result r (text_len cs)).

(* A YAMLDecodingTrapFn sees the whole String (content and capacity) and may change both. *)
Inductive xcb_result :=
| XCbContinue (text : list N) (cap : N)
| XCbBreak (empty_message : bool).

Definition xcallback := N -> N -> list N -> list N * N -> xcb_result.

Inductive xtrap :=
| XIgnore
| XStrict
| XReplace
| XCall (cb : xcallback).

Inductive xoutcome :=
| XDone (text : list N) (cap : N)
| XDecodeError (byte_idx malformed_len : N)
| XCallbackError
| XPanicked (p : panic)
| XOutOfFuel.

Definition REPLACEMENT : N := 65533.

Section XLoop.
  Variable dstate : Type.
  Variable xstep : dstate -> list N -> N -> dstate * xresult * list N.
  Variables div min : N.

  Record xconfig := XConfig { x_total : N; x_dec : dstate; x_text : list N; x_cap : N }.

  Definition xloop_step (t : xtrap) (input : list N) (c : xconfig) : xconfig + xoutcome :=
    let n := nlen input in
    if n <? x_total c then inr (XPanicked PSliceFrom)
    else
      let rem := skipn (N.to_nat (x_total c)) input in
      let len := text_len (x_text c) in
      let spare := x_cap c - len in
      let '(d', r, cs) := xstep (x_dec c) rem spare in
      let w := text_len cs in
      if spare <? w then inr (XPanicked PWrittenBeyondCap)
      else
        let text' := x_text c ++ cs in
        let len' := len + w in
        match r with
        | XInputEmpty => inr (XDone text' (x_cap c))
        | XOutputFull rd =>
            inl (XConfig (x_total c + rd) d' text' (reserve len' (x_cap c) (growth_step div min n)))
        | XMalformed ml af rd =>
            let total' := x_total c + rd in
            match t with
            | XIgnore => inl (XConfig total' d' text' (x_cap c))
            | XReplace => inl (XConfig total' d' (text' ++ [REPLACEMENT]) (reserve len' (x_cap c) 3))
            | XStrict =>
                match malformed_index false n total' ml af with
                | inl p => inr (XPanicked p)
                | inr idx => inr (XDecodeError idx ml)
                end
            | XCall cb =>
                match malformed_index true n total' ml af with
                | inl p => inr (XPanicked p)
                | inr idx =>
                    match cb ml af (skipn (N.to_nat idx) input) (text', x_cap c) with
                    | XCbContinue t2 c2 => inl (XConfig total' d' t2 c2)
                    | XCbBreak true => inr (XDecodeError idx ml)
                    | XCbBreak false => inr XCallbackError
                    end
                end
            end
        end.

  Fixpoint xloop_go (fuel : nat) (t : xtrap) (input : list N) (c : xconfig) : xoutcome :=
    match fuel with
    | O => XOutOfFuel
    | S f =>
        match xloop_step t input c with
        | inr o => o
        | inl c' => xloop_go f t input c'
        end
    end.

  Definition xinitial_config (d0 : dstate) (input : list N) : xconfig :=
    XConfig 0 d0 [] (reserve 0 0 (nlen input)).

  Definition xdecode_loop (fuel : nat) (d0 : dstate) (t : xtrap) (input : list N) : xoutcome :=
    xloop_go fuel t input (xinitial_config d0 input).
End XLoop.

Arguments XConfig {dstate}.
Arguments x_total {dstate}.
Arguments x_dec {dstate}.
Arguments x_text {dstate}.
Arguments x_cap {dstate}.

Definition xdecode_loop_impl {dstate} (xstep : dstate -> list N -> N -> dstate * xresult * list N) :=
  xdecode_loop dstate xstep RESERVE_DIV RESERVE_MIN.
