From Coq Require Import List NArith ZArith Bool.
Import ListNotations.
Require Import Parser SBase SPrim SDir SScalar SFetch Pipe Positions.
Open Scope N_scope.

Section Inv.
Context {I : Type}.
(* I1 *)
Definition inv1 (s : sc I) : bool :=
  negb (sc_stream_start s) || N.eqb (N.of_nat (length (sc_sks s))) (sc_flow_level s + 1).
(* I2: indent stack strictly increasing towards the top, bottom stored indent is -1 *)
Fixpoint sorted_from (top : Z) (l : list indent_rec) : bool :=
  match l with
  | [] => (top =? -1)%Z
  | i :: r => (in_indent i <? top)%Z && sorted_from (in_indent i) r
  end.
Definition inv2 (s : sc I) : bool := sorted_from (sc_indent s) (sc_indents s) && (-1 <=? sc_indent s)%Z.
(* I3: possible keys point into the queue and are ordered (head of sc_sks = innermost = latest) *)
Fixpoint sks_ok (lo hi : N) (l : list simple_key) (bound : option N) : bool :=
  match l with
  | [] => true
  | k :: r =>
      if sk_possible k then
        (lo <=? sk_token_number k) && (sk_token_number k <? hi)
        && (match bound with Some b => sk_token_number k <? b | None => true end)
        && sks_ok lo hi r (Some (sk_token_number k))
      else sks_ok lo hi r bound
  end.
Definition inv3 (s : sc I) : bool :=
  sks_ok (sc_tokens_parsed s) (sc_tokens_parsed s + N.of_nat (length (sc_tokens s))) (sc_sks s) None.
(* I4: implicit-flow-mapping stack no deeper than flow level; I5: flow_level <= 255 *)
Definition inv4 (s : sc I) : bool := (sc_flow_level s <=? 255).
Definition inv_code (s : sc I) : N :=
  (if inv1 s then 0 else 1) + (if inv2 s then 0 else 2) + (if inv3 s then 0 else 4) + (if inv4 s then 0 else 8).
End Inv.

Definition mark_ok (orig : list N) (s : sc strin) : bool :=
  let len := length orig in
  let rem := length (si_chars (sc_in s)) in
  let idx := (len - rem)%nat in
  (m_index (sc_mark s) =? N.of_nat idx)
  && (Nat.eqb rem 0 || (let '(l, c) := pos_go orig idx 1 0 in (m_line (sc_mark s) =? l) && (m_col (sc_mark s) =? c))).

(* check the invariants after every fetch_next_token, by re-running fetch_more_tokens one step at a time *)
Section Chk.
Variable F : nat.
Variable orig : list N.
Definition code (s : sc strin) : N := inv_code s + (if mark_ok orig s then 0 else 16).
Fixpoint fmt_chk (fuel : nat) (s : sc strin) (bad : N) : outcome (unit * sc strin) * N :=
  match fuel with
  | O => (OutOfFuel, bad)
  | S fuel =>
    let need_o := match sc_tokens s with
                  | [] => Ok (true, s)
                  | _ => match stale_simple_keys s with
                         | Ok (_, s') => Ok (existsb (fun k => sk_possible k && (sk_token_number k =? sc_tokens_parsed s')) (sc_sks s'), s')
                         | Err e m => Err e m | Panic n => Panic n | OutOfFuel => OutOfFuel
                         end
                  end in
    match need_o with
    | Ok (true, s') =>
        match fetch_next_token str_ops F s' with
        | Ok (_, s'') => fmt_chk fuel s'' (N.lor bad (code s''))
        | Err e m => (Err e m, bad) | Panic n => (Panic n, bad) | OutOfFuel => (OutOfFuel, bad)
        end
    | Ok (false, s') => (Ok (tt, set_ta true s'), bad)
    | Err e m => (Err e m, bad) | Panic n => (Panic n, bad) | OutOfFuel => (OutOfFuel, bad)
    end
  end.
Fixpoint scan_chk (fuel : nat) (s : sc strin) (bad : N) : N :=
  match fuel with
  | O => bad
  | S fuel =>
    if sc_stream_end s then bad else
    let '(r, bad) := if sc_token_available s then (Ok (tt, s), bad) else fmt_chk F s bad in
    match r with
    | Ok (_, s) =>
        match sc_tokens s with
        | [] => bad
        | t :: r =>
            let s := set_tp (sc_tokens_parsed s + 1) (set_ta false (set_tokens r s)) in
            let s := match snd t with TStreamEnd => set_se true s | _ => s end in
            scan_chk fuel s (N.lor bad (code s))
        end
    | _ => bad
    end
  end.
End Chk.
Definition run_chk (s : list N) : N :=
  let F := (2 * length s + 10)%nat in scan_chk F s (4 * F + 20) (init_sc {| si_chars := s; si_look := 0 |}) 0.
