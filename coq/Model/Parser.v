(* Scratch prototype: L3 parser model (transliteration of parser/src/parser.rs state machine). *)
From Coq Require Import List NArith Bool.
Import ListNotations.

Definition str := list N.
Definition str_eqb (a b : str) : bool := if list_eq_dec N.eq_dec a b then true else false.

Record marker := { m_index : N; m_line : N; m_col : N }.
Record span := { sp_start : marker; sp_end : marker }.
Definition span_empty (m : marker) : span := {| sp_start := m; sp_end := m |}.

Inductive style := Plain | SingleQuoted | DoubleQuoted | Literal | Folded.

Inductive tok :=
| TStreamStart | TStreamEnd
| TVersionDirective (maj mnr : N)
| TTagDirective (h p : str)
| TDocumentStart | TDocumentEnd
| TBlockSequenceStart | TBlockMappingStart | TBlockEnd
| TFlowSequenceStart | TFlowSequenceEnd | TFlowMappingStart | TFlowMappingEnd
| TBlockEntry | TFlowEntry | TKey | TValue
| TAlias (n : str) | TAnchor (n : str) | TTag (h s : str)
| TScalar (st : style) (v : str).

Definition token := (span * tok)%type.

Record tag := { tg_handle : str; tg_suffix : str }.

Inductive event :=
| EStreamStart | EStreamEnd
| EDocumentStart (explicit : bool) | EDocumentEnd
| EAlias (id : N)
| EScalar (v : str) (st : style) (aid : N) (tg : option tag)
| ESequenceStart (aid : N) (tg : option tag) | ESequenceEnd
| EMappingStart (aid : N) (tg : option tag) | EMappingEnd.

Inductive pstate :=
| SStreamStart | SImplicitDocumentStart | SDocumentStart | SDocumentContent | SDocumentEnd
| SBlockNode
| SBlockSequenceFirstEntry | SBlockSequenceEntry | SIndentlessSequenceEntry
| SBlockMappingFirstKey | SBlockMappingKey | SBlockMappingValue
| SFlowSequenceFirstEntry | SFlowSequenceEntry
| SFlowSequenceEntryMappingKey | SFlowSequenceEntryMappingValue | SFlowSequenceEntryMappingEnd (m : marker)
| SFlowMappingFirstKey | SFlowMappingKey | SFlowMappingValue | SFlowMappingEmptyValue
| SEnd.

(* error sites are numbered; the message text is not part of the model *)
Inductive perr :=
| PErrScan            (* scanner error or exhausted token stream *)
| PErr (site : N) (at_ : marker).

Inductive res (A : Type) := Ok (a : A) | Err (e : perr) | Panic (site : N).
Arguments Ok {A}. Arguments Err {A}. Arguments Panic {A}.

Record parser := {
  p_toks : list token;         (* tokens the scanner will still deliver *)
  p_token : option token;      (* one-token cache *)
  p_states : list pstate;
  p_state : pstate;
  p_anchors : list (str * N);
  p_anchor_id : N;
  p_tags : list (str * str);
  p_keep_tags : bool;
}.

Definition set_state (p : parser) (s : pstate) : parser :=
  {| p_toks := p_toks p; p_token := p_token p; p_states := p_states p; p_state := s;
     p_anchors := p_anchors p; p_anchor_id := p_anchor_id p; p_tags := p_tags p; p_keep_tags := p_keep_tags p |}.
Definition set_states (p : parser) (l : list pstate) : parser :=
  {| p_toks := p_toks p; p_token := p_token p; p_states := l; p_state := p_state p;
     p_anchors := p_anchors p; p_anchor_id := p_anchor_id p; p_tags := p_tags p; p_keep_tags := p_keep_tags p |}.
Definition set_tok (p : parser) (l : list token) (c : option token) : parser :=
  {| p_toks := l; p_token := c; p_states := p_states p; p_state := p_state p;
     p_anchors := p_anchors p; p_anchor_id := p_anchor_id p; p_tags := p_tags p; p_keep_tags := p_keep_tags p |}.
Definition set_anchors (p : parser) (a : list (str * N)) (n : N) : parser :=
  {| p_toks := p_toks p; p_token := p_token p; p_states := p_states p; p_state := p_state p;
     p_anchors := a; p_anchor_id := n; p_tags := p_tags p; p_keep_tags := p_keep_tags p |}.
Definition set_tags (p : parser) (t : list (str * str)) : parser :=
  {| p_toks := p_toks p; p_token := p_token p; p_states := p_states p; p_state := p_state p;
     p_anchors := p_anchors p; p_anchor_id := p_anchor_id p; p_tags := t; p_keep_tags := p_keep_tags p |}.

(* peek_token: fills the cache *)
Definition peek (p : parser) : res (token * parser) :=
  match p_token p with
  | Some t => Ok (t, p)
  | None => match p_toks p with
            | [] => Err PErrScan
            | t :: r => Ok (t, set_tok p r (Some t))
            end
  end.
Definition skip (p : parser) : parser := set_tok p (p_toks p) None.
Definition push_state (p : parser) (s : pstate) : parser := set_states p (s :: p_states p).
Definition pop_state (p : parser) : res parser :=
  match p_states p with
  | [] => Panic 1
  | s :: r => Ok (set_state (set_states p r) s)
  end.

Notation "'do' x <- m ; f" := (match m with Ok x => f | Err e => Err e | Panic n => Panic n end)
  (at level 200, x pattern, m at level 100, f at level 200).

Definition empty_scalar : event := EScalar [126%N] Plain 0 None.
Definition empty_scalar_with (aid : N) (tg : option tag) : event := EScalar [] Plain aid tg.

Fixpoint assoc {B} (k : str) (l : list (str * B)) : option B :=
  match l with [] => None | (k', v) :: r => if str_eqb k k' then Some v else assoc k r end.
(* HashMap::insert *)
Fixpoint assoc_set {B} (k : str) (v : B) (l : list (str * B)) : list (str * B) :=
  match l with
  | [] => [(k, v)]
  | (k', v') :: r => if str_eqb k k' then (k, v) :: r else (k', v') :: assoc_set k v r
  end.

Definition bang : N := 33.
Definition default_prefix : str := (* "tag:yaml.org,2002:" *)
  [116;97;103;58;121;97;109;108;46;111;114;103;44;50;48;48;50;58]%N.

Definition is_named_handle (h : str) : bool :=
  match h with
  | a :: _ :: _ => N.eqb a bang && N.eqb (last h 0%N) bang
  | _ => false
  end.

Definition resolve_tag (p : parser) (at_ : marker) (h s : str) : res tag :=
  if str_eqb h [bang; bang] then
    Ok {| tg_handle := match assoc h (p_tags p) with Some pre => pre | None => default_prefix end; tg_suffix := s |}
  else if (match h with [] => true | _ => false end) && str_eqb s [bang] then
    Ok {| tg_handle := match assoc [] (p_tags p) with Some pre => pre | None => [] end; tg_suffix := s |}
  else match assoc h (p_tags p) with
       | Some pre => Ok {| tg_handle := pre; tg_suffix := s |}
       | None => if is_named_handle h then Err (PErr 20 at_) else Ok {| tg_handle := h; tg_suffix := s |}
       end.

Definition register_anchor (p : parser) (name : str) : N * parser :=
  let id := p_anchor_id p in
  (id, set_anchors p (assoc_set name id (p_anchors p)) (id + 1)%N).

(* parse_node, split in: alias / properties / content *)
Definition has_props (aid : N) (tg : option tag) : bool :=
  (match tg with Some _ => true | None => false end) || (0 <? aid)%N.

Definition node_props (p : parser) (t : token) : res (N * option tag * parser) :=
  match t with
  | (sp, TAnchor name) =>
      let p := skip p in
      let '(id, p) := register_anchor p name in
      do (t2, p) <- peek p;
      match t2 with
      | (_, TTag h s) => let p := skip p in do tg <- resolve_tag p (sp_start sp) h s; Ok (id, Some tg, p)
      | _ => Ok (id, None, p)
      end
  | (sp, TTag h s) =>
      let p := skip p in
      do tg <- resolve_tag p (sp_start sp) h s;
      do (t2, p) <- peek p;
      match t2 with
      | (_, TAnchor name) => let p := skip p in let '(id, p) := register_anchor p name in Ok (id, Some tg, p)
      | _ => Ok (0%N, Some tg, p)
      end
  | _ => Ok (0%N, None, p)
  end.

Definition empty_or_err (p : parser) (aid : N) (tg : option tag) (sp : span) : res ((event * span) * parser) :=
  if has_props aid tg then do p <- pop_state p; Ok ((empty_scalar_with aid tg, sp), p)
  else Err (PErr 11 (sp_start sp)).

Definition node_content (p : parser) (aid : N) (tg : option tag) (block indentless : bool)
  : res ((event * span) * parser) :=
  do (t, p) <- peek p;
  match t with
  | (sp, TBlockEntry) =>
      if indentless then Ok ((ESequenceStart aid tg, sp), set_state p SIndentlessSequenceEntry)
      else empty_or_err p aid tg sp
  | (sp, TScalar st v) => do p <- pop_state p; Ok ((EScalar v st aid tg, sp), skip p)
  | (sp, TFlowSequenceStart) => Ok ((ESequenceStart aid tg, sp), set_state p SFlowSequenceFirstEntry)
  | (sp, TFlowMappingStart) => Ok ((EMappingStart aid tg, sp), set_state p SFlowMappingFirstKey)
  | (sp, TBlockSequenceStart) =>
      if block then Ok ((ESequenceStart aid tg, sp), set_state p SBlockSequenceFirstEntry)
      else empty_or_err p aid tg sp
  | (sp, TBlockMappingStart) =>
      if block then Ok ((EMappingStart aid tg, sp), set_state p SBlockMappingFirstKey)
      else empty_or_err p aid tg sp
  | (sp, _) => empty_or_err p aid tg sp
  end.

Definition parse_node (p : parser) (block indentless : bool) : res ((event * span) * parser) :=
  do (t, p) <- peek p;
  match t with
  | (sp, TAlias name) =>
      do p <- pop_state p;
      let p := skip p in
      match assoc name (p_anchors p) with
      | None => Err (PErr 10 (sp_start sp))
      | Some id => Ok ((EAlias id, sp), p)
      end
  | _ =>
      do (aid, tg, p) <- node_props p t;
      node_content p aid tg block indentless
  end.

Definition is_tok_in (t : tok) (f : tok -> bool) := f t.

Definition stream_start (p : parser) :=
  do (t, p) <- peek p;
  match t with
  | (sp, TStreamStart) => Ok ((EStreamStart, sp), skip (set_state p SImplicitDocumentStart))
  | (sp, _) => Err (PErr 1 (sp_start sp))
  end.

(* parser_process_directives: the directives of one document are collected in a local table
   ([tags], reversed insertion order is irrelevant: lookups go through [assoc]) and merged into
   [p_tags] after the loop (HashMap::extend: later bindings override earlier ones). *)
Fixpoint extend_tags (t : list (str * str)) (new : list (str * str)) : list (str * str) :=
  match new with
  | [] => t
  | (h, pre) :: r => extend_tags (assoc_set h pre t) r
  end.

Definition is_empty_str (s : str) : bool := match s with [] => true | _ => false end.
Definition has_key {B} (k : str) (l : list (str * B)) : bool :=
  match assoc k l with Some _ => true | None => false end.

Fixpoint process_directives (fuel : nat) (p : parser) (version_seen : bool) (tags : list (str * str)) : res parser :=
  match fuel with
  | O => Panic 99
  | S fuel =>
    do (t, p) <- peek p;
    match t with
    | (sp, TVersionDirective _ _) =>
        if version_seen then Err (PErr 2 (sp_start sp))
        else process_directives fuel (skip p) true tags
    | (sp, TTagDirective h pre) =>
        if negb (is_empty_str h) && has_key h tags then Err (PErr 21 (sp_start sp))
        else process_directives fuel (skip p) version_seen (assoc_set h pre tags)
    | _ => Ok (set_tags p (extend_tags (p_tags p) tags))
    end
  end.

Definition explicit_document_start (p : parser) :=
  do p <- process_directives (S (S (length (p_toks p)))) p false [];
  do (t, p) <- peek p;
  match t with
  | (sp, TDocumentStart) => Ok ((EDocumentStart true, sp), skip (set_state (push_state p SDocumentEnd) SDocumentContent))
  | (sp, _) => Err (PErr 3 (sp_start sp))
  end.

Fixpoint skip_document_ends (fuel : nat) (p : parser) : res parser :=
  match fuel with
  | O => Panic 98
  | S fuel =>
    do (t, p) <- peek p;
    match t with
    | (_, TDocumentEnd) => skip_document_ends fuel (skip p)
    | _ => Ok p
    end
  end.

Definition document_start (p : parser) (implicit : bool) :=
  do p <- skip_document_ends (S (S (length (p_toks p)))) p;
  do (t, p) <- peek p;
  match t with
  | (sp, TStreamEnd) => Ok ((EStreamEnd, sp), skip (set_state p SEnd))
  | (_, TVersionDirective _ _) | (_, TTagDirective _ _) | (_, TDocumentStart) => explicit_document_start p
  | (sp, _) =>
      if implicit then
        do p <- process_directives (S (S (length (p_toks p)))) p false [];
        Ok ((EDocumentStart false, sp), set_state (push_state p SDocumentEnd) SBlockNode)
      else explicit_document_start p
  end.

Definition document_content (p : parser) :=
  do (t, p) <- peek p;
  match t with
  | (sp, TVersionDirective _ _) | (sp, TTagDirective _ _) | (sp, TDocumentStart) | (sp, TDocumentEnd) | (sp, TStreamEnd) =>
      do p <- pop_state p; Ok ((empty_scalar, sp), p)
  | _ => parse_node p true false
  end.

Definition document_end (p : parser) :=
  do (t, p) <- peek p;
  let '(explicit_end, sp, p) :=
    match t with
    | (sp, TDocumentEnd) => (true, sp, skip p)
    | (sp, _) => (false, sp, p)
    end in
  let p := if p_keep_tags p then p else set_tags p [] in
  let p := set_anchors p [] (p_anchor_id p) in
  if explicit_end then Ok ((EDocumentEnd, sp), set_state p SImplicitDocumentStart)
  else
    do (t, p) <- peek p;
    match t with
    | (sp2, TVersionDirective _ _) | (sp2, TTagDirective _ _) => Err (PErr 4 (sp_start sp2))
    | _ => Ok ((EDocumentEnd, sp), set_state p SDocumentStart)
    end.

Definition block_mapping_key (p : parser) (first : bool) :=
  do p <- (if first then do (_, p) <- peek p; Ok (skip p) else Ok p);
  do (t, p) <- peek p;
  match t with
  | (_, TKey) =>
      let p := skip p in
      do (t, p) <- peek p;
      match t with
      | (sp, TKey) | (sp, TValue) | (sp, TBlockEnd) => Ok ((empty_scalar, sp), set_state p SBlockMappingValue)
      | _ => parse_node (push_state p SBlockMappingValue) true true
      end
  | (sp, TValue) => Ok ((empty_scalar, sp), set_state p SBlockMappingValue)
  | (sp, TBlockEnd) => do p <- pop_state p; Ok ((EMappingEnd, sp), skip p)
  | (sp, _) => Err (PErr 5 (sp_start sp))
  end.

Definition block_mapping_value (p : parser) :=
  do (t, p) <- peek p;
  match t with
  | (_, TValue) =>
      let p := skip p in
      do (t, p) <- peek p;
      match t with
      | (sp, TKey) | (sp, TValue) | (sp, TBlockEnd) => Ok ((empty_scalar, sp), set_state p SBlockMappingKey)
      | _ => parse_node (push_state p SBlockMappingKey) true true
      end
  | (sp, _) => Ok ((empty_scalar, sp), set_state p SBlockMappingKey)
  end.

Definition flow_mapping_key (p : parser) (first : bool) :=
  do p <- (if first then do (_, p) <- peek p; Ok (skip p) else Ok p);
  do (t, p) <- peek p;
  match t with
  | (sp, TFlowMappingEnd) => do p <- pop_state p; Ok ((EMappingEnd, sp), skip p)
  | (sp, _) =>
      do p <- (if first then Ok p else
                 do (t, p) <- peek p;
                 match t with
                 | (_, TFlowEntry) => Ok (skip p)
                 | (sp2, _) => Err (PErr 6 (sp_start sp2))
                 end);
      do (t, p) <- peek p;
      match t with
      | (_, TKey) =>
          let p := skip p in
          do (t, p) <- peek p;
          match t with
          | (sp2, TValue) | (sp2, TFlowEntry) | (sp2, TFlowMappingEnd) => Ok ((empty_scalar, sp2), set_state p SFlowMappingValue)
          | _ => parse_node (push_state p SFlowMappingValue) false false
          end
      | (sp2, TValue) => Ok ((empty_scalar, sp2), set_state p SFlowMappingValue)
      | (_, TFlowMappingEnd) => do p <- pop_state p; Ok ((EMappingEnd, sp), skip p)
      | _ => parse_node (push_state p SFlowMappingEmptyValue) false false
      end
  end.

Definition flow_mapping_value (p : parser) (empty : bool) :=
  if empty then
    do (t, p) <- peek p; Ok ((empty_scalar, fst t), set_state p SFlowMappingKey)
  else
    do (t, p) <- peek p;
    match t with
    | (sp, TValue) =>
        let p := skip p in
        do (t, p) <- peek p;
        match t with
        | (_, TFlowEntry) | (_, TFlowMappingEnd) => Ok ((empty_scalar, sp), set_state p SFlowMappingKey)
        | _ => parse_node (push_state p SFlowMappingKey) false false
        end
    | (sp, _) => Ok ((empty_scalar, sp), set_state p SFlowMappingKey)
    end.

Definition flow_sequence_entry (p : parser) (first : bool) :=
  do p <- (if first then do (_, p) <- peek p; Ok (skip p) else Ok p);
  do (t, p) <- peek p;
  match t with
  | (sp, TFlowSequenceEnd) => do p <- pop_state p; Ok ((ESequenceEnd, sp), skip p)
  | _ =>
    do p <- (match t with
             | (_, TFlowEntry) => if first then Ok p else Ok (skip p)
             | (sp, _) => if first then Ok p else Err (PErr 7 (sp_start sp))
             end);
    do (t, p) <- peek p;
    match t with
    | (sp, TFlowSequenceEnd) => do p <- pop_state p; Ok ((ESequenceEnd, sp), skip p)
    | (sp, TKey) => Ok ((EMappingStart 0 None, sp), skip (set_state p SFlowSequenceEntryMappingKey))
    | _ => parse_node (push_state p SFlowSequenceEntry) false false
    end
  end.

Definition indentless_sequence_entry (p : parser) :=
  do (t, p) <- peek p;
  match t with
  | (_, TBlockEntry) =>
      let p := skip p in
      do (t, p) <- peek p;
      match t with
      | (sp, TBlockEntry) | (sp, TKey) | (sp, TValue) | (sp, TBlockEnd) =>
          Ok ((empty_scalar, sp), set_state p SIndentlessSequenceEntry)
      | _ => parse_node (push_state p SIndentlessSequenceEntry) true false
      end
  | (sp, _) => do p <- pop_state p; Ok ((ESequenceEnd, sp), p)
  end.

Definition block_sequence_entry (p : parser) (first : bool) :=
  do p <- (if first then do (_, p) <- peek p; Ok (skip p) else Ok p);
  do (t, p) <- peek p;
  match t with
  | (sp, TBlockEnd) => do p <- pop_state p; Ok ((ESequenceEnd, sp), skip p)
  | (_, TBlockEntry) =>
      let p := skip p in
      do (t, p) <- peek p;
      match t with
      | (sp, TBlockEntry) | (sp, TBlockEnd) => Ok ((empty_scalar, sp), set_state p SBlockSequenceEntry)
      | _ => parse_node (push_state p SBlockSequenceEntry) true false
      end
  | (sp, _) => Err (PErr 8 (sp_start sp))
  end.

Definition flow_sequence_entry_mapping_key (p : parser) :=
  do (t, p) <- peek p;
  match t with
  | (sp, TValue) | (sp, TFlowEntry) | (sp, TFlowSequenceEnd) =>
      Ok ((empty_scalar, sp), set_state p SFlowSequenceEntryMappingValue)
  | _ => parse_node (push_state p SFlowSequenceEntryMappingValue) false false
  end.

Definition flow_sequence_entry_mapping_value (p : parser) :=
  do (t, p) <- peek p;
  match t with
  | (_, TValue) =>
      let p := skip p in
      do (t, p) <- peek p;
      match t with
      | (sp, TFlowEntry) | (sp, TFlowSequenceEnd) =>
          Ok ((empty_scalar, sp), set_state p (SFlowSequenceEntryMappingEnd (sp_end sp)))
      | (sp, _) => parse_node (push_state (set_state p SFlowSequenceEntryMappingValue) (SFlowSequenceEntryMappingEnd (sp_end sp))) false false
      end
  | (sp, _) => Ok ((empty_scalar, sp), set_state p (SFlowSequenceEntryMappingEnd (sp_end sp)))
  end.

Definition flow_sequence_entry_mapping_end (p : parser) (m : marker) :=
  Ok ((EMappingEnd, span_empty m), set_state p SFlowSequenceEntry).

(* state_machine; State::End is handled by `parse` *)
Definition state_machine (p : parser) : res ((event * span) * parser) :=
  match p_state p with
  | SStreamStart => stream_start p
  | SImplicitDocumentStart => document_start p true
  | SDocumentStart => document_start p false
  | SDocumentContent => document_content p
  | SDocumentEnd => document_end p
  | SBlockNode => parse_node p true false
  | SBlockMappingFirstKey => block_mapping_key p true
  | SBlockMappingKey => block_mapping_key p false
  | SBlockMappingValue => block_mapping_value p
  | SBlockSequenceFirstEntry => block_sequence_entry p true
  | SBlockSequenceEntry => block_sequence_entry p false
  | SFlowSequenceFirstEntry => flow_sequence_entry p true
  | SFlowSequenceEntry => flow_sequence_entry p false
  | SFlowMappingFirstKey => flow_mapping_key p true
  | SFlowMappingKey => flow_mapping_key p false
  | SFlowMappingValue => flow_mapping_value p false
  | SIndentlessSequenceEntry => indentless_sequence_entry p
  | SFlowSequenceEntryMappingKey => flow_sequence_entry_mapping_key p
  | SFlowSequenceEntryMappingValue => flow_sequence_entry_mapping_value p
  | SFlowSequenceEntryMappingEnd m => flow_sequence_entry_mapping_end p m
  | SFlowMappingEmptyValue => flow_mapping_value p true
  | SEnd => Panic 2
  end.
