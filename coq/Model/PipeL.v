From Coq Require Import List NArith ZArith Bool.
Import ListNotations.
Require Import Parser SBase SPrim SDir SScalar SFetch Pipe Resolver Loader.

Definition clear_anchors (p : parser) : parser :=
  {| p_toks := p_toks p; p_token := p_token p; p_states := p_states p; p_state := p_state p;
     p_anchors := []; p_anchor_id := p_anchor_id p; p_tags := p_tags p; p_keep_tags := p_keep_tags p |}.

(* Parser::load(multi = true): same events, anchors cleared after each DocumentStart *)
Fixpoint parse_load (fuel : nat) (p : parser) (se : scan_end) (acc : list event) : list event * pend :=
  match fuel with
  | O => (rev acc, PFuel)
  | S fuel =>
    match p_state p with
    | SEnd => (rev acc, PDone)
    | _ =>
      match state_machine p with
      | Parser.Ok ((ev, _), p') =>
          let p' := match ev with EDocumentStart _ => clear_anchors p' | _ => p' end in
          parse_load fuel p' se (ev :: acc)
      | Parser.Err PErrScan =>
          (rev acc, match se with
                    | SError s m => PScanErr s m | SPanic n => PPanic n | SFuel => PFuel
                    | SEnded => PScanErr 0 {| m_index := 0; m_line := 0; m_col := 0 |} end)
      | Parser.Err (PErr s m) => (rev acc, PParseErr s m)
      | Parser.Panic n => (rev acc, PPanic n)
      end
    end
  end.

Inductive lout := LDocs (d : list yaml) | LErr | LBad (n : N).
Definition run_load (s : list N) : lout :=
  let F := (2 * length s + 10)%nat in
  let '(toks, se) := scan_all str_ops F (4 * F + 20) (init_sc {| si_chars := s; si_look := 0 |}) [] in
  let p := {| p_toks := toks; p_token := None; p_states := []; p_state := SStreamStart;
              p_anchors := []; p_anchor_id := 1%N; p_tags := []; p_keep_tags := false |} in
  match parse_load (4 * F + 20) p se [] with
  | (evs, PDone) => match load_events evs l0 with LOk ld => LDocs (rev (l_docs ld)) | LPanic n => LBad n end
  | (_, PPanic n) => LBad n
  | (_, PFuel) => LBad 999
  | _ => LErr
  end.
