(* Scratch prototype: scanner model, part 3 — directives, tags, anchors. *)
From Coq Require Import List NArith ZArith Bool.
Import ListNotations.
Require Import Parser SBase SPrim.
Open Scope N_scope.
Open Scope mon_scope.

Section Dir.
Context {I : Type} (ops : InputOps I).
Notation M := (@M I).
Variable F : nat.   (* fuel: an upper bound on the number of characters left, + slack *)

Definition mkspan (a b : marker) : span := {| sp_start := a; sp_end := b |}.

(* char::len_utf8 *)
Definition len_utf8 (c : N) : N := if c <? 128 then 1 else if c <? 2048 then 2 else if c <? 65536 then 3 else 4.

(* scan_uri_escapes *)
Definition scan_uri_escapes (mk : marker) : M chr :=
  (fix go (f : nat) (width : N) (len : N) (code : N) (first : bool) : M chr :=
     match f with
     | O => oof
     | S f =>
       look ops 3 ;;; c0 <- peek ops ;; c <- peekn ops 1 ;; nc <- peekn ops 2 ;;
       if negb ((c0 =? 37) && is_hex c && is_hex nc) then fail 50 mk else
       let byte := as_hex c * 16 + as_hex nc in
       r <- (if first then
               if N.land byte 128 =? 0 then ret (1, byte)
               else if N.land byte 224 =? 192 then ret (2, N.land byte 31)
               else if N.land byte 240 =? 224 then ret (3, N.land byte 15)
               else if N.land byte 248 =? 240 then ret (4, N.land byte 7)
               else fail 51 mk
             else if negb (N.land byte 192 =? 128) then fail 52 mk
             else ret (width, code * 64 + N.land byte 63)) ;;
       let '(w, cd) := r in
       let len := if first then w else len in
       skip_n_non_blank ops 3 ;;;
       if w - 1 =? 0 then
         (if ((cd <? 55296) || ((57343 <? cd) && (cd <=? 1114111))) && (len_utf8 cd =? len) then ret cd else fail 53 mk)
       else go f (w - 1) len cd false
     end) 5%nat 0 0 0 true.

(* scan_tag_handle (1157-1187): returns the handle string *)
Definition scan_tag_handle (directive : bool) (mk : marker) : M (list chr) :=
  c <- look_ch ops ;;
  if negb (c =? 33) then fail 54 mk else
  skip_non_blank ops ;;;
  r <- in_fetch_while_alpha ops F [33] ;;
  adv_mark (snd r) ;;;
  c <- peek ops ;;
  if c =? 33 then skip_non_blank ops ;;; ret (rev (33 :: fst r))
  else if directive && negb (match fst r with [33] => true | _ => false end) then fail 55 mk
  else ret (rev (fst r)).

(* generic "while is_X(look_ch) { push or uri-escape }" loop; acc reversed; counts iterations *)
Definition uri_loop (p : chr -> bool) (mk : marker) (acc : list chr) : M (list chr * N) :=
  (fix go (f : nat) (acc : list chr) (n : N) : M (list chr * N) :=
     match f with
     | O => oof
     | S f =>
       c <- look_ch ops ;;
       if p c then
         if c =? 37 then e <- scan_uri_escapes mk ;; go f (e :: acc) (n + 1)
         else skip_non_blank ops ;;; go f (c :: acc) (n + 1)
       else ret (acc, n)
     end) F acc 0.

(* scan_tag_prefix (1194-1226) *)
Definition scan_tag_prefix (mk : marker) : M (list chr) :=
  c <- look_ch ops ;;
  acc <- (if c =? 33 then skip_non_blank ops ;;; ret [33]
          else if negb (is_tag_char c) then fail 56 mk
          else if c =? 37 then e <- scan_uri_escapes mk ;; ret [e]
          else skip_non_blank ops ;;; ret [c]) ;;
  r <- uri_loop is_uri_char mk acc ;; ret (rev (fst r)).

(* scan_verbatim_tag (1231-1255) *)
Definition scan_verbatim_tag (mk : marker) : M (list chr) :=
  skip_non_blank ops ;;; skip_non_blank ops ;;;
  r <- uri_loop is_uri_char mk [] ;;
  c <- peek ops ;;
  if negb (c =? 62) then fail 57 mk else skip_non_blank ops ;;; ret (rev (fst r)).

(* scan_tag_shorthand_suffix (1257-1293) *)
Definition scan_tag_shorthand_suffix (head : list chr) (mk : marker) : M (list chr) :=
  let len := N.of_nat (length head) in
  let acc := if 1 <? len then rev (tl head) else [] in
  r <- uri_loop is_tag_char mk acc ;;
  if len + snd r =? 0 then fail 58 mk else ret (rev (fst r)).

(* scan_tag (1110-1155) *)
Definition scan_tag : M token :=
  start <- mark ;;
  look ops 2 ;;; v <- nth_char_is ops 1 60 ;;
  hs <- (if v then s <- scan_verbatim_tag start ;; ret ([], s)
         else
           h <- scan_tag_handle false start ;;
           if (2 <=? N.of_nat (length h)) && (hd 0 h =? 33) && (last h 0 =? 33) then
             s <- scan_tag_shorthand_suffix [] start ;; ret (h, s)
           else
             s <- scan_tag_shorthand_suffix h start ;;
             match s with
             | [] => ret ([], [33])
             | _ => ret ([33], s)
             end) ;;
  c <- look_ch ops ;; fl <- flow_level ;;
  if is_blank_or_breakz c || ((0 <? fl) && is_flow c) then
    m <- mark ;; ret (mkspan start m, TTag (fst hs) (snd hs))
  else fail 59 start.

(* scan_anchor (1364-1384) *)
Definition scan_anchor (alias : bool) : M token :=
  start <- mark ;;
  skip_non_blank ops ;;;
  r <- (fix go (f : nat) (acc : list chr) : M (list chr) :=
          match f with
          | O => oof
          | S f => c <- look_ch ops ;; if is_anchor_char c then skip_non_blank ops ;;; go f (c :: acc) else ret acc
          end) F [] ;;
  match r with
  | [] => fail 60 start
  | _ => m <- mark ;; ret (mkspan start m, if alias then TAlias (rev r) else TAnchor (rev r))
  end.

(* scan_version_directive_number (1048-1071) *)
Definition scan_version_directive_number (mk : marker) : M N :=
  (fix go (f : nat) (val : N) (len : N) : M N :=
     match f with
     | O => oof
     | S f =>
       c <- look_ch ops ;;
       if is_digit c then
         if VERSION_DIGITS_MAX <? len + 1 then fail 61 mk
         else
           let v := val * 10 + (c - 48) in
           (if 4294967295 <? v then panic 120 else ret tt) ;;;
           skip_non_blank ops ;;; go f v (len + 1)
       else if len =? 0 then fail 62 mk else ret val
     end) F 0 0.

Definition scan_version_directive_value (mk : marker) : M token :=
  n <- in_skip_while_blank ops F ;; adv_mark n ;;;
  major <- scan_version_directive_number mk ;;
  c <- peek ops ;;
  if negb (c =? 46) then fail 63 mk else
  skip_non_blank ops ;;;
  minor <- scan_version_directive_number mk ;;
  m <- mark ;; ret (mkspan mk m, TVersionDirective major minor).

Definition scan_tag_directive_value (mk : marker) : M token :=
  n <- in_skip_while_blank ops F ;; adv_mark n ;;;
  h <- scan_tag_handle true mk ;;
  n <- in_skip_while_blank ops F ;; adv_mark n ;;;
  p <- scan_tag_prefix mk ;;
  look ops 1 ;;; c <- peek ops ;;
  if is_blank_or_breakz c then m <- mark ;; ret (mkspan mk m, TTagDirective h p)
  else fail 64 mk.

Definition scan_directive_name : M (list chr) :=
  start <- mark ;;
  r <- in_fetch_while_alpha ops F [] ;;
  adv_mark (snd r) ;;;
  match fst r with
  | [] => fail 65 start
  | _ => c <- peek ops ;; if is_blank_or_breakz c then ret (rev (fst r)) else fail 66 start
  end.

Definition s_YAML : list chr := [89;65;77;76].
Definition s_TAG : list chr := [84;65;71].

(* scan_directive (962-998) *)
Definition scan_directive : M token :=
  start <- mark ;;
  skip_non_blank ops ;;;
  name <- scan_directive_name ;;
  tk <- (if str_eqb name s_YAML then scan_version_directive_value start
         else if str_eqb name s_TAG then scan_tag_directive_value start
         else n <- in_skip_while_non_breakz ops F ;; adv_mark n ;;;
              m <- mark ;; ret (mkspan start m, TTagDirective [] [])) ;;
  skip_ws_to_eol ops F SkipYes ;;;
  b <- next_is ops is_breakz ;;
  if b then look ops 2 ;;; skip_linebreak ops ;;; ret tk else fail 67 start.

End Dir.
