(* C09 — executable model of the emitter (saphyr/src/emitter.rs) over code points.
   need_quotes / escape_str are driven by the tables regenerated from emitter.rs (Gen/EmitterTables.v);
   Rust's `str::parse::<i64>()`, `str::parse::<f64>()` and `Scalar::parse_from_cow` are the models of Resolver.v.
   Strings are lists of Unicode scalar values.  escape_str works on the BYTES of the UTF-8 string, but every key of
   its table is an ASCII byte (lemma esc_keys_ascii in EmitterProofs.v) and the bytes of a non-ASCII character are
   all >= 0x80, so on code points it is: table lookup for listed code points, identity otherwise. *)
From Coq Require Import List NArith ZArith Bool.
Import ListNotations.
Require Import Resolver.
Require Export EmitterTables.
Open Scope N_scope.

(* ---------------- need_quotes (emitter.rs) ---------------- *)
Definition is_nil {A} (l : list A) : bool := match l with [] => true | _ => false end.
Definition starts_with_ch (s : str) (c : N) : bool := match s with x :: _ => N.eqb x c | [] => false end.
Definition ends_with_ch (s : str) (c : N) : bool := match s with [] => false | _ => N.eqb (last s 0) c end.
Definition starts_with_in (s : str) (l : list (N * N)) : bool := match s with c :: _ => in_ranges c l | [] => false end.
Definition contains_in (s : str) (l : list (N * N)) : bool := existsb (fun c => in_ranges c l) s.
Definition has_prefix (p s : str) : bool := match strip_prefix p s with Some _ => true | None => false end.
Definition is_some {A} (o : option A) : bool := match o with Some _ => true | None => false end.
Definition is_sstr (r : scalar) : bool := match r with SStr _ => true | _ => false end.

Definition need_quotes (s : str) : bool :=
  (nq_empty && is_nil s)
  || (nq_spaces && (starts_with_ch s 32 || ends_with_ch s 32))
  || starts_with_in s nq_leading
  || contains_in s nq_anywhere
  || inl s nq_words
  || existsb (fun p => has_prefix p s) nq_prefixes
  || (nq_i64 && is_some (parse_i64 s))
  || (nq_f64 && is_some (rust_parse_f64 s))
  || (nq_resolver && negb (is_sstr (parse_from_cow s))).

(* ---------------- escape_str ---------------- *)
Fixpoint esc_lookup (c : N) (t : list (N * list N)) : option (list N) :=
  match t with [] => None | (k, e) :: r => if N.eqb k c then Some e else esc_lookup c r end.
Definition escape_char (c : N) : str := match esc_lookup c emit_escape_table with Some e => e | None => [c] end.
Definition escape_body (s : str) : str := flat_map escape_char s.
Definition escape_str (s : str) : str := 34 :: escape_body s ++ [34].

(* ---------------- number text ---------------- *)
(* Display for i64: decimal digits, least significant first; fuel = bit length + 1 *)
Fixpoint dec_rev (fuel : nat) (n : N) : str :=
  match fuel with
  | O => []
  | S f => (48 + n mod 10) :: (if n <? 10 then [] else dec_rev f (n / 10))
  end.
Definition dec_N (n : N) : str := rev (dec_rev (S (N.to_nat (N.size n))) n).
Definition dec_Z (z : Z) : str :=
  match z with
  | Z0 => [48]
  | Zpos p => dec_N (Npos p)
  | Zneg p => 45 :: dec_N (Npos p)
  end.

(* ---------------- the node trees the property quantifies over ----------------
   A float leaf carries the text the implementation's number formatting produced for it (".nan", ".inf", "-.inf" or
   Rust's `{:?}` of the f64): float formatting is an input of the model, not part of it. *)
Inductive node :=
| NNull
| NBool (b : bool)
| NInt (z : Z)
| NFloat (txt : str)
| NStr (s : str)
| NSeq (l : list node)
| NMap (l : list (node * node)).

Definition w_true : str := [116; 114; 117; 101].
Definition w_false : str := [102; 97; 108; 115; 101].

(* ---------------- layout ---------------- *)
Definition best_indent : Z := 2.
(* write_indent: nothing when level <= 0 *)
Definition indent (level : Z) : str :=
  if (level <=? 0)%Z then [] else repeat 32 (Z.to_nat (level * best_indent)).

(* Rust str::lines(): split after every '\n'; each piece loses its final "\n" and then a final "\r" *)
Definition strip_cr (l : str) : str := if ends_with_ch l 13 then removelast l else l.
Fixpoint lines_aux (s : str) (cur : str) : list str :=      (* cur: current line, reversed *)
  match s with
  | [] => match cur with [] => [] | _ => [rev cur] end
  | c :: r => if N.eqb c 10 then strip_cr (rev cur) :: lines_aux r [] else lines_aux r (c :: cur)
  end.
Definition rust_lines (s : str) : list str := lines_aux s [].

Definition is_valid_literal_block_scalar (s : str) : bool := forallb (fun c => in_ranges c literal_block_chars) s.
Definition contains_ch (s : str) (c : N) : bool := existsb (N.eqb c) s.

Definition emit_literal_block (level : Z) (v : str) : str :=
  (if ends_with_ch v 10 then [124] else [124; 45])
  ++ flat_map (fun line => 10 :: indent (level + 1) ++ line) (rust_lines v).

(* str::trim_start_matches('\n') *)
Fixpoint trim_start_lf (s : str) : str :=
  match s with c :: r => if N.eqb c 10 then trim_start_lf r else s | [] => [] end.
(* str::ends_with("\n\n") *)
Definition ends_with_2lf (s : str) : bool := match rev s with 10 :: 10 :: _ => true | _ => false end.
(* the closure `|line| line.starts_with("---") || line.starts_with("...")` over the generated prefix list *)
Definition marker_like (line : str) : bool := existsb (fun p => has_prefix p line) lit_root_bad_prefixes.

(* YamlEmitter::is_literal_block (self.multiline_strings, self.level; the guards present in the source are the
   generated flags lit_guard_*: without them this is the condition emit_node used to test in line) *)
Definition is_literal_block (multiline : bool) (level : Z) (v : str) : bool :=
  if negb (multiline && contains_ch v 10 && is_valid_literal_block_scalar v) then false
  else if lit_guard_content && (let content := trim_start_lf v in is_nil content || starts_with_ch content 32) then false
  else if lit_guard_tail && ends_with_2lf v then false
  else if lit_guard_root && (level <? 0)%Z
       then forallb (fun c => negb (starts_with_ch v c)) lit_root_bad_start
            && negb (existsb marker_like (rust_lines v))
  else true.

Definition emit_string (multiline : bool) (level : Z) (v : str) : str :=
  if is_literal_block multiline level v then emit_literal_block level v
  else if need_quotes v then escape_str v
  else v.

(* str::len(): the length in bytes of the UTF-8 encoding *)
Definition utf8_len_ch (c : N) : N := if c <? 128 then 1 else if c <? 2048 then 2 else if c <? 65536 then 3 else 4.
Definition utf8_len (s : str) : N := fold_right (fun c a => utf8_len_ch c + a) 0 s.
Definition str_len (s : str) : N := N.of_nat (length s).          (* str::chars().count() *)

(* is_long_key (emitter.rs; `escape_str` into a String never fails).  usize arithmetic is not modelled: the
   subtraction and the division are on constants *)
Definition is_long_key (s : str) : bool :=
  if utf8_len s <=? (emit_key_max - emit_key_quotes) / emit_key_esc_max then false
  else if need_quotes s then emit_key_max <? str_len (escape_str s)
  else emit_key_max <? str_len s.

Definition is_collection (n : node) : bool := match n with NSeq _ | NMap _ => true | _ => false end.

Section Layout.
Variables compact multiline : bool.

(* `complex_key` of emit_mapping, evaluated at the level of the mapping's entries: collections, and the string keys
   that are emitted as a literal block or are too long for an implicit key (where the source says so) *)
Definition complex_key (level : Z) (k : node) : bool :=
  match k with
  | NSeq _ | NMap _ => true
  | NStr s => (key_explicit_literal && is_literal_block multiline level s) || (key_explicit_long && is_long_key s)
  | _ => false
  end.

(* mode None = emit_node; mode (Some inline) = emit_val(inline, _): what precedes a value after "-", "?" or ":" *)
Definition val_prefix (mode : option bool) (level : Z) (empty : bool) : str :=
  match mode with
  | None => []
  | Some inline => if (inline && compact) || empty then [32] else 10 :: indent (level + 1)
  end.
Definition scalar_prefix (mode : option bool) : str := match mode with None => [] | Some _ => [32] end.

Fixpoint emit (mode : option bool) (level : Z) (n : node) {struct n} : str :=
  match n with
  | NNull => scalar_prefix mode ++ [126]
  | NBool b => scalar_prefix mode ++ (if b then w_true else w_false)
  | NInt z => scalar_prefix mode ++ dec_Z z
  | NFloat txt => scalar_prefix mode ++ txt
  | NStr v => scalar_prefix mode ++ emit_string multiline level v
  | NSeq v =>
      val_prefix mode level (is_nil v) ++
      match v with
      | [] => [91; 93]
      | _ =>
        (fix items (first : bool) (l : list node) : str :=
           match l with
           | [] => []
           | x :: r => (if first then [] else 10 :: indent (level + 1)) ++ [45] ++ emit (Some true) (level + 1) x
                       ++ items false r
           end) true v
      end
  | NMap h =>
      val_prefix mode level (is_nil h) ++
      match h with
      | [] => [123; 125]
      | _ =>
        (fix pairs (first : bool) (l : list (node * node)) : str :=
           match l with
           | [] => []
           | (k, x) :: r =>
               (if first then [] else 10 :: indent (level + 1))
               ++ (if complex_key (level + 1) k
                   then [63] ++ emit (Some true) (level + 1) k ++ 10 :: indent (level + 1) ++ [58]
                        ++ emit (Some true) (level + 1) x
                   else emit None (level + 1) k ++ [58] ++ emit (Some false) (level + 1) x)
               ++ pairs false r
           end) true h
      end
  end.

Definition emit_node (level : Z) (n : node) : str := emit None level n.
Definition emit_val (inline : bool) (level : Z) (n : node) : str := emit (Some inline) level n.
Definition emit_sequence (level : Z) (v : list node) : str := emit None level (NSeq v).
Definition emit_mapping (level : Z) (h : list (node * node)) : str := emit None level (NMap h).

(* YamlEmitter::dump *)
Definition dump_doc (doc : node) : str := [45; 45; 45; 10] ++ emit_node (-1) doc.
End Layout.

(* the longest text of a mapping key that is written in the implicit form `key: value` (the loader accepts at most
   SIMPLE_KEY_MAX = 1024 characters there; keys in the explicit form `? key` are not limited).  complex_key does
   not depend on the level as long as it is not negative, and the entries of a mapping are at level >= 0. *)
Fixpoint max_key_len (multiline : bool) (n : node) {struct n} : N :=
  match n with
  | NSeq v => (fix go (l : list node) : N := match l with [] => 0 | x :: r => N.max (max_key_len multiline x) (go r) end) v
  | NMap h =>
      (fix go (l : list (node * node)) : N :=
         match l with
         | [] => 0
         | (k, x) :: r =>
             N.max (if complex_key multiline 0 k then max_key_len multiline k
                    else N.of_nat (length (emit true multiline None 0 k)))
                   (N.max (max_key_len multiline x) (go r))
         end) h
  | _ => 0
  end.

(* ---------------- the round trip through the model of the loading pipeline (scanner, parser, loader) -----------
   Used to STATE the full property (EmitterProofs.v: C09_full), to evaluate it on examples, and -- extracted -- to
   compare the verdict of the whole model pipeline with the implementation's. *)
Require Import Loader PipeL.

Fixpoint to_yaml (n : node) : yaml :=
  match n with
  | NNull => YVal SNull
  | NBool b => YVal (SBool b)
  | NInt z => YVal (SInt z)
  | NFloat t => YVal (parse_from_cow t)      (* the value the float's text denotes *)
  | NStr s => YVal (SStr s)
  | NSeq l => YSeq (map to_yaml l)
  | NMap l => YMap (map (fun kv => (to_yaml (fst kv), to_yaml (snd kv))) l)
  end.

(* Unicode scalar values *)
Definition is_usv (v : N) : bool := (v <? 55296) || ((57343 <? v) && (v <=? 1114111)).
Fixpoint keys_distinct (l : list yaml) : bool :=
  match l with [] => true | k :: r => negb (existsb (yaml_eqb k) r) && keys_distinct r end.
(* what Rust's number formatting produces for a float: ".nan", ".inf", "-.inf", or `{:?}` of a finite f64, i.e. an
   optional '-', a digit, then digits, '.', 'e', 'E', '+', '-' — at most float_text_max characters (the longest
   `{:?}` texts have 24: -2.2250738585072014e-308).  An assumption about Rust's `Debug for f64`, validated on every
   float the check generates (wf_node is evaluated by the `rt` mode of the driver). *)
Definition is_dec_digit (c : N) : bool := (48 <=? c) && (c <=? 57).
Definition float_text_char (c : N) : bool := is_dec_digit c || existsb (N.eqb c) [46; 101; 69; 43; 45].
Definition float_words : list str := [[46; 110; 97; 110]; [46; 105; 110; 102]; [45; 46; 105; 110; 102]].
Definition float_text_max : N := 32.
Definition float_text_ok (t : str) : bool :=
  inl t float_words
  || (match t with
      | c :: r => if N.eqb c 45 then match r with d :: _ => is_dec_digit d | [] => false end else is_dec_digit c
      | [] => false
      end && forallb float_text_char t && (N.of_nat (length t) <=? float_text_max)).
Definition in_i64_b (z : Z) : bool := ((i64_min <=? z) && (z <=? i64_max))%Z.
(* the trees the property quantifies over: 64-bit integers, float leaves whose text is a short float spelling, strings of
   Unicode scalar values, mapping keys pairwise different (as a LinkedHashMap guarantees) *)
Fixpoint wf_node (n : node) : bool :=
  match n with
  | NNull | NBool _ => true
  | NInt z => in_i64_b z
  | NFloat t => match parse_from_cow t with SFloat _ => true | _ => false end
                && float_text_ok t
  | NStr s => forallb is_usv s
  | NSeq l => forallb wf_node l
  | NMap l => forallb (fun kv => wf_node (fst kv) && wf_node (snd kv)) l
              && keys_distinct (map (fun kv => to_yaml (fst kv)) l)
  end.

Definition round_trip_ok (compact multiline : bool) (doc : node) : bool :=
  match run_load (dump_doc compact multiline doc) with
  | LDocs [y] => yaml_eqb y (to_yaml doc)
  | _ => false
  end.
