
(** val negb : bool -> bool **)

let negb = function
| true -> false
| false -> true

type nat =
| O
| S of nat

(** val fst : ('a1 * 'a2) -> 'a1 **)

let fst = function
| (x, _) -> x

(** val snd : ('a1 * 'a2) -> 'a2 **)

let snd = function
| (_, y) -> y

(** val length : 'a1 list -> nat **)

let rec length = function
| [] -> O
| _ :: l' -> S (length l')

(** val app : 'a1 list -> 'a1 list -> 'a1 list **)

let rec app l m0 =
  match l with
  | [] -> m0
  | a :: l1 -> a :: (app l1 m0)

type comparison =
| Eq
| Lt
| Gt

(** val compOpp : comparison -> comparison **)

let compOpp = function
| Eq -> Eq
| Lt -> Gt
| Gt -> Lt

module Coq__1 = struct
 (** val add : nat -> nat -> nat **)
 let rec add n0 m0 =
   match n0 with
   | O -> m0
   | S p -> S (add p m0)
end
include Coq__1

(** val mul : nat -> nat -> nat **)

let rec mul n0 m0 =
  match n0 with
  | O -> O
  | S p -> add m0 (mul p m0)

(** val sub : nat -> nat -> nat **)

let rec sub n0 m0 =
  match n0 with
  | O -> n0
  | S k -> (match m0 with
            | O -> n0
            | S l -> sub k l)

module Nat =
 struct
  (** val eqb : nat -> nat -> bool **)

  let rec eqb n0 m0 =
    match n0 with
    | O -> (match m0 with
            | O -> true
            | S _ -> false)
    | S n' -> (match m0 with
               | O -> false
               | S m' -> eqb n' m')

  (** val leb : nat -> nat -> bool **)

  let rec leb n0 m0 =
    match n0 with
    | O -> true
    | S n' -> (match m0 with
               | O -> false
               | S m' -> leb n' m')

  (** val ltb : nat -> nat -> bool **)

  let ltb n0 m0 =
    leb (S n0) m0

  (** val max : nat -> nat -> nat **)

  let rec max n0 m0 =
    match n0 with
    | O -> m0
    | S n' -> (match m0 with
               | O -> n0
               | S m' -> S (max n' m'))
 end

(** val hd : 'a1 -> 'a1 list -> 'a1 **)

let hd default = function
| [] -> default
| x :: _ -> x

(** val tl : 'a1 list -> 'a1 list **)

let tl = function
| [] -> []
| _ :: m0 -> m0

(** val nth : nat -> 'a1 list -> 'a1 -> 'a1 **)

let rec nth n0 l default =
  match n0 with
  | O -> (match l with
          | [] -> default
          | x :: _ -> x)
  | S m0 -> (match l with
             | [] -> default
             | _ :: t -> nth m0 t default)

(** val last : 'a1 list -> 'a1 -> 'a1 **)

let rec last l d =
  match l with
  | [] -> d
  | a :: l0 -> (match l0 with
                | [] -> a
                | _ :: _ -> last l0 d)

(** val rev : 'a1 list -> 'a1 list **)

let rec rev = function
| [] -> []
| x :: l' -> app (rev l') (x :: [])

(** val list_eq_dec : ('a1 -> 'a1 -> bool) -> 'a1 list -> 'a1 list -> bool **)

let rec list_eq_dec eq_dec0 l l' =
  match l with
  | [] -> (match l' with
           | [] -> true
           | _ :: _ -> false)
  | y :: l0 ->
    (match l' with
     | [] -> false
     | a :: l1 -> if eq_dec0 y a then list_eq_dec eq_dec0 l0 l1 else false)

(** val map : ('a1 -> 'a2) -> 'a1 list -> 'a2 list **)

let rec map f = function
| [] -> []
| a :: t -> (f a) :: (map f t)

(** val existsb : ('a1 -> bool) -> 'a1 list -> bool **)

let rec existsb f = function
| [] -> false
| a :: l0 -> (||) (f a) (existsb f l0)

(** val skipn : nat -> 'a1 list -> 'a1 list **)

let rec skipn n0 l =
  match n0 with
  | O -> l
  | S n1 -> (match l with
             | [] -> []
             | _ :: l0 -> skipn n1 l0)

type positive =
| XI of positive
| XO of positive
| XH

type n =
| N0
| Npos of positive

type z =
| Z0
| Zpos of positive
| Zneg of positive

module Pos =
 struct
  type mask =
  | IsNul
  | IsPos of positive
  | IsNeg
 end

module Coq_Pos =
 struct
  (** val succ : positive -> positive **)

  let rec succ = function
  | XI p -> XO (succ p)
  | XO p -> XI p
  | XH -> XO XH

  (** val add : positive -> positive -> positive **)

  let rec add x y =
    match x with
    | XI p ->
      (match y with
       | XI q -> XO (add_carry p q)
       | XO q -> XI (add p q)
       | XH -> XO (succ p))
    | XO p ->
      (match y with
       | XI q -> XI (add p q)
       | XO q -> XO (add p q)
       | XH -> XI p)
    | XH -> (match y with
             | XI q -> XO (succ q)
             | XO q -> XI q
             | XH -> XO XH)

  (** val add_carry : positive -> positive -> positive **)

  and add_carry x y =
    match x with
    | XI p ->
      (match y with
       | XI q -> XI (add_carry p q)
       | XO q -> XO (add_carry p q)
       | XH -> XI (succ p))
    | XO p ->
      (match y with
       | XI q -> XO (add_carry p q)
       | XO q -> XI (add p q)
       | XH -> XO (succ p))
    | XH ->
      (match y with
       | XI q -> XI (succ q)
       | XO q -> XO (succ q)
       | XH -> XI XH)

  (** val pred_double : positive -> positive **)

  let rec pred_double = function
  | XI p -> XI (XO p)
  | XO p -> XI (pred_double p)
  | XH -> XH

  type mask = Pos.mask =
  | IsNul
  | IsPos of positive
  | IsNeg

  (** val succ_double_mask : mask -> mask **)

  let succ_double_mask = function
  | IsNul -> IsPos XH
  | IsPos p -> IsPos (XI p)
  | IsNeg -> IsNeg

  (** val double_mask : mask -> mask **)

  let double_mask = function
  | IsPos p -> IsPos (XO p)
  | x0 -> x0

  (** val double_pred_mask : positive -> mask **)

  let double_pred_mask = function
  | XI p -> IsPos (XO (XO p))
  | XO p -> IsPos (XO (pred_double p))
  | XH -> IsNul

  (** val sub_mask : positive -> positive -> mask **)

  let rec sub_mask x y =
    match x with
    | XI p ->
      (match y with
       | XI q -> double_mask (sub_mask p q)
       | XO q -> succ_double_mask (sub_mask p q)
       | XH -> IsPos (XO p))
    | XO p ->
      (match y with
       | XI q -> succ_double_mask (sub_mask_carry p q)
       | XO q -> double_mask (sub_mask p q)
       | XH -> IsPos (pred_double p))
    | XH -> (match y with
             | XH -> IsNul
             | _ -> IsNeg)

  (** val sub_mask_carry : positive -> positive -> mask **)

  and sub_mask_carry x y =
    match x with
    | XI p ->
      (match y with
       | XI q -> succ_double_mask (sub_mask_carry p q)
       | XO q -> double_mask (sub_mask p q)
       | XH -> IsPos (pred_double p))
    | XO p ->
      (match y with
       | XI q -> double_mask (sub_mask_carry p q)
       | XO q -> succ_double_mask (sub_mask_carry p q)
       | XH -> double_pred_mask p)
    | XH -> IsNeg

  (** val mul : positive -> positive -> positive **)

  let rec mul x y =
    match x with
    | XI p -> add y (XO (mul p y))
    | XO p -> XO (mul p y)
    | XH -> y

  (** val iter : ('a1 -> 'a1) -> 'a1 -> positive -> 'a1 **)

  let rec iter f x = function
  | XI n' -> f (iter f (iter f x n') n')
  | XO n' -> iter f (iter f x n') n'
  | XH -> f x

  (** val compare_cont : comparison -> positive -> positive -> comparison **)

  let rec compare_cont r x y =
    match x with
    | XI p ->
      (match y with
       | XI q -> compare_cont r p q
       | XO q -> compare_cont Gt p q
       | XH -> Gt)
    | XO p ->
      (match y with
       | XI q -> compare_cont Lt p q
       | XO q -> compare_cont r p q
       | XH -> Gt)
    | XH -> (match y with
             | XH -> r
             | _ -> Lt)

  (** val compare : positive -> positive -> comparison **)

  let compare =
    compare_cont Eq

  (** val eqb : positive -> positive -> bool **)

  let rec eqb p q =
    match p with
    | XI p0 -> (match q with
                | XI q0 -> eqb p0 q0
                | _ -> false)
    | XO p0 -> (match q with
                | XO q0 -> eqb p0 q0
                | _ -> false)
    | XH -> (match q with
             | XH -> true
             | _ -> false)

  (** val coq_Nsucc_double : n -> n **)

  let coq_Nsucc_double = function
  | N0 -> Npos XH
  | Npos p -> Npos (XI p)

  (** val coq_Ndouble : n -> n **)

  let coq_Ndouble = function
  | N0 -> N0
  | Npos p -> Npos (XO p)

  (** val coq_lor : positive -> positive -> positive **)

  let rec coq_lor p q =
    match p with
    | XI p0 ->
      (match q with
       | XI q0 -> XI (coq_lor p0 q0)
       | XO q0 -> XI (coq_lor p0 q0)
       | XH -> p)
    | XO p0 ->
      (match q with
       | XI q0 -> XI (coq_lor p0 q0)
       | XO q0 -> XO (coq_lor p0 q0)
       | XH -> XI p0)
    | XH -> (match q with
             | XO q0 -> XI q0
             | _ -> q)

  (** val coq_land : positive -> positive -> n **)

  let rec coq_land p q =
    match p with
    | XI p0 ->
      (match q with
       | XI q0 -> coq_Nsucc_double (coq_land p0 q0)
       | XO q0 -> coq_Ndouble (coq_land p0 q0)
       | XH -> Npos XH)
    | XO p0 ->
      (match q with
       | XI q0 -> coq_Ndouble (coq_land p0 q0)
       | XO q0 -> coq_Ndouble (coq_land p0 q0)
       | XH -> N0)
    | XH -> (match q with
             | XO _ -> N0
             | _ -> Npos XH)

  (** val iter_op : ('a1 -> 'a1 -> 'a1) -> positive -> 'a1 -> 'a1 **)

  let rec iter_op op p a =
    match p with
    | XI p0 -> op a (iter_op op p0 (op a a))
    | XO p0 -> iter_op op p0 (op a a)
    | XH -> a

  (** val to_nat : positive -> nat **)

  let to_nat x =
    iter_op Coq__1.add x (S O)

  (** val of_succ_nat : nat -> positive **)

  let rec of_succ_nat = function
  | O -> XH
  | S x -> succ (of_succ_nat x)

  (** val eq_dec : positive -> positive -> bool **)

  let rec eq_dec p x0 =
    match p with
    | XI p0 -> (match x0 with
                | XI p1 -> eq_dec p0 p1
                | _ -> false)
    | XO p0 -> (match x0 with
                | XO p1 -> eq_dec p0 p1
                | _ -> false)
    | XH -> (match x0 with
             | XH -> true
             | _ -> false)
 end

module N =
 struct
  (** val add : n -> n -> n **)

  let add n0 m0 =
    match n0 with
    | N0 -> m0
    | Npos p -> (match m0 with
                 | N0 -> n0
                 | Npos q -> Npos (Coq_Pos.add p q))

  (** val sub : n -> n -> n **)

  let sub n0 m0 =
    match n0 with
    | N0 -> N0
    | Npos n' ->
      (match m0 with
       | N0 -> n0
       | Npos m' ->
         (match Coq_Pos.sub_mask n' m' with
          | Coq_Pos.IsPos p -> Npos p
          | _ -> N0))

  (** val mul : n -> n -> n **)

  let mul n0 m0 =
    match n0 with
    | N0 -> N0
    | Npos p -> (match m0 with
                 | N0 -> N0
                 | Npos q -> Npos (Coq_Pos.mul p q))

  (** val compare : n -> n -> comparison **)

  let compare n0 m0 =
    match n0 with
    | N0 -> (match m0 with
             | N0 -> Eq
             | Npos _ -> Lt)
    | Npos n' -> (match m0 with
                  | N0 -> Gt
                  | Npos m' -> Coq_Pos.compare n' m')

  (** val eqb : n -> n -> bool **)

  let eqb n0 m0 =
    match n0 with
    | N0 -> (match m0 with
             | N0 -> true
             | Npos _ -> false)
    | Npos p -> (match m0 with
                 | N0 -> false
                 | Npos q -> Coq_Pos.eqb p q)

  (** val leb : n -> n -> bool **)

  let leb x y =
    match compare x y with
    | Gt -> false
    | _ -> true

  (** val ltb : n -> n -> bool **)

  let ltb x y =
    match compare x y with
    | Lt -> true
    | _ -> false

  (** val max : n -> n -> n **)

  let max n0 n' =
    match compare n0 n' with
    | Gt -> n0
    | _ -> n'

  (** val coq_lor : n -> n -> n **)

  let coq_lor n0 m0 =
    match n0 with
    | N0 -> m0
    | Npos p ->
      (match m0 with
       | N0 -> n0
       | Npos q -> Npos (Coq_Pos.coq_lor p q))

  (** val coq_land : n -> n -> n **)

  let coq_land n0 m0 =
    match n0 with
    | N0 -> N0
    | Npos p -> (match m0 with
                 | N0 -> N0
                 | Npos q -> Coq_Pos.coq_land p q)

  (** val to_nat : n -> nat **)

  let to_nat = function
  | N0 -> O
  | Npos p -> Coq_Pos.to_nat p

  (** val of_nat : nat -> n **)

  let of_nat = function
  | O -> N0
  | S n' -> Npos (Coq_Pos.of_succ_nat n')

  (** val iter : n -> ('a1 -> 'a1) -> 'a1 -> 'a1 **)

  let iter n0 f x =
    match n0 with
    | N0 -> x
    | Npos p -> Coq_Pos.iter f x p

  (** val eq_dec : n -> n -> bool **)

  let eq_dec n0 m0 =
    match n0 with
    | N0 -> (match m0 with
             | N0 -> true
             | Npos _ -> false)
    | Npos p -> (match m0 with
                 | N0 -> false
                 | Npos p0 -> Coq_Pos.eq_dec p p0)
 end

module Z =
 struct
  (** val double : z -> z **)

  let double = function
  | Z0 -> Z0
  | Zpos p -> Zpos (XO p)
  | Zneg p -> Zneg (XO p)

  (** val succ_double : z -> z **)

  let succ_double = function
  | Z0 -> Zpos XH
  | Zpos p -> Zpos (XI p)
  | Zneg p -> Zneg (Coq_Pos.pred_double p)

  (** val pred_double : z -> z **)

  let pred_double = function
  | Z0 -> Zneg XH
  | Zpos p -> Zpos (Coq_Pos.pred_double p)
  | Zneg p -> Zneg (XI p)

  (** val pos_sub : positive -> positive -> z **)

  let rec pos_sub x y =
    match x with
    | XI p ->
      (match y with
       | XI q -> double (pos_sub p q)
       | XO q -> succ_double (pos_sub p q)
       | XH -> Zpos (XO p))
    | XO p ->
      (match y with
       | XI q -> pred_double (pos_sub p q)
       | XO q -> double (pos_sub p q)
       | XH -> Zpos (Coq_Pos.pred_double p))
    | XH ->
      (match y with
       | XI q -> Zneg (XO q)
       | XO q -> Zneg (Coq_Pos.pred_double q)
       | XH -> Z0)

  (** val add : z -> z -> z **)

  let add x y =
    match x with
    | Z0 -> y
    | Zpos x' ->
      (match y with
       | Z0 -> x
       | Zpos y' -> Zpos (Coq_Pos.add x' y')
       | Zneg y' -> pos_sub x' y')
    | Zneg x' ->
      (match y with
       | Z0 -> x
       | Zpos y' -> pos_sub y' x'
       | Zneg y' -> Zneg (Coq_Pos.add x' y'))

  (** val compare : z -> z -> comparison **)

  let compare x y =
    match x with
    | Z0 -> (match y with
             | Z0 -> Eq
             | Zpos _ -> Lt
             | Zneg _ -> Gt)
    | Zpos x' -> (match y with
                  | Zpos y' -> Coq_Pos.compare x' y'
                  | _ -> Gt)
    | Zneg x' ->
      (match y with
       | Zneg y' -> compOpp (Coq_Pos.compare x' y')
       | _ -> Lt)

  (** val leb : z -> z -> bool **)

  let leb x y =
    match compare x y with
    | Gt -> false
    | _ -> true

  (** val ltb : z -> z -> bool **)

  let ltb x y =
    match compare x y with
    | Lt -> true
    | _ -> false

  (** val eqb : z -> z -> bool **)

  let eqb x y =
    match x with
    | Z0 -> (match y with
             | Z0 -> true
             | _ -> false)
    | Zpos p -> (match y with
                 | Zpos q -> Coq_Pos.eqb p q
                 | _ -> false)
    | Zneg p -> (match y with
                 | Zneg q -> Coq_Pos.eqb p q
                 | _ -> false)

  (** val to_N : z -> n **)

  let to_N = function
  | Zpos p -> Npos p
  | _ -> N0

  (** val of_N : n -> z **)

  let of_N = function
  | N0 -> Z0
  | Npos p -> Zpos p
 end

type str = n list

(** val str_eqb : str -> str -> bool **)

let str_eqb a b =
  if list_eq_dec N.eq_dec a b then true else false

type marker = { m_index : n; m_line : n; m_col : n }

type span = { sp_start : marker; sp_end : marker }

(** val span_empty : marker -> span **)

let span_empty m0 =
  { sp_start = m0; sp_end = m0 }

type style =
| Plain
| SingleQuoted
| DoubleQuoted
| Literal
| Folded

type tok =
| TStreamStart
| TStreamEnd
| TVersionDirective of n * n
| TTagDirective of str * str
| TDocumentStart
| TDocumentEnd
| TBlockSequenceStart
| TBlockMappingStart
| TBlockEnd
| TFlowSequenceStart
| TFlowSequenceEnd
| TFlowMappingStart
| TFlowMappingEnd
| TBlockEntry
| TFlowEntry
| TKey
| TValue
| TAlias of str
| TAnchor of str
| TTag of str * str
| TScalar of style * str

type token = span * tok

(** val is_z : n -> bool **)

let is_z c =
  N.eqb c N0

(** val is_break : n -> bool **)

let is_break c =
  (||) (N.eqb c (Npos (XO (XI (XO XH))))) (N.eqb c (Npos (XI (XO (XI XH)))))

(** val is_breakz : n -> bool **)

let is_breakz c =
  (||) (is_break c) (is_z c)

(** val is_blank : n -> bool **)

let is_blank c =
  (||) (N.eqb c (Npos (XO (XO (XO (XO (XO XH)))))))
    (N.eqb c (Npos (XI (XO (XO XH)))))

(** val is_blank_or_breakz : n -> bool **)

let is_blank_or_breakz c =
  (||) (is_blank c) (is_breakz c)

(** val is_digit : n -> bool **)

let is_digit c =
  (&&) (N.leb (Npos (XO (XO (XO (XO (XI XH)))))) c)
    (N.leb c (Npos (XI (XO (XO (XI (XI XH)))))))

(** val is_alpha : n -> bool **)

let is_alpha c =
  (||)
    ((||)
      ((||)
        ((||)
          ((&&) (N.leb (Npos (XO (XO (XO (XO (XI XH)))))) c)
            (N.leb c (Npos (XI (XO (XO (XI (XI XH))))))))
          ((&&) (N.leb (Npos (XI (XO (XO (XO (XO (XI XH))))))) c)
            (N.leb c (Npos (XO (XI (XO (XI (XI (XI XH))))))))))
        ((&&) (N.leb (Npos (XI (XO (XO (XO (XO (XO XH))))))) c)
          (N.leb c (Npos (XO (XI (XO (XI (XI (XO XH))))))))))
      (N.eqb c (Npos (XI (XI (XI (XI (XI (XO XH)))))))))
    (N.eqb c (Npos (XI (XO (XI (XI (XO XH)))))))

(** val is_hex : n -> bool **)

let is_hex c =
  (||)
    ((||)
      ((&&) (N.leb (Npos (XO (XO (XO (XO (XI XH)))))) c)
        (N.leb c (Npos (XI (XO (XO (XI (XI XH))))))))
      ((&&) (N.leb (Npos (XI (XO (XO (XO (XO (XI XH))))))) c)
        (N.leb c (Npos (XO (XI (XI (XO (XO (XI XH))))))))))
    ((&&) (N.leb (Npos (XI (XO (XO (XO (XO (XO XH))))))) c)
      (N.leb c (Npos (XO (XI (XI (XO (XO (XO XH)))))))))

(** val as_hex : n -> n **)

let as_hex c =
  if (&&) (N.leb (Npos (XO (XO (XO (XO (XI XH)))))) c)
       (N.leb c (Npos (XI (XO (XO (XI (XI XH)))))))
  then N.add (N.sub c (Npos (XO (XO (XO (XO (XI XH))))))) N0
  else if (&&) (N.leb (Npos (XI (XO (XO (XO (XO (XI XH))))))) c)
            (N.leb c (Npos (XO (XI (XI (XO (XO (XI XH))))))))
       then N.add (N.sub c (Npos (XI (XO (XO (XO (XO (XI XH)))))))) (Npos (XO
              (XI (XO XH))))
       else if (&&) (N.leb (Npos (XI (XO (XO (XO (XO (XO XH))))))) c)
                 (N.leb c (Npos (XO (XI (XI (XO (XO (XO XH))))))))
            then N.add (N.sub c (Npos (XI (XO (XO (XO (XO (XO XH))))))))
                   (Npos (XO (XI (XO XH))))
            else N0

(** val is_flow : n -> bool **)

let is_flow c =
  (||)
    ((||)
      ((||)
        ((||) (N.eqb c (Npos (XO (XO (XI (XI (XO XH)))))))
          (N.eqb c (Npos (XI (XI (XO (XI (XI (XO XH)))))))))
        (N.eqb c (Npos (XI (XO (XI (XI (XI (XO XH)))))))))
      (N.eqb c (Npos (XI (XI (XO (XI (XI (XI XH)))))))))
    (N.eqb c (Npos (XI (XO (XI (XI (XI (XI XH))))))))

(** val is_bom : n -> bool **)

let is_bom c =
  N.eqb c (Npos (XI (XI (XI (XI (XI (XI (XI (XI (XO (XI (XI (XI (XI (XI (XI
    XH))))))))))))))))

(** val is_yaml_non_break : n -> bool **)

let is_yaml_non_break c =
  (&&) (negb (is_break c)) (negb (is_bom c))

(** val is_yaml_non_space : n -> bool **)

let is_yaml_non_space c =
  (&&) (is_yaml_non_break c) (negb (is_blank c))

(** val is_anchor_char : n -> bool **)

let is_anchor_char c =
  (&&) ((&&) (is_yaml_non_space c) (negb (is_flow c))) (negb (is_z c))

(** val is_word_char : n -> bool **)

let is_word_char c =
  (&&) (is_alpha c) (negb (N.eqb c (Npos (XI (XI (XI (XI (XI (XO XH)))))))))

(** val is_uri_char : n -> bool **)

let is_uri_char c =
  (||) (is_word_char c)
    (existsb (N.eqb c) ((Npos (XI (XI (XO (XO (XO XH)))))) :: ((Npos (XI (XI
      (XO (XI (XI XH)))))) :: ((Npos (XI (XI (XI (XI (XO XH)))))) :: ((Npos
      (XI (XI (XI (XI (XI XH)))))) :: ((Npos (XO (XI (XO (XI (XI
      XH)))))) :: ((Npos (XO (XO (XO (XO (XO (XO XH))))))) :: ((Npos (XO (XI
      (XI (XO (XO XH)))))) :: ((Npos (XI (XO (XI (XI (XI XH)))))) :: ((Npos
      (XI (XI (XO (XI (XO XH)))))) :: ((Npos (XO (XO (XI (XO (XO
      XH)))))) :: ((Npos (XO (XO (XI (XI (XO XH)))))) :: ((Npos (XI (XI (XI
      (XI (XI (XO XH))))))) :: ((Npos (XO (XI (XI (XI (XO XH)))))) :: ((Npos
      (XI (XO (XO (XO (XO XH)))))) :: ((Npos (XO (XI (XI (XI (XI (XI
      XH))))))) :: ((Npos (XO (XI (XO (XI (XO XH)))))) :: ((Npos (XI (XI (XI
      (XO (XO XH)))))) :: ((Npos (XO (XO (XO (XI (XO XH)))))) :: ((Npos (XI
      (XO (XO (XI (XO XH)))))) :: ((Npos (XI (XI (XO (XI (XI (XO
      XH))))))) :: ((Npos (XI (XO (XI (XI (XI (XO XH))))))) :: ((Npos (XI (XO
      (XI (XO (XO XH)))))) :: [])))))))))))))))))))))))

(** val is_tag_char : n -> bool **)

let is_tag_char c =
  (&&) ((&&) (is_uri_char c) (negb (is_flow c)))
    (negb (N.eqb c (Npos (XI (XO (XO (XO (XO XH))))))))

(** val sIMPLE_KEY_MAX : n **)

let sIMPLE_KEY_MAX =
  Npos (XO (XO (XO (XO (XO (XO (XO (XO (XO (XO XH))))))))))

(** val fLOW_LEVEL_MAX : n **)

let fLOW_LEVEL_MAX =
  Npos (XI (XI (XI (XI (XI (XI (XI XH)))))))

(** val vERSION_DIGITS_MAX : n **)

let vERSION_DIGITS_MAX =
  Npos (XI (XO (XO XH)))

type chr = n

type 'a outcome =
| Ok of 'a
| Err of n * marker
| Panic of n
| OutOfFuel

type 'i inputOps = { lookahead : (nat -> 'i -> 'i outcome);
                     buflen : ('i -> nat); bufmaxlen : nat;
                     peek_nth : (nat -> 'i -> chr outcome);
                     skip1 : ('i -> 'i); skip_n : (nat -> 'i -> 'i outcome);
                     raw_read_non_breakz : ('i -> (chr option * 'i) outcome) }

type strin = { si_chars : chr list; si_look : nat }

(** val str_ops : strin inputOps **)

let str_ops =
  { lookahead = (fun n0 s -> Ok { si_chars = s.si_chars; si_look =
    (Nat.max s.si_look n0) }); buflen = (fun s -> s.si_look); bufmaxlen = (S
    (S (S (S (S (S (S (S (S (S (S (S (S (S (S (S (S (S (S (S (S (S (S (S (S
    (S (S (S (S (S (S (S (S (S (S (S (S (S (S (S (S (S (S (S (S (S (S (S (S
    (S (S (S (S (S (S (S (S (S (S (S (S (S (S (S (S (S (S (S (S (S (S (S (S
    (S (S (S (S (S (S (S (S (S (S (S (S (S (S (S (S (S (S (S (S (S (S (S (S
    (S (S (S (S (S (S (S (S (S (S (S (S (S (S (S (S (S (S (S (S (S (S (S (S
    (S (S (S (S (S (S (S
    O))))))))))))))))))))))))))))))))))))))))))))))))))))))))))))))))))))))))))))))))))))))))))))))))))))))))))))))))))))))))))))))));
    peek_nth = (fun n0 s -> Ok (nth n0 s.si_chars N0)); skip1 = (fun s ->
    { si_chars = (tl s.si_chars); si_look = s.si_look }); skip_n =
    (fun n0 s -> Ok { si_chars = (skipn n0 s.si_chars); si_look =
    s.si_look }); raw_read_non_breakz = (fun s ->
    match s.si_chars with
    | [] -> Ok (None, s)
    | c :: r ->
      if is_breakz c
      then Ok (None, s)
      else Ok ((Some c), { si_chars = r; si_look = s.si_look })) }

type simple_key = { sk_possible : bool; sk_required : bool;
                    sk_token_number : n; sk_mark : marker }

type indent_rec = { in_indent : z; in_needs_block_end : bool }

type ims =
| ImPossible
| ImInside

type 'i sc = { sc_in : 'i; sc_mark : marker; sc_tokens : token list;
               sc_stream_start : bool; sc_stream_end : bool; sc_adjacent : 
               n; sc_ska : bool; sc_sks : simple_key list; sc_indent : 
               z; sc_indents : indent_rec list; sc_flow_level : n;
               sc_tokens_parsed : n; sc_token_available : bool;
               sc_lws : bool; sc_fms : bool; sc_ifms : ims list }

(** val mk0 : marker **)

let mk0 =
  { m_index = N0; m_line = N0; m_col = N0 }

(** val init_sc : 'a1 -> 'a1 sc **)

let init_sc i =
  { sc_in = i; sc_mark = { m_index = N0; m_line = (Npos XH); m_col = N0 };
    sc_tokens = []; sc_stream_start = false; sc_stream_end = false;
    sc_adjacent = N0; sc_ska = true; sc_sks = []; sc_indent = (Zneg XH);
    sc_indents = []; sc_flow_level = N0; sc_tokens_parsed = N0;
    sc_token_available = false; sc_lws = true; sc_fms = false; sc_ifms = [] }

type ('i, 'a) m = 'i sc -> ('a * 'i sc) outcome

(** val ret : 'a2 -> ('a1, 'a2) m **)

let ret a s =
  Ok (a, s)

(** val bind : ('a1, 'a2) m -> ('a2 -> ('a1, 'a3) m) -> ('a1, 'a3) m **)

let bind m0 f s =
  match m0 s with
  | Ok a0 -> let (a, s') = a0 in f a s'
  | Err (e, k) -> Err (e, k)
  | Panic k -> Panic k
  | OutOfFuel -> OutOfFuel

(** val fail : n -> marker -> ('a1, 'a2) m **)

let fail site m0 _ =
  Err (site, m0)

(** val panic : n -> ('a1, 'a2) m **)

let panic site _ =
  Panic site

(** val oof : ('a1, 'a2) m **)

let oof _ =
  OutOfFuel

(** val get : ('a1, 'a1 sc) m **)

let get s =
  Ok (s, s)

(** val put : 'a1 sc -> ('a1, unit) m **)

let put s _ =
  Ok ((), s)

(** val modify : ('a1 sc -> 'a1 sc) -> ('a1, unit) m **)

let modify f s =
  Ok ((), (f s))

(** val gets : ('a1 sc -> 'a2) -> ('a1, 'a2) m **)

let gets f s =
  Ok ((f s), s)

(** val upd : 'a1 sc -> 'a1 -> marker -> token list -> 'a1 sc **)

let upd s i m0 t =
  { sc_in = i; sc_mark = m0; sc_tokens = t; sc_stream_start =
    s.sc_stream_start; sc_stream_end = s.sc_stream_end; sc_adjacent =
    s.sc_adjacent; sc_ska = s.sc_ska; sc_sks = s.sc_sks; sc_indent =
    s.sc_indent; sc_indents = s.sc_indents; sc_flow_level = s.sc_flow_level;
    sc_tokens_parsed = s.sc_tokens_parsed; sc_token_available =
    s.sc_token_available; sc_lws = s.sc_lws; sc_fms = s.sc_fms; sc_ifms =
    s.sc_ifms }

(** val set_in : 'a1 -> 'a1 sc -> 'a1 sc **)

let set_in i s =
  upd s i s.sc_mark s.sc_tokens

(** val set_mark : marker -> 'a1 sc -> 'a1 sc **)

let set_mark m0 s =
  upd s s.sc_in m0 s.sc_tokens

(** val set_tokens : token list -> 'a1 sc -> 'a1 sc **)

let set_tokens t s =
  upd s s.sc_in s.sc_mark t

(** val set_flags :
    'a1 sc -> bool -> bool -> n -> bool -> bool -> bool -> bool -> 'a1 sc **)

let set_flags s ss se adj ska ta lws fms =
  { sc_in = s.sc_in; sc_mark = s.sc_mark; sc_tokens = s.sc_tokens;
    sc_stream_start = ss; sc_stream_end = se; sc_adjacent = adj; sc_ska =
    ska; sc_sks = s.sc_sks; sc_indent = s.sc_indent; sc_indents =
    s.sc_indents; sc_flow_level = s.sc_flow_level; sc_tokens_parsed =
    s.sc_tokens_parsed; sc_token_available = ta; sc_lws = lws; sc_fms = fms;
    sc_ifms = s.sc_ifms }

(** val set_ska : bool -> 'a1 sc -> 'a1 sc **)

let set_ska b s =
  set_flags s s.sc_stream_start s.sc_stream_end s.sc_adjacent b
    s.sc_token_available s.sc_lws s.sc_fms

(** val set_lws : bool -> 'a1 sc -> 'a1 sc **)

let set_lws b s =
  set_flags s s.sc_stream_start s.sc_stream_end s.sc_adjacent s.sc_ska
    s.sc_token_available b s.sc_fms

(** val set_fms : bool -> 'a1 sc -> 'a1 sc **)

let set_fms b s =
  set_flags s s.sc_stream_start s.sc_stream_end s.sc_adjacent s.sc_ska
    s.sc_token_available s.sc_lws b

(** val set_adj : n -> 'a1 sc -> 'a1 sc **)

let set_adj n0 s =
  set_flags s s.sc_stream_start s.sc_stream_end n0 s.sc_ska
    s.sc_token_available s.sc_lws s.sc_fms

(** val set_ta : bool -> 'a1 sc -> 'a1 sc **)

let set_ta b s =
  set_flags s s.sc_stream_start s.sc_stream_end s.sc_adjacent s.sc_ska b
    s.sc_lws s.sc_fms

(** val set_ss : bool -> 'a1 sc -> 'a1 sc **)

let set_ss b s =
  set_flags s b s.sc_stream_end s.sc_adjacent s.sc_ska s.sc_token_available
    s.sc_lws s.sc_fms

(** val set_se : bool -> 'a1 sc -> 'a1 sc **)

let set_se b s =
  set_flags s s.sc_stream_start b s.sc_adjacent s.sc_ska s.sc_token_available
    s.sc_lws s.sc_fms

(** val set_struct :
    'a1 sc -> simple_key list -> z -> indent_rec list -> n -> n -> ims list
    -> 'a1 sc **)

let set_struct s sks ind inds fl tp ifms =
  { sc_in = s.sc_in; sc_mark = s.sc_mark; sc_tokens = s.sc_tokens;
    sc_stream_start = s.sc_stream_start; sc_stream_end = s.sc_stream_end;
    sc_adjacent = s.sc_adjacent; sc_ska = s.sc_ska; sc_sks = sks; sc_indent =
    ind; sc_indents = inds; sc_flow_level = fl; sc_tokens_parsed = tp;
    sc_token_available = s.sc_token_available; sc_lws = s.sc_lws; sc_fms =
    s.sc_fms; sc_ifms = ifms }

(** val set_sks : simple_key list -> 'a1 sc -> 'a1 sc **)

let set_sks l s =
  set_struct s l s.sc_indent s.sc_indents s.sc_flow_level s.sc_tokens_parsed
    s.sc_ifms

(** val set_indent : z -> indent_rec list -> 'a1 sc -> 'a1 sc **)

let set_indent z0 l s =
  set_struct s s.sc_sks z0 l s.sc_flow_level s.sc_tokens_parsed s.sc_ifms

(** val set_fl : n -> 'a1 sc -> 'a1 sc **)

let set_fl n0 s =
  set_struct s s.sc_sks s.sc_indent s.sc_indents n0 s.sc_tokens_parsed
    s.sc_ifms

(** val set_tp : n -> 'a1 sc -> 'a1 sc **)

let set_tp n0 s =
  set_struct s s.sc_sks s.sc_indent s.sc_indents s.sc_flow_level n0 s.sc_ifms

(** val set_ifms : ims list -> 'a1 sc -> 'a1 sc **)

let set_ifms l s =
  set_struct s s.sc_sks s.sc_indent s.sc_indents s.sc_flow_level
    s.sc_tokens_parsed l

(** val look : 'a1 inputOps -> nat -> ('a1, unit) m **)

let look ops n0 s =
  match ops.lookahead n0 s.sc_in with
  | Ok i -> Ok ((), (set_in i s))
  | Err (e, m0) -> Err (e, m0)
  | Panic k -> Panic k
  | OutOfFuel -> OutOfFuel

(** val peekn : 'a1 inputOps -> nat -> ('a1, chr) m **)

let peekn ops n0 s =
  match ops.peek_nth n0 s.sc_in with
  | Ok c -> Ok (c, s)
  | Err (e, m0) -> Err (e, m0)
  | Panic k -> Panic k
  | OutOfFuel -> OutOfFuel

(** val peek : 'a1 inputOps -> ('a1, chr) m **)

let peek ops =
  peekn ops O

(** val look_ch : 'a1 inputOps -> ('a1, chr) m **)

let look_ch ops =
  bind (look ops (S O)) (fun _ -> peek ops)

(** val in_skip : 'a1 inputOps -> ('a1, unit) m **)

let in_skip ops =
  modify (fun s -> set_in (ops.skip1 s.sc_in) s)

(** val in_skip_n : 'a1 inputOps -> nat -> ('a1, unit) m **)

let in_skip_n ops n0 s =
  match ops.skip_n n0 s.sc_in with
  | Ok i -> Ok ((), (set_in i s))
  | Err (e, m0) -> Err (e, m0)
  | Panic k -> Panic k
  | OutOfFuel -> OutOfFuel

(** val raw_read : 'a1 inputOps -> ('a1, chr option) m **)

let raw_read ops s =
  match ops.raw_read_non_breakz s.sc_in with
  | Ok a -> let (c, i) = a in Ok (c, (set_in i s))
  | Err (e, m0) -> Err (e, m0)
  | Panic k -> Panic k
  | OutOfFuel -> OutOfFuel

(** val buf_is_empty : 'a1 inputOps -> ('a1, bool) m **)

let buf_is_empty ops =
  gets (fun s -> Nat.eqb (ops.buflen s.sc_in) O)

(** val assert_buflen : 'a1 inputOps -> nat -> n -> ('a1, unit) m **)

let assert_buflen ops n0 site s =
  if Nat.ltb (ops.buflen s.sc_in) n0 then Panic site else Ok ((), s)

(** val nth_char_is : 'a1 inputOps -> nat -> chr -> ('a1, bool) m **)

let nth_char_is ops n0 c =
  bind (peekn ops n0) (fun x -> ret (N.eqb x c))

(** val next_2_are : 'a1 inputOps -> chr -> chr -> ('a1, bool) m **)

let next_2_are ops a b =
  bind (assert_buflen ops (S (S O)) (Npos (XI (XI (XI (XO (XO (XI XH))))))))
    (fun _ ->
    bind (peek ops) (fun x ->
      bind (peekn ops (S O)) (fun y -> ret ((&&) (N.eqb x a) (N.eqb y b)))))

(** val next_3_are : 'a1 inputOps -> chr -> chr -> chr -> ('a1, bool) m **)

let next_3_are ops a b c =
  bind
    (assert_buflen ops (S (S (S O))) (Npos (XO (XO (XO (XI (XO (XI XH))))))))
    (fun _ ->
    bind (peek ops) (fun x ->
      bind (peekn ops (S O)) (fun y ->
        bind (peekn ops (S (S O))) (fun z0 ->
          ret ((&&) ((&&) (N.eqb x a) (N.eqb y b)) (N.eqb z0 c))))))

(** val next_is_document_indicator : 'a1 inputOps -> ('a1, bool) m **)

let next_is_document_indicator ops =
  bind
    (assert_buflen ops (S (S (S (S O)))) (Npos (XI (XO (XO (XI (XO (XI
      XH)))))))) (fun _ ->
    bind (peekn ops (S (S (S O)))) (fun c3 ->
      if is_blank_or_breakz c3
      then bind
             (next_3_are ops (Npos (XO (XI (XI (XI (XO XH)))))) (Npos (XO (XI
               (XI (XI (XO XH)))))) (Npos (XO (XI (XI (XI (XO XH)))))))
             (fun d ->
             if d
             then ret true
             else next_3_are ops (Npos (XI (XO (XI (XI (XO XH)))))) (Npos (XI
                    (XO (XI (XI (XO XH)))))) (Npos (XI (XO (XI (XI (XO
                    XH)))))))
      else ret false))

(** val next_is_document_start : 'a1 inputOps -> ('a1, bool) m **)

let next_is_document_start ops =
  bind
    (assert_buflen ops (S (S (S (S O)))) (Npos (XO (XI (XO (XI (XO (XI
      XH)))))))) (fun _ ->
    bind
      (next_3_are ops (Npos (XI (XO (XI (XI (XO XH)))))) (Npos (XI (XO (XI
        (XI (XO XH)))))) (Npos (XI (XO (XI (XI (XO XH))))))) (fun d ->
      if d
      then bind (peekn ops (S (S (S O)))) (fun c3 ->
             ret (is_blank_or_breakz c3))
      else ret false))

(** val next_is_document_end : 'a1 inputOps -> ('a1, bool) m **)

let next_is_document_end ops =
  bind
    (assert_buflen ops (S (S (S (S O)))) (Npos (XI (XI (XO (XI (XO (XI
      XH)))))))) (fun _ ->
    bind
      (next_3_are ops (Npos (XO (XI (XI (XI (XO XH)))))) (Npos (XO (XI (XI
        (XI (XO XH)))))) (Npos (XO (XI (XI (XI (XO XH))))))) (fun d ->
      if d
      then bind (peekn ops (S (S (S O)))) (fun c3 ->
             ret (is_blank_or_breakz c3))
      else ret false))

(** val next_is : 'a1 inputOps -> (chr -> bool) -> ('a1, bool) m **)

let next_is ops p =
  bind (peek ops) (fun c -> ret (p c))

(** val next_can_be_plain_scalar : 'a1 inputOps -> bool -> ('a1, bool) m **)

let next_can_be_plain_scalar ops in_flow =
  bind (peekn ops (S O)) (fun nc ->
    bind (peek ops) (fun c ->
      if (&&) (N.eqb c (Npos (XO (XI (XO (XI (XI XH)))))))
           ((||) (is_blank_or_breakz nc) ((&&) in_flow (is_flow nc)))
      then ret false
      else if (&&) in_flow (is_flow c) then ret false else ret true))

type skiptabs =
| SkipYes
| SkipNo

(** val in_skip_ws_to_eol :
    'a1 inputOps -> nat -> skiptabs -> bool -> bool -> n -> ('a1,
    n * (bool * bool) option) m **)

let rec in_skip_ws_to_eol ops fuel st tab ws n0 =
  match fuel with
  | O -> oof
  | S fuel0 ->
    bind (look_ch ops) (fun c ->
      if N.eqb c (Npos (XO (XO (XO (XO (XO XH))))))
      then bind (in_skip ops) (fun _ ->
             in_skip_ws_to_eol ops fuel0 st tab true (N.add n0 (Npos XH)))
      else if (&&) (N.eqb c (Npos (XI (XO (XO XH)))))
                (match st with
                 | SkipYes -> true
                 | SkipNo -> false)
           then bind (in_skip ops) (fun _ ->
                  in_skip_ws_to_eol ops fuel0 st true ws (N.add n0 (Npos XH)))
           else if N.eqb c (Npos (XI (XI (XO (XO (XO XH))))))
                then if (&&) (negb tab) (negb ws)
                     then ret (n0, None)
                     else bind (in_skip ops) (fun _ ->
                            let rec comment f k =
                              match f with
                              | O -> oof
                              | S f0 ->
                                bind (look_ch ops) (fun c0 ->
                                  if is_breakz c0
                                  then in_skip_ws_to_eol ops fuel0 st tab ws
                                         (N.add k (Npos XH))
                                  else bind (in_skip ops) (fun _ ->
                                         comment f0 (N.add k (Npos XH))))
                            in comment fuel0 n0)
                else ret (n0, (Some (tab, ws))))

(** val in_skip_while : 'a1 inputOps -> nat -> (chr -> bool) -> ('a1, n) m **)

let in_skip_while ops fuel p =
  let rec go f k =
    match f with
    | O -> oof
    | S f0 ->
      bind (look_ch ops) (fun c ->
        if p c
        then bind (in_skip ops) (fun _ -> go f0 (N.add k (Npos XH)))
        else ret k)
  in go fuel N0

(** val in_skip_while_non_breakz : 'a1 inputOps -> nat -> ('a1, n) m **)

let in_skip_while_non_breakz ops fuel =
  in_skip_while ops fuel (fun c -> negb (is_breakz c))

(** val in_skip_while_blank : 'a1 inputOps -> nat -> ('a1, n) m **)

let in_skip_while_blank ops fuel =
  in_skip_while ops fuel is_blank

(** val in_fetch_while_alpha :
    'a1 inputOps -> nat -> chr list -> ('a1, chr list * n) m **)

let in_fetch_while_alpha ops fuel acc =
  let rec go f acc0 k =
    match f with
    | O -> oof
    | S f0 ->
      bind (look_ch ops) (fun c ->
        if is_alpha c
        then bind (in_skip ops) (fun _ ->
               go f0 (c :: acc0) (N.add k (Npos XH)))
        else ret (acc0, k))
  in go fuel acc N0

(** val adv : n -> marker -> marker **)

let adv n0 m0 =
  { m_index = (N.add m0.m_index n0); m_line = m0.m_line; m_col =
    (N.add m0.m_col n0) }

(** val nlm : marker -> marker **)

let nlm m0 =
  { m_index = (N.add m0.m_index (Npos XH)); m_line =
    (N.add m0.m_line (Npos XH)); m_col = N0 }

(** val mark : ('a1, marker) m **)

let mark x =
  gets (fun s -> s.sc_mark) x

(** val adv_mark : n -> ('a1, unit) m **)

let adv_mark n0 =
  modify (fun s -> set_mark (adv n0 s.sc_mark) s)

(** val skip_blank : 'a1 inputOps -> ('a1, unit) m **)

let skip_blank ops =
  bind (in_skip ops) (fun _ -> adv_mark (Npos XH))

(** val skip_non_blank : 'a1 inputOps -> ('a1, unit) m **)

let skip_non_blank ops =
  bind (in_skip ops) (fun _ ->
    bind (adv_mark (Npos XH)) (fun _ -> modify (set_lws false)))

(** val skip_n_non_blank : 'a1 inputOps -> nat -> ('a1, unit) m **)

let skip_n_non_blank ops n0 =
  bind (in_skip_n ops n0) (fun _ ->
    bind (adv_mark (N.of_nat n0)) (fun _ -> modify (set_lws false)))

(** val skip_nl : 'a1 inputOps -> ('a1, unit) m **)

let skip_nl ops =
  bind (in_skip ops) (fun _ ->
    modify (fun s -> set_lws true (set_mark (nlm s.sc_mark) s)))

(** val skip_linebreak : 'a1 inputOps -> ('a1, unit) m **)

let skip_linebreak ops =
  bind (next_2_are ops (Npos (XI (XO (XI XH)))) (Npos (XO (XI (XO XH)))))
    (fun crlf ->
    if crlf
    then bind (skip_blank ops) (fun _ -> skip_nl ops)
    else bind (peek ops) (fun c -> if is_break c then skip_nl ops else ret ()))

(** val skip_break : 'a1 inputOps -> ('a1, unit) m **)

let skip_break ops =
  bind (peek ops) (fun c ->
    bind (peekn ops (S O)) (fun nc ->
      bind
        (if is_break c
         then ret ()
         else panic (Npos (XO (XI (XI (XI (XO (XI XH)))))))) (fun _ ->
        bind
          (if (&&) (N.eqb c (Npos (XI (XO (XI XH)))))
                (N.eqb nc (Npos (XO (XI (XO XH)))))
           then skip_blank ops
           else ret ()) (fun _ -> skip_nl ops))))

(** val push_tok : token -> ('a1, unit) m **)

let push_tok t =
  modify (fun s -> set_tokens (app s.sc_tokens (t :: [])) s)

(** val insert_at : nat -> 'a1 -> 'a1 list -> 'a1 list option **)

let rec insert_at n0 x l =
  match n0 with
  | O -> Some (x :: l)
  | S n1 ->
    (match l with
     | [] -> None
     | y :: r ->
       (match insert_at n1 x r with
        | Some r' -> Some (y :: r')
        | None -> None))

(** val insert_token : n -> token -> ('a1, unit) m **)

let insert_token pos t s =
  match insert_at (N.to_nat pos) t s.sc_tokens with
  | Some l -> Ok ((), (set_tokens l s))
  | None -> Panic (Npos (XI (XI (XI (XI (XO (XI XH)))))))

(** val allow_simple_key : ('a1, unit) m **)

let allow_simple_key x =
  modify (set_ska true) x

(** val disallow_simple_key : ('a1, unit) m **)

let disallow_simple_key x =
  modify (set_ska false) x

(** val flow_level : ('a1, n) m **)

let flow_level x =
  gets (fun s -> s.sc_flow_level) x

(** val skip_ws_to_eol :
    'a1 inputOps -> nat -> skiptabs -> ('a1, bool * bool) m **)

let skip_ws_to_eol ops fuel st =
  bind (in_skip_ws_to_eol ops fuel st false false N0) (fun r ->
    bind (adv_mark (fst r)) (fun _ ->
      match snd r with
      | Some tw -> ret tw
      | None ->
        bind mark (fun m0 -> fail (Npos (XO (XO (XO (XI (XO XH)))))) m0)))

(** val is_within_block : ('a1, bool) m **)

let is_within_block x =
  gets (fun s -> match s.sc_indents with
                 | [] -> false
                 | _ :: _ -> true) x

(** val skip_to_next_token : 'a1 inputOps -> nat -> ('a1, unit) m **)

let rec skip_to_next_token ops fuel = match fuel with
| O -> oof
| S fuel' ->
  bind (look_ch ops) (fun c ->
    bind get (fun s ->
      bind is_within_block (fun wb ->
        if (&&) ((&&) ((&&) (N.eqb c (Npos (XI (XO (XO XH))))) wb) s.sc_lws)
             (Z.ltb (Z.of_N s.sc_mark.m_col) s.sc_indent)
        then bind (skip_ws_to_eol ops fuel SkipYes) (fun _ ->
               bind (next_is ops is_breakz) (fun b ->
                 if b
                 then skip_to_next_token ops fuel'
                 else bind mark (fun m0 ->
                        fail (Npos (XI (XO (XO (XI (XO XH)))))) m0)))
        else if (||) (N.eqb c (Npos (XI (XO (XO XH)))))
                  (N.eqb c (Npos (XO (XO (XO (XO (XO XH)))))))
             then bind (skip_blank ops) (fun _ ->
                    skip_to_next_token ops fuel')
             else if (||) (N.eqb c (Npos (XO (XI (XO XH)))))
                       (N.eqb c (Npos (XI (XO (XI XH)))))
                  then bind (look ops (S (S O))) (fun _ ->
                         bind (skip_linebreak ops) (fun _ ->
                           bind flow_level (fun fl ->
                             bind
                               (if N.eqb fl N0
                                then allow_simple_key
                                else ret ()) (fun _ ->
                               skip_to_next_token ops fuel'))))
                  else if N.eqb c (Npos (XI (XI (XO (XO (XO XH))))))
                       then bind (in_skip_while_non_breakz ops fuel)
                              (fun n0 ->
                              bind (adv_mark n0) (fun _ ->
                                skip_to_next_token ops fuel'))
                       else ret ())))

(** val skip_yaml_whitespace : 'a1 inputOps -> nat -> ('a1, unit) m **)

let skip_yaml_whitespace ops fuel =
  let rec go f need =
    match f with
    | O -> oof
    | S f' ->
      bind (look_ch ops) (fun c ->
        if N.eqb c (Npos (XO (XO (XO (XO (XO XH))))))
        then bind (skip_blank ops) (fun _ -> go f' false)
        else if (||) (N.eqb c (Npos (XO (XI (XO XH)))))
                  (N.eqb c (Npos (XI (XO (XI XH)))))
             then bind (look ops (S (S O))) (fun _ ->
                    bind (skip_linebreak ops) (fun _ ->
                      bind flow_level (fun fl ->
                        bind
                          (if N.eqb fl N0 then allow_simple_key else ret ())
                          (fun _ -> go f' false))))
             else if N.eqb c (Npos (XI (XI (XO (XO (XO XH))))))
                  then bind (in_skip_while_non_breakz ops fuel) (fun n0 ->
                         bind (adv_mark n0) (fun _ -> go f' need))
                  else if need
                       then bind mark (fun m0 ->
                              fail (Npos (XO (XI (XO (XI (XO XH)))))) m0)
                       else ret ())
  in go fuel true

(** val roll_indent : n -> n option -> tok -> marker -> ('a1, unit) m **)

let roll_indent col0 number tk mk =
  bind get (fun s ->
    if N.ltb N0 s.sc_flow_level
    then ret ()
    else if Z.leb s.sc_indent (Z.of_N col0)
         then (match s.sc_indents with
               | [] ->
                 let ind = s.sc_indent in
                 let inds = s.sc_indents in
                 if Z.ltb ind (Z.of_N col0)
                 then bind
                        (put
                          (set_indent (Z.of_N col0) ({ in_indent = ind;
                            in_needs_block_end = true } :: inds) s))
                        (fun _ ->
                        match number with
                        | Some n0 ->
                          if N.ltb n0 s.sc_tokens_parsed
                          then panic (Npos (XO (XO (XO (XO (XI (XI XH)))))))
                          else insert_token (N.sub n0 s.sc_tokens_parsed)
                                 ((span_empty mk), tk)
                        | None -> push_tok ((span_empty mk), tk))
                 else put (set_indent ind inds s)
               | i :: r ->
                 if negb i.in_needs_block_end
                 then let ind = i.in_indent in
                      if Z.ltb ind (Z.of_N col0)
                      then bind
                             (put
                               (set_indent (Z.of_N col0) ({ in_indent = ind;
                                 in_needs_block_end = true } :: r) s))
                             (fun _ ->
                             match number with
                             | Some n0 ->
                               if N.ltb n0 s.sc_tokens_parsed
                               then panic (Npos (XO (XO (XO (XO (XI (XI
                                      XH)))))))
                               else insert_token
                                      (N.sub n0 s.sc_tokens_parsed)
                                      ((span_empty mk), tk)
                             | None -> push_tok ((span_empty mk), tk))
                      else put (set_indent ind r s)
                 else let ind = s.sc_indent in
                      let inds = s.sc_indents in
                      if Z.ltb ind (Z.of_N col0)
                      then bind
                             (put
                               (set_indent (Z.of_N col0) ({ in_indent = ind;
                                 in_needs_block_end = true } :: inds) s))
                             (fun _ ->
                             match number with
                             | Some n0 ->
                               if N.ltb n0 s.sc_tokens_parsed
                               then panic (Npos (XO (XO (XO (XO (XI (XI
                                      XH)))))))
                               else insert_token
                                      (N.sub n0 s.sc_tokens_parsed)
                                      ((span_empty mk), tk)
                             | None -> push_tok ((span_empty mk), tk))
                      else put (set_indent ind inds s))
         else let ind = s.sc_indent in
              let inds = s.sc_indents in
              if Z.ltb ind (Z.of_N col0)
              then bind
                     (put
                       (set_indent (Z.of_N col0) ({ in_indent = ind;
                         in_needs_block_end = true } :: inds) s)) (fun _ ->
                     match number with
                     | Some n0 ->
                       if N.ltb n0 s.sc_tokens_parsed
                       then panic (Npos (XO (XO (XO (XO (XI (XI XH)))))))
                       else insert_token (N.sub n0 s.sc_tokens_parsed)
                              ((span_empty mk), tk)
                     | None -> push_tok ((span_empty mk), tk))
              else put (set_indent ind inds s))

(** val unroll_indent_go : nat -> z -> ('a1, unit) m **)

let rec unroll_indent_go fuel col0 =
  match fuel with
  | O -> oof
  | S fuel0 ->
    bind get (fun s ->
      if Z.ltb col0 s.sc_indent
      then (match s.sc_indents with
            | [] -> panic (Npos (XI (XO (XO (XO (XI (XI XH)))))))
            | i :: r ->
              bind (put (set_indent i.in_indent r s)) (fun _ ->
                bind
                  (if i.in_needs_block_end
                   then push_tok ((span_empty s.sc_mark), TBlockEnd)
                   else ret ()) (fun _ -> unroll_indent_go fuel0 col0)))
      else ret ())

(** val unroll_indent : z -> ('a1, unit) m **)

let unroll_indent col0 =
  bind get (fun s ->
    if N.ltb N0 s.sc_flow_level
    then ret ()
    else unroll_indent_go (S (length s.sc_indents)) col0)

(** val roll_one_col_indent : ('a1, unit) m **)

let roll_one_col_indent x =
  bind get (fun s ->
    if (&&) (N.eqb s.sc_flow_level N0)
         (match s.sc_indents with
          | [] -> false
          | i :: _ -> i.in_needs_block_end)
    then put
           (set_indent (Z.add s.sc_indent (Zpos XH)) ({ in_indent =
             s.sc_indent; in_needs_block_end = false } :: s.sc_indents) s)
    else ret ()) x

(** val unroll_nb : indent_rec list -> z -> z * indent_rec list **)

let rec unroll_nb l ind =
  match l with
  | [] -> (ind, [])
  | i :: r ->
    if i.in_needs_block_end then (ind, l) else unroll_nb r i.in_indent

(** val unroll_non_block_indents : ('a1, unit) m **)

let unroll_non_block_indents x =
  modify (fun s ->
    let (ind, l) = unroll_nb s.sc_indents s.sc_indent in set_indent ind l s) x

(** val save_simple_key : ('a1, unit) m **)

let save_simple_key x =
  bind get (fun s ->
    if s.sc_ska
    then bind
           (if (&&) (N.eqb s.sc_flow_level N0)
                 (Z.eqb s.sc_indent (Z.of_N s.sc_mark.m_col))
            then (match s.sc_indents with
                  | [] -> panic (Npos (XO (XI (XO (XO (XI (XI XH)))))))
                  | i :: _ -> ret i.in_needs_block_end)
            else ret false) (fun r ->
           let sk = { sk_possible = true; sk_required = r; sk_token_number =
             (N.add s.sc_tokens_parsed (N.of_nat (length s.sc_tokens)));
             sk_mark = s.sc_mark }
           in
           put (set_sks (sk :: (tl s.sc_sks)) s))
    else ret ()) x

(** val remove_simple_key : ('a1, unit) m **)

let remove_simple_key x =
  bind get (fun s ->
    match s.sc_sks with
    | [] -> panic (Npos (XI (XI (XO (XO (XI (XI XH)))))))
    | k :: r ->
      if (&&) k.sk_possible k.sk_required
      then fail (Npos (XI (XI (XO (XI (XO XH)))))) s.sc_mark
      else put
             (set_sks ({ sk_possible = false; sk_required = k.sk_required;
               sk_token_number = k.sk_token_number; sk_mark =
               k.sk_mark } :: r) s)) x

(** val stale_simple_keys : ('a1, unit) m **)

let stale_simple_keys x =
  bind get (fun s ->
    let stale = fun k ->
      (&&) ((&&) k.sk_possible (N.eqb s.sc_flow_level N0))
        ((||) (N.ltb k.sk_mark.m_line s.sc_mark.m_line)
          (N.ltb (N.add k.sk_mark.m_index sIMPLE_KEY_MAX) s.sc_mark.m_index))
    in
    if existsb (fun k -> (&&) (stale k) k.sk_required) s.sc_sks
    then fail (Npos (XO (XO (XI (XI (XO XH)))))) s.sc_mark
    else put
           (set_sks
             (map (fun k ->
               if stale k
               then { sk_possible = false; sk_required = k.sk_required;
                      sk_token_number = k.sk_token_number; sk_mark =
                      k.sk_mark }
               else k) s.sc_sks) s)) x

(** val end_implicit_mapping : marker -> ('a1, unit) m **)

let end_implicit_mapping mk =
  bind get (fun s ->
    match s.sc_ifms with
    | [] -> ret ()
    | i :: r ->
      (match i with
       | ImPossible -> ret ()
       | ImInside ->
         bind (put (set_ifms (ImPossible :: r) (set_fms false s))) (fun _ ->
           push_tok ((span_empty mk), TFlowMappingEnd))))

(** val increase_flow_level : ('a1, unit) m **)

let increase_flow_level x =
  bind get (fun s ->
    let s' =
      set_sks ({ sk_possible = false; sk_required = false; sk_token_number =
        N0; sk_mark = mk0 } :: s.sc_sks) s
    in
    if N.eqb s.sc_flow_level fLOW_LEVEL_MAX
    then (fun _ -> Err ((Npos (XI (XO (XI (XI (XO XH)))))), s.sc_mark))
    else put (set_fl (N.add s.sc_flow_level (Npos XH)) s')) x

(** val decrease_flow_level : ('a1, unit) m **)

let decrease_flow_level x =
  bind get (fun s ->
    if N.ltb N0 s.sc_flow_level
    then (match s.sc_sks with
          | [] -> panic (Npos (XO (XO (XI (XO (XI (XI XH)))))))
          | _ :: r ->
            put (set_sks r (set_fl (N.sub s.sc_flow_level (Npos XH)) s)))
    else ret ()) x

(** val mkspan : marker -> marker -> span **)

let mkspan a b =
  { sp_start = a; sp_end = b }

(** val scan_uri_escapes : 'a1 inputOps -> marker -> ('a1, chr) m **)

let scan_uri_escapes ops mk =
  let rec go f width code0 first =
    match f with
    | O -> oof
    | S f0 ->
      bind (look ops (S (S (S O)))) (fun _ ->
        bind (peek ops) (fun c0 ->
          bind (peekn ops (S O)) (fun c ->
            bind (peekn ops (S (S O))) (fun nc ->
              if negb
                   ((&&)
                     ((&&) (N.eqb c0 (Npos (XI (XO (XI (XO (XO XH)))))))
                       (is_hex c)) (is_hex nc))
              then fail (Npos (XO (XI (XO (XO (XI XH)))))) mk
              else let byte =
                     N.add (N.mul (as_hex c) (Npos (XO (XO (XO (XO XH))))))
                       (as_hex nc)
                   in
                   bind
                     (if first
                      then if N.eqb
                                (N.coq_land byte (Npos (XO (XO (XO (XO (XO
                                  (XO (XO XH))))))))) N0
                           then ret ((Npos XH), byte)
                           else if N.eqb
                                     (N.coq_land byte (Npos (XO (XO (XO (XO
                                       (XO (XI (XI XH))))))))) (Npos (XO (XO
                                     (XO (XO (XO (XO (XI XH))))))))
                                then ret ((Npos (XO XH)),
                                       (N.coq_land byte (Npos (XI (XI (XI (XI
                                         XH)))))))
                                else if N.eqb
                                          (N.coq_land byte (Npos (XO (XO (XO
                                            (XO (XI (XI (XI XH))))))))) (Npos
                                          (XO (XO (XO (XO (XO (XI (XI
                                          XH))))))))
                                     then ret ((Npos (XI XH)),
                                            (N.coq_land byte (Npos (XI (XI
                                              (XI XH))))))
                                     else if N.eqb
                                               (N.coq_land byte (Npos (XO (XO
                                                 (XO (XI (XI (XI (XI
                                                 XH))))))))) (Npos (XO (XO
                                               (XO (XO (XI (XI (XI XH))))))))
                                          then ret ((Npos (XO (XO XH))),
                                                 (N.coq_land byte (Npos (XI
                                                   (XI XH)))))
                                          else fail (Npos (XI (XI (XO (XO (XI
                                                 XH)))))) mk
                      else if negb
                                (N.eqb
                                  (N.coq_land byte (Npos (XO (XO (XO (XO (XO
                                    (XO (XI XH))))))))) (Npos (XO (XO (XO (XO
                                  (XO (XO (XO XH)))))))))
                           then fail (Npos (XO (XO (XI (XO (XI XH)))))) mk
                           else ret (width,
                                  (N.add
                                    (N.mul code0 (Npos (XO (XO (XO (XO (XO
                                      (XO XH))))))))
                                    (N.coq_land byte (Npos (XI (XI (XI (XI
                                      (XI XH)))))))))) (fun r ->
                     let (w, cd) = r in
                     bind (skip_n_non_blank ops (S (S (S O)))) (fun _ ->
                       if N.eqb (N.sub w (Npos XH)) N0
                       then if (||)
                                 (N.ltb cd (Npos (XO (XO (XO (XO (XO (XO (XO
                                   (XO (XO (XO (XO (XI (XI (XO (XI
                                   XH)))))))))))))))))
                                 ((&&)
                                   (N.ltb (Npos (XI (XI (XI (XI (XI (XI (XI
                                     (XI (XI (XI (XI (XI (XI (XO (XI
                                     XH)))))))))))))))) cd)
                                   (N.leb cd (Npos (XI (XI (XI (XI (XI (XI
                                     (XI (XI (XI (XI (XI (XI (XI (XI (XI (XI
                                     (XO (XO (XO (XO XH)))))))))))))))))))))))
                            then ret cd
                            else fail (Npos (XI (XO (XI (XO (XI XH)))))) mk
                       else go f0 (N.sub w (Npos XH)) cd false))))))
  in go (S (S (S (S (S O))))) N0 N0 true

(** val scan_tag_handle :
    'a1 inputOps -> nat -> bool -> marker -> ('a1, chr list) m **)

let scan_tag_handle ops f directive mk =
  bind (look_ch ops) (fun c ->
    if negb (N.eqb c (Npos (XI (XO (XO (XO (XO XH)))))))
    then fail (Npos (XO (XI (XI (XO (XI XH)))))) mk
    else bind (skip_non_blank ops) (fun _ ->
           bind
             (in_fetch_while_alpha ops f ((Npos (XI (XO (XO (XO (XO
               XH)))))) :: [])) (fun r ->
             bind (adv_mark (snd r)) (fun _ ->
               bind (peek ops) (fun c0 ->
                 if N.eqb c0 (Npos (XI (XO (XO (XO (XO XH))))))
                 then bind (skip_non_blank ops) (fun _ ->
                        ret
                          (rev ((Npos (XI (XO (XO (XO (XO
                            XH)))))) :: (fst r))))
                 else if (&&) directive
                           (negb
                             (match fst r with
                              | [] -> false
                              | c1 :: l ->
                                (match c1 with
                                 | N0 -> false
                                 | Npos p ->
                                   (match p with
                                    | XI p0 ->
                                      (match p0 with
                                       | XO p1 ->
                                         (match p1 with
                                          | XO p2 ->
                                            (match p2 with
                                             | XO p3 ->
                                               (match p3 with
                                                | XO p4 ->
                                                  (match p4 with
                                                   | XH ->
                                                     (match l with
                                                      | [] -> true
                                                      | _ :: _ -> false)
                                                   | _ -> false)
                                                | _ -> false)
                                             | _ -> false)
                                          | _ -> false)
                                       | _ -> false)
                                    | _ -> false))))
                      then fail (Npos (XI (XI (XI (XO (XI XH)))))) mk
                      else ret (rev (fst r)))))))

(** val uri_loop :
    'a1 inputOps -> nat -> (chr -> bool) -> marker -> chr list -> ('a1, chr
    list * n) m **)

let uri_loop ops f p mk acc =
  let rec go f0 acc0 n0 =
    match f0 with
    | O -> oof
    | S f1 ->
      bind (look_ch ops) (fun c ->
        if p c
        then if N.eqb c (Npos (XI (XO (XI (XO (XO XH))))))
             then bind (scan_uri_escapes ops mk) (fun e ->
                    go f1 (e :: acc0) (N.add n0 (Npos XH)))
             else bind (skip_non_blank ops) (fun _ ->
                    go f1 (c :: acc0) (N.add n0 (Npos XH)))
        else ret (acc0, n0))
  in go f acc N0

(** val scan_tag_prefix :
    'a1 inputOps -> nat -> marker -> ('a1, chr list) m **)

let scan_tag_prefix ops f mk =
  bind (look_ch ops) (fun c ->
    bind
      (if N.eqb c (Npos (XI (XO (XO (XO (XO XH))))))
       then bind (skip_non_blank ops) (fun _ ->
              ret ((Npos (XI (XO (XO (XO (XO XH)))))) :: []))
       else if negb (is_tag_char c)
            then fail (Npos (XO (XO (XO (XI (XI XH)))))) mk
            else if N.eqb c (Npos (XI (XO (XI (XO (XO XH))))))
                 then bind (scan_uri_escapes ops mk) (fun e -> ret (e :: []))
                 else bind (skip_non_blank ops) (fun _ -> ret (c :: [])))
      (fun acc ->
      bind (uri_loop ops f is_uri_char mk acc) (fun r -> ret (rev (fst r)))))

(** val scan_verbatim_tag :
    'a1 inputOps -> nat -> marker -> ('a1, chr list) m **)

let scan_verbatim_tag ops f mk =
  bind (skip_non_blank ops) (fun _ ->
    bind (skip_non_blank ops) (fun _ ->
      bind (uri_loop ops f is_uri_char mk []) (fun r ->
        bind (peek ops) (fun c ->
          if negb (N.eqb c (Npos (XO (XI (XI (XI (XI XH)))))))
          then fail (Npos (XI (XO (XO (XI (XI XH)))))) mk
          else bind (skip_non_blank ops) (fun _ -> ret (rev (fst r)))))))

(** val scan_tag_shorthand_suffix :
    'a1 inputOps -> nat -> chr list -> marker -> ('a1, chr list) m **)

let scan_tag_shorthand_suffix ops f head mk =
  let len = N.of_nat (length head) in
  let acc = if N.ltb (Npos XH) len then rev (tl head) else [] in
  bind (uri_loop ops f is_tag_char mk acc) (fun r ->
    if N.eqb (N.add len (snd r)) N0
    then fail (Npos (XO (XI (XO (XI (XI XH)))))) mk
    else ret (rev (fst r)))

(** val scan_tag : 'a1 inputOps -> nat -> ('a1, token) m **)

let scan_tag ops f =
  bind mark (fun start ->
    bind (look ops (S (S O))) (fun _ ->
      bind (nth_char_is ops (S O) (Npos (XO (XO (XI (XI (XI XH)))))))
        (fun v ->
        bind
          (if v
           then bind (scan_verbatim_tag ops f start) (fun s -> ret ([], s))
           else bind (scan_tag_handle ops f false start) (fun h ->
                  if (&&)
                       ((&&) (N.leb (Npos (XO XH)) (N.of_nat (length h)))
                         (N.eqb (hd N0 h) (Npos (XI (XO (XO (XO (XO XH))))))))
                       (N.eqb (last h N0) (Npos (XI (XO (XO (XO (XO XH)))))))
                  then bind (scan_tag_shorthand_suffix ops f [] start)
                         (fun s -> ret (h, s))
                  else bind (scan_tag_shorthand_suffix ops f h start)
                         (fun s ->
                         match s with
                         | [] ->
                           ret ([], ((Npos (XI (XO (XO (XO (XO
                             XH)))))) :: []))
                         | _ :: _ ->
                           ret (((Npos (XI (XO (XO (XO (XO XH)))))) :: []), s))))
          (fun hs ->
          bind (look_ch ops) (fun c ->
            bind flow_level (fun fl ->
              if (||) (is_blank_or_breakz c) ((&&) (N.ltb N0 fl) (is_flow c))
              then bind mark (fun m0 ->
                     ret ((mkspan start m0), (TTag ((fst hs), (snd hs)))))
              else fail (Npos (XI (XI (XO (XI (XI XH)))))) start))))))

(** val scan_anchor : 'a1 inputOps -> nat -> bool -> ('a1, token) m **)

let scan_anchor ops f alias =
  bind mark (fun start ->
    bind (skip_non_blank ops) (fun _ ->
      bind
        (let rec go f0 acc =
           match f0 with
           | O -> oof
           | S f1 ->
             bind (look_ch ops) (fun c ->
               if is_anchor_char c
               then bind (skip_non_blank ops) (fun _ -> go f1 (c :: acc))
               else ret acc)
         in go f []) (fun r ->
        match r with
        | [] -> fail (Npos (XO (XO (XI (XI (XI XH)))))) start
        | _ :: _ ->
          bind mark (fun m0 ->
            ret ((mkspan start m0),
              (if alias then TAlias (rev r) else TAnchor (rev r)))))))

(** val scan_version_directive_number :
    'a1 inputOps -> nat -> marker -> ('a1, n) m **)

let scan_version_directive_number ops f mk =
  let rec go f0 val0 len =
    match f0 with
    | O -> oof
    | S f1 ->
      bind (look_ch ops) (fun c ->
        if is_digit c
        then if N.ltb vERSION_DIGITS_MAX (N.add len (Npos XH))
             then fail (Npos (XI (XO (XI (XI (XI XH)))))) mk
             else let v =
                    N.add (N.mul val0 (Npos (XO (XI (XO XH)))))
                      (N.sub c (Npos (XO (XO (XO (XO (XI XH)))))))
                  in
                  bind
                    (if N.ltb (Npos (XI (XI (XI (XI (XI (XI (XI (XI (XI (XI
                          (XI (XI (XI (XI (XI (XI (XI (XI (XI (XI (XI (XI (XI
                          (XI (XI (XI (XI (XI (XI (XI (XI
                          XH)))))))))))))))))))))))))))))))) v
                     then panic (Npos (XO (XO (XO (XI (XI (XI XH)))))))
                     else ret ()) (fun _ ->
                    bind (skip_non_blank ops) (fun _ ->
                      go f1 v (N.add len (Npos XH))))
        else if N.eqb len N0
             then fail (Npos (XO (XI (XI (XI (XI XH)))))) mk
             else ret val0)
  in go f N0 N0

(** val scan_version_directive_value :
    'a1 inputOps -> nat -> marker -> ('a1, token) m **)

let scan_version_directive_value ops f mk =
  bind (in_skip_while_blank ops f) (fun n0 ->
    bind (adv_mark n0) (fun _ ->
      bind (scan_version_directive_number ops f mk) (fun major ->
        bind (peek ops) (fun c ->
          if negb (N.eqb c (Npos (XO (XI (XI (XI (XO XH)))))))
          then fail (Npos (XI (XI (XI (XI (XI XH)))))) mk
          else bind (skip_non_blank ops) (fun _ ->
                 bind (scan_version_directive_number ops f mk) (fun minor ->
                   bind mark (fun m0 ->
                     ret ((mkspan mk m0), (TVersionDirective (major, minor))))))))))

(** val scan_tag_directive_value :
    'a1 inputOps -> nat -> marker -> ('a1, token) m **)

let scan_tag_directive_value ops f mk =
  bind (in_skip_while_blank ops f) (fun n0 ->
    bind (adv_mark n0) (fun _ ->
      bind (scan_tag_handle ops f true mk) (fun h ->
        bind (in_skip_while_blank ops f) (fun n1 ->
          bind (adv_mark n1) (fun _ ->
            bind (scan_tag_prefix ops f mk) (fun p ->
              bind (look ops (S O)) (fun _ ->
                bind (peek ops) (fun c ->
                  if is_blank_or_breakz c
                  then bind mark (fun m0 ->
                         ret ((mkspan mk m0), (TTagDirective (h, p))))
                  else fail (Npos (XO (XO (XO (XO (XO (XO XH))))))) mk))))))))

(** val scan_directive_name : 'a1 inputOps -> nat -> ('a1, chr list) m **)

let scan_directive_name ops f =
  bind mark (fun start ->
    bind (in_fetch_while_alpha ops f []) (fun r ->
      bind (adv_mark (snd r)) (fun _ ->
        match fst r with
        | [] -> fail (Npos (XI (XO (XO (XO (XO (XO XH))))))) start
        | _ :: _ ->
          bind (peek ops) (fun c ->
            if is_blank_or_breakz c
            then ret (rev (fst r))
            else fail (Npos (XO (XI (XO (XO (XO (XO XH))))))) start))))

(** val s_YAML : chr list **)

let s_YAML =
  (Npos (XI (XO (XO (XI (XI (XO XH))))))) :: ((Npos (XI (XO (XO (XO (XO (XO
    XH))))))) :: ((Npos (XI (XO (XI (XI (XO (XO XH))))))) :: ((Npos (XO (XO
    (XI (XI (XO (XO XH))))))) :: [])))

(** val s_TAG : chr list **)

let s_TAG =
  (Npos (XO (XO (XI (XO (XI (XO XH))))))) :: ((Npos (XI (XO (XO (XO (XO (XO
    XH))))))) :: ((Npos (XI (XI (XI (XO (XO (XO XH))))))) :: []))

(** val scan_directive : 'a1 inputOps -> nat -> ('a1, token) m **)

let scan_directive ops f =
  bind mark (fun start ->
    bind (skip_non_blank ops) (fun _ ->
      bind (scan_directive_name ops f) (fun name ->
        bind
          (if str_eqb name s_YAML
           then scan_version_directive_value ops f start
           else if str_eqb name s_TAG
                then scan_tag_directive_value ops f start
                else bind (in_skip_while_non_breakz ops f) (fun n0 ->
                       bind (adv_mark n0) (fun _ ->
                         bind mark (fun m0 ->
                           ret ((mkspan start m0), (TTagDirective ([], [])))))))
          (fun tk ->
          bind (skip_ws_to_eol ops f SkipYes) (fun _ ->
            bind (next_is ops is_breakz) (fun b ->
              if b
              then bind (look ops (S (S O))) (fun _ ->
                     bind (skip_linebreak ops) (fun _ -> ret tk))
              else fail (Npos (XI (XI (XO (XO (XO (XO XH))))))) start))))))

(** val escape_table : (n * n) list **)

let escape_table =
  ((Npos (XO (XO (XO (XO (XI XH)))))), N0) :: (((Npos (XI (XO (XO (XO (XO (XI
    XH))))))), (Npos (XI (XI XH)))) :: (((Npos (XO (XI (XO (XO (XO (XI
    XH))))))), (Npos (XO (XO (XO XH))))) :: (((Npos (XO (XO (XI (XO (XI (XI
    XH))))))), (Npos (XI (XO (XO XH))))) :: (((Npos (XI (XO (XO XH)))), (Npos
    (XI (XO (XO XH))))) :: (((Npos (XO (XI (XI (XI (XO (XI XH))))))), (Npos
    (XO (XI (XO XH))))) :: (((Npos (XO (XI (XI (XO (XI (XI XH))))))), (Npos
    (XI (XI (XO XH))))) :: (((Npos (XO (XI (XI (XO (XO (XI XH))))))), (Npos
    (XO (XO (XI XH))))) :: (((Npos (XO (XI (XO (XO (XI (XI XH))))))), (Npos
    (XI (XO (XI XH))))) :: (((Npos (XI (XO (XI (XO (XO (XI XH))))))), (Npos
    (XI (XI (XO (XI XH)))))) :: (((Npos (XO (XO (XO (XO (XO XH)))))), (Npos
    (XO (XO (XO (XO (XO XH))))))) :: (((Npos (XO (XI (XO (XO (XO XH)))))),
    (Npos (XO (XI (XO (XO (XO XH))))))) :: (((Npos (XI (XI (XI (XI (XO
    XH)))))), (Npos (XI (XI (XI (XI (XO XH))))))) :: (((Npos (XO (XO (XI (XI
    (XI (XO XH))))))), (Npos (XO (XO (XI (XI (XI (XO XH)))))))) :: (((Npos
    (XO (XI (XI (XI (XO (XO XH))))))), (Npos (XI (XO (XI (XO (XO (XO (XO
    XH))))))))) :: (((Npos (XI (XI (XI (XI (XI (XO XH))))))), (Npos (XO (XO
    (XO (XO (XO (XI (XO XH))))))))) :: (((Npos (XO (XO (XI (XI (XO (XO
    XH))))))), (Npos (XO (XO (XO (XI (XO (XI (XO (XO (XO (XO (XO (XO (XO
    XH))))))))))))))) :: (((Npos (XO (XO (XO (XO (XI (XO XH))))))), (Npos (XI
    (XO (XO (XI (XO (XI (XO (XO (XO (XO (XO (XO (XO
    XH))))))))))))))) :: [])))))))))))))))))

(** val code_length_table : (n * nat) list **)

let code_length_table =
  ((Npos (XO (XO (XO (XI (XI (XI XH))))))), (S (S O))) :: (((Npos (XI (XO (XI
    (XO (XI (XI XH))))))), (S (S (S (S O))))) :: (((Npos (XI (XO (XI (XO (XI
    (XO XH))))))), (S (S (S (S (S (S (S (S O))))))))) :: []))

(** val nls : n -> chr list -> chr list **)

let nls n0 acc =
  N.iter n0 (fun x -> (Npos (XO (XI (XO XH)))) :: x) acc

(** val col_lt_indent : ('a1, bool) m **)

let col_lt_indent x =
  gets (fun s -> Z.ltb (Z.of_N s.sc_mark.m_col) s.sc_indent) x

(** val assocc : chr -> (chr * chr) list -> chr option **)

let rec assocc k = function
| [] -> None
| p :: r -> let (a, b) = p in if N.eqb a k then Some b else assocc k r

(** val assocn : chr -> (chr * nat) list -> nat **)

let rec assocn k = function
| [] -> O
| p :: r -> let (a, b) = p in if N.eqb a k then b else assocn k r

(** val code_length : chr -> nat **)

let code_length c =
  assocn c code_length_table

(** val is_scalar_value : n -> bool **)

let is_scalar_value v =
  (||)
    (N.ltb v (Npos (XO (XO (XO (XO (XO (XO (XO (XO (XO (XO (XO (XI (XI (XO
      (XI XH)))))))))))))))))
    ((&&)
      (N.ltb (Npos (XI (XI (XI (XI (XI (XI (XI (XI (XI (XI (XI (XI (XI (XO
        (XI XH)))))))))))))))) v)
      (N.leb v (Npos (XI (XI (XI (XI (XI (XI (XI (XI (XI (XI (XI (XI (XI (XI
        (XI (XI (XO (XO (XO (XO XH)))))))))))))))))))))))

(** val read_hex : 'a1 inputOps -> nat -> nat -> n -> marker -> ('a1, n) m **)

let rec read_hex ops n0 i acc start =
  match n0 with
  | O -> ret acc
  | S n1 ->
    bind (peekn ops i) (fun c ->
      if is_hex c
      then read_hex ops n1 (S i)
             (N.add (N.mul acc (Npos (XO (XO (XO (XO XH)))))) (as_hex c))
             start
      else fail (Npos (XO (XI (XI (XI XH))))) start)

(** val resolve_escape : 'a1 inputOps -> marker -> ('a1, chr) m **)

let resolve_escape ops start =
  bind (peekn ops (S O)) (fun e ->
    match assocc e escape_table with
    | Some r -> bind (skip_n_non_blank ops (S (S O))) (fun _ -> ret r)
    | None ->
      let n0 = code_length e in
      if Nat.eqb n0 O
      then fail (Npos (XI (XI (XI (XI XH))))) start
      else bind (skip_n_non_blank ops (S (S O))) (fun _ ->
             bind (look ops n0) (fun _ ->
               bind (read_hex ops n0 O N0 start) (fun v ->
                 if is_scalar_value v
                 then bind (skip_n_non_blank ops n0) (fun _ -> ret v)
                 else fail (Npos (XO (XO (XO (XO (XO XH)))))) start))))

(** val consume_nonws :
    'a1 inputOps -> nat -> bool -> chr list -> marker -> ('a1, chr
    list * bool) m **)

let rec consume_nonws ops fuel single acc start =
  match fuel with
  | O -> oof
  | S fuel0 ->
    bind (look ops (S (S O))) (fun _ ->
      bind (peek ops) (fun c ->
        if is_blank_or_breakz c
        then ret (acc, false)
        else bind (peekn ops (S O)) (fun nc ->
               if (&&)
                    ((&&) (N.eqb c (Npos (XI (XI (XI (XO (XO XH)))))))
                      (N.eqb nc (Npos (XI (XI (XI (XO (XO XH)))))))) single
               then bind (skip_n_non_blank ops (S (S O))) (fun _ ->
                      consume_nonws ops fuel0 single ((Npos (XI (XI (XI (XO
                        (XO XH)))))) :: acc) start)
               else if (&&) (N.eqb c (Npos (XI (XI (XI (XO (XO XH)))))))
                         single
                    then ret (acc, false)
                    else if (&&) (N.eqb c (Npos (XO (XI (XO (XO (XO XH)))))))
                              (negb single)
                         then ret (acc, false)
                         else if (&&)
                                   ((&&)
                                     (N.eqb c (Npos (XO (XO (XI (XI (XI (XO
                                       XH)))))))) (negb single)) (is_break nc)
                              then bind (look ops (S (S (S O)))) (fun _ ->
                                     bind (skip_non_blank ops) (fun _ ->
                                       bind (skip_linebreak ops) (fun _ ->
                                         ret (acc, true))))
                              else if (&&)
                                        (N.eqb c (Npos (XO (XO (XI (XI (XI
                                          (XO XH)))))))) (negb single)
                                   then bind (resolve_escape ops start)
                                          (fun r ->
                                          consume_nonws ops fuel0 single
                                            (r :: acc) start)
                                   else bind (skip_non_blank ops) (fun _ ->
                                          consume_nonws ops fuel0 single
                                            (c :: acc) start))))

(** val flow_blanks :
    'a1 inputOps -> nat -> bool -> bool -> n -> chr list -> ('a1,
    ((bool * bool) * n) * chr list) m **)

let rec flow_blanks ops fuel lbl lb tb ws =
  match fuel with
  | O -> oof
  | S fuel0 ->
    bind (peek ops) (fun c ->
      if is_blank c
      then if lbl
           then bind col_lt_indent (fun lt ->
                  if (&&) (N.eqb c (Npos (XI (XO (XO XH))))) lt
                  then bind mark (fun m0 ->
                         fail (Npos (XI (XO (XO (XI (XO (XO XH))))))) m0)
                  else bind (skip_blank ops) (fun _ ->
                         bind (look ops (S O)) (fun _ ->
                           flow_blanks ops fuel0 lbl lb tb ws)))
           else bind (skip_blank ops) (fun _ ->
                  bind (look ops (S O)) (fun _ ->
                    flow_blanks ops fuel0 lbl lb tb (c :: ws)))
      else if is_break c
           then bind (look ops (S (S O))) (fun _ ->
                  if lbl
                  then bind (skip_break ops) (fun _ ->
                         bind (look ops (S O)) (fun _ ->
                           flow_blanks ops fuel0 true lb (N.add tb (Npos XH))
                             ws))
                  else bind (skip_break ops) (fun _ ->
                         bind (look ops (S O)) (fun _ ->
                           flow_blanks ops fuel0 true true tb [])))
           else ret (((lbl, lb), tb), ws))

(** val scan_flow_scalar : 'a1 inputOps -> nat -> bool -> ('a1, token) m **)

let scan_flow_scalar ops f single =
  bind mark (fun start ->
    bind (skip_non_blank ops) (fun _ ->
      bind
        (let rec go f0 acc lb tb ws =
           match f0 with
           | O -> oof
           | S f1 ->
             bind (look ops (S (S (S (S O))))) (fun _ ->
               bind get (fun s ->
                 bind
                   (if N.eqb s.sc_mark.m_col N0
                    then next_is_document_indicator ops
                    else ret false) (fun di ->
                   if di
                   then fail (Npos (XO (XI (XI (XO (XO (XO XH))))))) start
                   else bind (next_is ops is_z) (fun z0 ->
                          if z0
                          then fail (Npos (XI (XI (XI (XO (XO (XO XH)))))))
                                 start
                          else bind col_lt_indent (fun lt ->
                                 if lt
                                 then fail (Npos (XO (XO (XO (XI (XO (XO
                                        XH))))))) start
                                 else bind
                                        (consume_nonws ops f single acc start)
                                        (fun r ->
                                        let (acc0, lbl) = r in
                                        bind (look_ch ops) (fun c ->
                                          if (||)
                                               ((&&) single
                                                 (N.eqb c (Npos (XI (XI (XI
                                                   (XO (XO XH))))))))
                                               ((&&) (negb single)
                                                 (N.eqb c (Npos (XO (XI (XO
                                                   (XO (XO XH))))))))
                                          then ret acc0
                                          else bind
                                                 (flow_blanks ops f lbl lb tb
                                                   ws) (fun r0 ->
                                                 let (p, ws0) = r0 in
                                                 let (p0, tb0) = p in
                                                 let (lbl0, lb0) = p0 in
                                                 if lbl0
                                                 then if negb lb0
                                                      then go f1
                                                             (nls tb0 acc0)
                                                             false N0 ws0
                                                      else if N.eqb tb0 N0
                                                           then go f1 ((Npos
                                                                  (XO (XO (XO
                                                                  (XO (XO
                                                                  XH)))))) :: acc0)
                                                                  false N0 ws0
                                                           else go f1
                                                                  (nls tb0
                                                                    acc0)
                                                                  false N0 ws0
                                                 else go f1 (app ws0 acc0)
                                                        lb0 tb0 []))))))))
         in go f [] false N0 []) (fun str0 ->
        bind (skip_non_blank ops) (fun _ ->
          bind (skip_ws_to_eol ops f SkipYes) (fun _ ->
            bind (peek ops) (fun c ->
              bind get (fun s ->
                let fl = N.ltb N0 s.sc_flow_level in
                if (||)
                     ((||)
                       ((||)
                         ((&&)
                           ((||)
                             ((||)
                               (N.eqb c (Npos (XO (XO (XI (XI (XO XH)))))))
                               (N.eqb c (Npos (XI (XO (XI (XI (XI (XI
                                 XH)))))))))
                             (N.eqb c (Npos (XI (XO (XI (XI (XI (XO XH)))))))))
                           fl) (is_breakz c))
                       ((&&)
                         ((&&) (N.eqb c (Npos (XO (XI (XO (XI (XI XH)))))))
                           (negb fl)) (N.eqb start.m_line s.sc_mark.m_line)))
                     ((&&) (N.eqb c (Npos (XO (XI (XO (XI (XI XH))))))) fl)
                then ret ({ sp_start = start; sp_end = s.sc_mark }, (TScalar
                       ((if single then SingleQuoted else DoubleQuoted),
                       (rev str0))))
                else fail (Npos (XO (XI (XO (XI (XO (XO XH))))))) s.sc_mark)))))))

(** val plain_chunk :
    'a1 inputOps -> nat -> nat -> chr list -> ('a1, chr list) m **)

let rec plain_chunk ops fuel j acc =
  match fuel with
  | O -> oof
  | S fuel0 ->
    if Nat.leb (sub ops.bufmaxlen (S O)) j
    then bind (look ops ops.bufmaxlen) (fun _ -> plain_chunk ops fuel0 O acc)
    else bind (next_is ops is_blank_or_breakz) (fun b ->
           bind get (fun s ->
             bind
               (if b
                then ret false
                else next_can_be_plain_scalar ops (N.ltb N0 s.sc_flow_level))
               (fun cb ->
               if (||) b (negb cb)
               then ret acc
               else bind (peek ops) (fun c ->
                      bind (skip_non_blank ops) (fun _ ->
                        plain_chunk ops fuel0 (S j) (c :: acc))))))

(** val plain_blanks :
    'a1 inputOps -> nat -> nat -> z -> marker -> bool -> n -> chr list ->
    ('a1, (bool * n) * chr list) m **)

let rec plain_blanks ops f fuel indent start lb tb ws =
  match fuel with
  | O -> oof
  | S fuel0 ->
    bind (peek ops) (fun c ->
      if is_blank c
      then bind get (fun s ->
             if negb s.sc_lws
             then bind (skip_blank ops) (fun _ ->
                    bind (look ops (S (S O))) (fun _ ->
                      plain_blanks ops f fuel0 indent start lb tb (c :: ws)))
             else if (&&) (Z.ltb (Z.of_N s.sc_mark.m_col) indent)
                       (N.eqb c (Npos (XI (XO (XO XH)))))
                  then bind (skip_ws_to_eol ops f SkipYes) (fun _ ->
                         bind (next_is ops is_breakz) (fun b ->
                           if b
                           then bind (look ops (S (S O))) (fun _ ->
                                  plain_blanks ops f fuel0 indent start lb tb
                                    ws)
                           else fail (Npos (XI (XO (XI (XI (XO (XO XH)))))))
                                  start))
                  else bind (skip_blank ops) (fun _ ->
                         bind (look ops (S (S O))) (fun _ ->
                           plain_blanks ops f fuel0 indent start lb tb ws)))
      else if is_break c
           then bind get (fun s ->
                  if s.sc_lws
                  then bind (skip_break ops) (fun _ ->
                         bind (look ops (S (S O))) (fun _ ->
                           plain_blanks ops f fuel0 indent start lb
                             (N.add tb (Npos XH)) ws))
                  else bind (skip_break ops) (fun _ ->
                         bind (modify (set_lws true)) (fun _ ->
                           bind (look ops (S (S O))) (fun _ ->
                             plain_blanks ops f fuel0 indent start true tb []))))
           else ret ((lb, tb), ws))

(** val scan_plain_scalar : 'a1 inputOps -> nat -> ('a1, token) m **)

let scan_plain_scalar ops f =
  bind unroll_non_block_indents (fun _ ->
    bind get (fun s0 ->
      let indent = Z.add s0.sc_indent (Zpos XH) in
      let start = s0.sc_mark in
      if (&&) (N.ltb N0 s0.sc_flow_level) (Z.ltb (Z.of_N start.m_col) indent)
      then fail (Npos (XI (XI (XO (XI (XO (XO XH))))))) start
      else bind
             (let rec go f0 acc lb tb ws endm =
                match f0 with
                | O -> oof
                | S f1 ->
                  bind (look ops (S (S (S (S O))))) (fun _ ->
                    bind get (fun s ->
                      bind
                        (if s.sc_lws
                         then next_is_document_indicator ops
                         else ret false) (fun di ->
                        bind (peek ops) (fun c ->
                          if (||) di
                               (N.eqb c (Npos (XI (XI (XO (XO (XO XH)))))))
                          then ret (acc, endm)
                          else bind (peekn ops (S O)) (fun nc ->
                                 let fl = N.ltb N0 s.sc_flow_level in
                                 if (&&)
                                      ((&&) fl
                                        (N.eqb c (Npos (XI (XO (XI (XI (XO
                                          XH)))))))) (is_flow nc)
                                 then fail (Npos (XO (XO (XI (XI (XO (XO
                                        XH))))))) s.sc_mark
                                 else bind
                                        (if is_blank_or_breakz c
                                         then ret false
                                         else next_can_be_plain_scalar ops fl)
                                        (fun cb ->
                                        bind
                                          (if cb
                                           then if s.sc_lws
                                                then if negb lb
                                                     then let p =
                                                            (((nls tb acc),
                                                            false), N0)
                                                          in
                                                          let (p0, tb0) = p in
                                                          let (acc0, lb0) = p0
                                                          in
                                                          bind
                                                            (modify
                                                              (set_lws false))
                                                            (fun _ ->
                                                            bind
                                                              (skip_non_blank
                                                                ops)
                                                              (fun _ ->
                                                              bind
                                                                (look ops
                                                                  ops.bufmaxlen)
                                                                (fun _ ->
                                                                bind
                                                                  (plain_chunk
                                                                    ops f O
                                                                    (c :: acc0))
                                                                  (fun acc1 ->
                                                                  bind mark
                                                                    (fun m0 ->
                                                                    ret
                                                                    ((((acc1,
                                                                    lb0),
                                                                    tb0),
                                                                    ws), m0))))))
                                                     else if N.eqb tb N0
                                                          then let p =
                                                                 ((((Npos (XO
                                                                 (XO (XO (XO
                                                                 (XO
                                                                 XH)))))) :: acc),
                                                                 false), N0)
                                                               in
                                                               let (p0, tb0) =
                                                                 p
                                                               in
                                                               let (acc0, lb0) =
                                                                 p0
                                                               in
                                                               bind
                                                                 (modify
                                                                   (set_lws
                                                                    false))
                                                                 (fun _ ->
                                                                 bind
                                                                   (skip_non_blank
                                                                    ops)
                                                                   (fun _ ->
                                                                   bind
                                                                    (look ops
                                                                    ops.bufmaxlen)
                                                                    (fun _ ->
                                                                    bind
                                                                    (plain_chunk
                                                                    ops f O
                                                                    (c :: acc0))
                                                                    (fun acc1 ->
                                                                    bind mark
                                                                    (fun m0 ->
                                                                    ret
                                                                    ((((acc1,
                                                                    lb0),
                                                                    tb0),
                                                                    ws), m0))))))
                                                          else let p =
                                                                 (((nls tb
                                                                    acc),
                                                                 false), N0)
                                                               in
                                                               let (p0, tb0) =
                                                                 p
                                                               in
                                                               let (acc0, lb0) =
                                                                 p0
                                                               in
                                                               bind
                                                                 (modify
                                                                   (set_lws
                                                                    false))
                                                                 (fun _ ->
                                                                 bind
                                                                   (skip_non_blank
                                                                    ops)
                                                                   (fun _ ->
                                                                   bind
                                                                    (look ops
                                                                    ops.bufmaxlen)
                                                                    (fun _ ->
                                                                    bind
                                                                    (plain_chunk
                                                                    ops f O
                                                                    (c :: acc0))
                                                                    (fun acc1 ->
                                                                    bind mark
                                                                    (fun m0 ->
                                                                    ret
                                                                    ((((acc1,
                                                                    lb0),
                                                                    tb0),
                                                                    ws), m0))))))
                                                else let p = (((app ws acc),
                                                       lb), tb)
                                                     in
                                                     let ws0 = [] in
                                                     let (p0, tb0) = p in
                                                     let (acc0, lb0) = p0 in
                                                     bind
                                                       (modify
                                                         (set_lws false))
                                                       (fun _ ->
                                                       bind
                                                         (skip_non_blank ops)
                                                         (fun _ ->
                                                         bind
                                                           (look ops
                                                             ops.bufmaxlen)
                                                           (fun _ ->
                                                           bind
                                                             (plain_chunk ops
                                                               f O
                                                               (c :: acc0))
                                                             (fun acc1 ->
                                                             bind mark
                                                               (fun m0 ->
                                                               ret ((((acc1,
                                                                 lb0), tb0),
                                                                 ws0), m0))))))
                                           else ret ((((acc, lb), tb), ws),
                                                  endm)) (fun r ->
                                          let (p, endm0) = r in
                                          let (p0, ws0) = p in
                                          let (p1, tb0) = p0 in
                                          let (acc0, lb0) = p1 in
                                          bind (peek ops) (fun c0 ->
                                            if negb
                                                 ((||) (is_blank c0)
                                                   (is_break c0))
                                            then ret (acc0, endm0)
                                            else bind (look ops (S (S O)))
                                                   (fun _ ->
                                                   bind
                                                     (plain_blanks ops f f
                                                       indent start lb0 tb0
                                                       ws0) (fun r0 ->
                                                     let (p2, ws1) = r0 in
                                                     let (lb1, tb1) = p2 in
                                                     bind get (fun s1 ->
                                                       if (&&)
                                                            (N.eqb
                                                              s1.sc_flow_level
                                                              N0)
                                                            (Z.ltb
                                                              (Z.of_N
                                                                s1.sc_mark.m_col)
                                                              indent)
                                                       then ret (acc0, endm0)
                                                       else go f1 acc0 lb1
                                                              tb1 ws1 endm0)))))))))))
              in go f [] false N0 [] start) (fun r ->
             bind get (fun s ->
               bind (if s.sc_lws then allow_simple_key else ret ()) (fun _ ->
                 match fst r with
                 | [] -> fail (Npos (XO (XI (XI (XI (XO (XO XH))))))) start
                 | _ :: _ ->
                   ret ({ sp_start = start; sp_end = (snd r) }, (TScalar
                     (Plain, (rev (fst r))))))))))

type chomping =
| Strip
| Clip
| Keep

(** val scan_block_scalar_content_line :
    'a1 inputOps -> nat -> chr list -> ('a1, chr list) m **)

let scan_block_scalar_content_line ops f acc =
  bind
    (let rec go f0 acc0 =
       match f0 with
       | O -> oof
       | S f1 ->
         bind (buf_is_empty ops) (fun e ->
           if e
           then ret acc0
           else bind (peek ops) (fun c ->
                  if is_breakz c
                  then ret acc0
                  else bind (skip_blank ops) (fun _ -> go f1 (c :: acc0))))
     in go f acc) (fun acc0 ->
    bind (buf_is_empty ops) (fun e ->
      if e
      then let rec raw f0 acc1 n0 =
             match f0 with
             | O -> oof
             | S f1 ->
               bind (raw_read ops) (fun c ->
                 match c with
                 | Some c0 -> raw f1 (c0 :: acc1) (N.add n0 (Npos XH))
                 | None -> bind (adv_mark n0) (fun _ -> ret acc1))
           in raw f acc0 N0
      else ret acc0))

(** val col : ('a1, n) m **)

let col x =
  gets (fun s -> s.sc_mark.m_col) x

(** val skip_spaces_to : 'a1 inputOps -> nat -> n -> bool -> ('a1, unit) m **)

let rec skip_spaces_to ops fuel indent check_buf =
  match fuel with
  | O -> oof
  | S fuel0 ->
    bind (if check_buf then buf_is_empty ops else ret false) (fun e ->
      bind col (fun k ->
        if (||) e (negb (N.ltb k indent))
        then ret ()
        else bind (peek ops) (fun c ->
               if N.eqb c (Npos (XO (XO (XO (XO (XO XH))))))
               then bind (skip_blank ops) (fun _ ->
                      skip_spaces_to ops fuel0 indent check_buf)
               else ret ())))

(** val skip_block_scalar_indent :
    'a1 inputOps -> nat -> nat -> n -> n -> ('a1, n) m **)

let rec skip_block_scalar_indent ops f fuel indent breaks =
  match fuel with
  | O -> oof
  | S fuel0 ->
    bind
      (if Nat.ltb ops.bufmaxlen (S (S O))
       then panic (Npos (XI (XO (XO (XI (XI (XI XH)))))))
       else ret ()) (fun _ ->
      bind
        (if N.ltb indent (N.of_nat (sub ops.bufmaxlen (S (S O))))
         then bind (look ops ops.bufmaxlen) (fun _ ->
                skip_spaces_to ops f indent false)
         else bind
                (let rec wide = function
                 | O -> oof
                 | S f1 ->
                   bind (look ops ops.bufmaxlen) (fun _ ->
                     bind (skip_spaces_to ops f indent true) (fun _ ->
                       bind col (fun k ->
                         bind (buf_is_empty ops) (fun e ->
                           bind
                             (if e
                              then ret (Npos (XO (XO (XO (XO (XO XH))))))
                              else peek ops) (fun c ->
                             if (||) (N.eqb k indent)
                                  ((&&) (negb e)
                                    (negb
                                      (N.eqb c (Npos (XO (XO (XO (XO (XO
                                        XH)))))))))
                             then ret ()
                             else wide f1)))))
                 in wide f) (fun _ -> look ops (S (S O)))) (fun _ ->
        bind (next_is ops is_break) (fun b ->
          if b
          then bind (skip_break ops) (fun _ ->
                 skip_block_scalar_indent ops f fuel0 indent
                   (N.add breaks (Npos XH)))
          else ret breaks)))

(** val skip_first_line_indent :
    'a1 inputOps -> nat -> nat -> n -> n -> ('a1, n * n) m **)

let rec skip_first_line_indent ops f fuel maxi breaks =
  match fuel with
  | O -> oof
  | S fuel0 ->
    bind
      (let rec sp = function
       | O -> oof
       | S f1 ->
         bind (look_ch ops) (fun c ->
           if N.eqb c (Npos (XO (XO (XO (XO (XO XH))))))
           then bind (skip_blank ops) (fun _ -> sp f1)
           else ret ())
       in sp f) (fun _ ->
      bind col (fun k ->
        let maxi0 = N.max maxi k in
        bind (next_is ops is_break) (fun b ->
          if b
          then bind (look ops (S (S O))) (fun _ ->
                 bind (skip_break ops) (fun _ ->
                   skip_first_line_indent ops f fuel0 maxi0
                     (N.add breaks (Npos XH))))
          else ret (maxi0, breaks))))

(** val scan_block_scalar : 'a1 inputOps -> nat -> bool -> ('a1, token) m **)

let scan_block_scalar ops f literal =
  bind mark (fun start ->
    let style0 = if literal then Literal else Folded in
    bind (skip_non_blank ops) (fun _ ->
      bind unroll_non_block_indents (fun _ ->
        bind (look_ch ops) (fun c ->
          let chomp_of = fun c0 ->
            if N.eqb c0 (Npos (XI (XI (XO (XI (XO XH))))))
            then Keep
            else Strip
          in
          bind
            (if (||) (N.eqb c (Npos (XI (XI (XO (XI (XO XH)))))))
                  (N.eqb c (Npos (XI (XO (XI (XI (XO XH)))))))
             then bind (skip_non_blank ops) (fun _ ->
                    bind (look ops (S O)) (fun _ ->
                      bind (peek ops) (fun d ->
                        if is_digit d
                        then if N.eqb d (Npos (XO (XO (XO (XO (XI XH))))))
                             then fail (Npos (XO (XO (XO (XO (XI (XO
                                    XH))))))) start
                             else bind (skip_non_blank ops) (fun _ ->
                                    ret ((chomp_of c),
                                      (N.sub d (Npos (XO (XO (XO (XO (XI
                                        XH)))))))))
                        else ret ((chomp_of c), N0))))
             else if is_digit c
                  then if N.eqb c (Npos (XO (XO (XO (XO (XI XH))))))
                       then fail (Npos (XO (XO (XO (XO (XI (XO XH))))))) start
                       else bind (skip_non_blank ops) (fun _ ->
                              bind (look ops (S O)) (fun _ ->
                                bind (peek ops) (fun d ->
                                  if (||)
                                       (N.eqb d (Npos (XI (XI (XO (XI (XO
                                         XH)))))))
                                       (N.eqb d (Npos (XI (XO (XI (XI (XO
                                         XH)))))))
                                  then bind (skip_non_blank ops) (fun _ ->
                                         ret ((chomp_of d),
                                           (N.sub c (Npos (XO (XO (XO (XO (XI
                                             XH)))))))))
                                  else ret (Clip,
                                         (N.sub c (Npos (XO (XO (XO (XO (XI
                                           XH)))))))))))
                  else ret (Clip, N0)) (fun hd0 ->
            let (chomp, increment) = hd0 in
            bind (skip_ws_to_eol ops f SkipYes) (fun _ ->
              bind (look ops (S O)) (fun _ ->
                bind (peek ops) (fun c0 ->
                  if negb (is_breakz c0)
                  then fail (Npos (XI (XO (XO (XO (XI (XO XH))))))) start
                  else bind
                         (if is_break c0
                          then bind (look ops (S (S O))) (fun _ ->
                                 bind (skip_break ops) (fun _ ->
                                   ret (Npos XH)))
                          else ret N0) (fun cbreak ->
                         bind (look_ch ops) (fun c1 ->
                           if N.eqb c1 (Npos (XI (XO (XO XH))))
                           then fail (Npos (XO (XI (XO (XO (XI (XO XH)))))))
                                  start
                           else bind get (fun s ->
                                  let indent0 =
                                    if N.ltb N0 increment
                                    then if Z.leb Z0 s.sc_indent
                                         then Z.to_N
                                                (Z.add s.sc_indent
                                                  (Z.of_N increment))
                                         else increment
                                    else N0
                                  in
                                  bind
                                    (if N.eqb indent0 N0
                                     then bind
                                            (skip_first_line_indent ops f f
                                              N0 N0) (fun r ->
                                            let i =
                                              N.max (fst r)
                                                (Z.to_N
                                                  (Z.add s.sc_indent (Zpos
                                                    XH)))
                                            in
                                            ret
                                              ((if Z.ltb Z0 s.sc_indent
                                                then N.max i (Npos XH)
                                                else i), (snd r)))
                                     else bind
                                            (skip_block_scalar_indent ops f f
                                              indent0 N0) (fun b ->
                                            ret (indent0, b))) (fun ib ->
                                    let (indent, tbreaks) = ib in
                                    bind (next_is ops is_z) (fun z0 ->
                                      bind get (fun s0 ->
                                        if z0
                                        then let contents =
                                               match chomp with
                                               | Strip -> N0
                                               | _ ->
                                                 if N.eqb s0.sc_mark.m_line
                                                      start.m_line
                                                 then N0
                                                 else (match chomp with
                                                       | Clip -> cbreak
                                                       | _ ->
                                                         if N.eqb tbreaks N0
                                                         then cbreak
                                                         else tbreaks)
                                             in
                                             ret ({ sp_start = start;
                                               sp_end = s0.sc_mark },
                                               (TScalar (style0,
                                               (nls contents []))))
                                        else if (&&)
                                                  (N.ltb s0.sc_mark.m_col
                                                    indent)
                                                  (Z.ltb s0.sc_indent
                                                    (Z.of_N s0.sc_mark.m_col))
                                             then fail (Npos (XI (XI (XO (XO
                                                    (XI (XO XH)))))))
                                                    s0.sc_mark
                                             else let cstart = s0.sc_mark in
                                                  bind
                                                    (let rec go f0 acc lb tb leading_blank =
                                                       match f0 with
                                                       | O -> oof
                                                       | S f1 ->
                                                         bind col (fun k ->
                                                           bind
                                                             (next_is ops
                                                               is_z)
                                                             (fun z1 ->
                                                             if (||)
                                                                  (negb
                                                                    (N.eqb k
                                                                    indent))
                                                                  z1
                                                             then ret ((acc,
                                                                    lb), tb)
                                                             else bind
                                                                    (
                                                                    if 
                                                                    N.eqb
                                                                    indent N0
                                                                    then 
                                                                    bind
                                                                    (look ops
                                                                    (S (S (S
                                                                    (S O)))))
                                                                    (fun _ ->
                                                                    next_is_document_end
                                                                    ops)
                                                                    else 
                                                                    ret false)
                                                                    (fun de ->
                                                                    if de
                                                                    then 
                                                                    ret
                                                                    ((acc,
                                                                    lb), tb)
                                                                    else 
                                                                    bind
                                                                    (next_is
                                                                    ops
                                                                    is_blank)
                                                                    (fun trailing_blank ->
                                                                    let acc0 =
                                                                    if 
                                                                    (&&)
                                                                    ((&&)
                                                                    ((&&)
                                                                    (negb
                                                                    literal)
                                                                    (negb
                                                                    (N.eqb lb
                                                                    N0)))
                                                                    (negb
                                                                    leading_blank))
                                                                    (negb
                                                                    trailing_blank)
                                                                    then 
                                                                    if 
                                                                    N.eqb tb
                                                                    N0
                                                                    then 
                                                                    (Npos (XO
                                                                    (XO (XO
                                                                    (XO (XO
                                                                    XH)))))) :: acc
                                                                    else 
                                                                    nls tb acc
                                                                    else 
                                                                    nls tb
                                                                    (nls lb
                                                                    acc)
                                                                    in
                                                                    bind
                                                                    (scan_block_scalar_content_line
                                                                    ops f
                                                                    acc0)
                                                                    (fun acc1 ->
                                                                    bind
                                                                    (look ops
                                                                    (S (S O)))
                                                                    (fun _ ->
                                                                    bind
                                                                    (next_is
                                                                    ops is_z)
                                                                    (fun z2 ->
                                                                    if z2
                                                                    then 
                                                                    ret
                                                                    ((acc1,
                                                                    N0), N0)
                                                                    else 
                                                                    bind
                                                                    (skip_break
                                                                    ops)
                                                                    (fun _ ->
                                                                    bind
                                                                    (skip_block_scalar_indent
                                                                    ops f f
                                                                    indent N0)
                                                                    (fun tb0 ->
                                                                    go f1
                                                                    acc1
                                                                    (Npos XH)
                                                                    tb0
                                                                    trailing_blank)))))))))
                                                     in go f [] N0 tbreaks
                                                          false) (fun r ->
                                                    let (p, tb) = r in
                                                    let (acc, lb) = p in
                                                    bind (next_is ops is_z)
                                                      (fun z1 ->
                                                      bind col (fun k ->
                                                        let acc0 =
                                                          match chomp with
                                                          | Strip -> acc
                                                          | _ ->
                                                            let acc0 =
                                                              nls lb acc
                                                            in
                                                            if (&&) z1
                                                                 (N.leb
                                                                   (N.max
                                                                    indent
                                                                    (Npos XH))
                                                                   k)
                                                            then (Npos (XO
                                                                   (XI (XO
                                                                   XH)))) :: acc0
                                                            else acc0
                                                        in
                                                        let acc1 =
                                                          match chomp with
                                                          | Keep ->
                                                            nls tb acc0
                                                          | _ -> acc0
                                                        in
                                                        bind mark (fun m0 ->
                                                          ret ({ sp_start =
                                                            cstart; sp_end =
                                                            m0 }, (TScalar
                                                            (style0,
                                                            (rev acc1))))))))))))))))))))))

(** val spn : marker -> marker -> span **)

let spn a b =
  { sp_start = a; sp_end = b }

(** val fetch_stream_start : ('a1, unit) m **)

let fetch_stream_start x =
  bind get (fun s ->
    let s0 = set_ss true (set_indent (Zneg XH) s.sc_indents s) in
    let s1 = set_ska true s0 in
    let s2 =
      set_tokens
        (app s1.sc_tokens (((span_empty s1.sc_mark), TStreamStart) :: [])) s1
    in
    put
      (set_sks ({ sk_possible = false; sk_required = false; sk_token_number =
        N0; sk_mark = mk0 } :: s2.sc_sks) s2)) x

(** val fetch_stream_end : ('a1, unit) m **)

let fetch_stream_end x =
  bind
    (modify (fun s ->
      if N.eqb s.sc_mark.m_col N0
      then s
      else set_mark { m_index = s.sc_mark.m_index; m_line =
             (N.add s.sc_mark.m_line (Npos XH)); m_col = N0 } s)) (fun _ ->
    bind get (fun s ->
      if existsb (fun k -> (&&) k.sk_required k.sk_possible) s.sc_sks
      then fail (Npos (XO (XI (XO (XI (XI (XO XH))))))) s.sc_mark
      else bind
             (put
               (set_sks
                 (map (fun k -> { sk_possible = false; sk_required =
                   k.sk_required; sk_token_number = k.sk_token_number;
                   sk_mark = k.sk_mark }) s.sc_sks) s)) (fun _ ->
             bind (unroll_indent (Zneg XH)) (fun _ ->
               bind remove_simple_key (fun _ ->
                 bind disallow_simple_key (fun _ ->
                   bind mark (fun m0 ->
                     push_tok ((span_empty m0), TStreamEnd)))))))) x

(** val fetch_directive : 'a1 inputOps -> nat -> ('a1, unit) m **)

let fetch_directive ops f =
  bind (unroll_indent (Zneg XH)) (fun _ ->
    bind remove_simple_key (fun _ ->
      bind disallow_simple_key (fun _ -> bind (scan_directive ops f) push_tok)))

(** val fetch_tag : 'a1 inputOps -> nat -> ('a1, unit) m **)

let fetch_tag ops f =
  bind save_simple_key (fun _ ->
    bind disallow_simple_key (fun _ -> bind (scan_tag ops f) push_tok))

(** val fetch_anchor : 'a1 inputOps -> nat -> bool -> ('a1, unit) m **)

let fetch_anchor ops f alias =
  bind save_simple_key (fun _ ->
    bind disallow_simple_key (fun _ ->
      bind (scan_anchor ops f alias) push_tok))

(** val fetch_flow_collection_start :
    'a1 inputOps -> nat -> bool -> ('a1, unit) m **)

let fetch_flow_collection_start ops f seq =
  bind save_simple_key (fun _ ->
    bind roll_one_col_indent (fun _ ->
      bind increase_flow_level (fun _ ->
        bind allow_simple_key (fun _ ->
          bind mark (fun start ->
            bind (skip_non_blank ops) (fun _ ->
              bind
                (if seq
                 then modify (fun s -> set_ifms (ImPossible :: s.sc_ifms) s)
                 else modify (set_fms true)) (fun _ ->
                bind (skip_ws_to_eol ops f SkipYes) (fun _ ->
                  bind mark (fun m0 ->
                    push_tok ((spn start m0),
                      (if seq then TFlowSequenceStart else TFlowMappingStart)))))))))))

(** val fetch_flow_collection_end :
    'a1 inputOps -> nat -> bool -> ('a1, unit) m **)

let fetch_flow_collection_end ops f seq =
  bind remove_simple_key (fun _ ->
    bind decrease_flow_level (fun _ ->
      bind disallow_simple_key (fun _ ->
        bind
          (if seq
           then bind mark (fun m0 ->
                  bind (end_implicit_mapping m0) (fun _ ->
                    modify (fun s -> set_ifms (tl s.sc_ifms) s)))
           else ret ()) (fun _ ->
          bind mark (fun start ->
            bind (skip_non_blank ops) (fun _ ->
              bind (skip_ws_to_eol ops f SkipYes) (fun _ ->
                bind
                  (modify (fun s ->
                    if N.ltb N0 s.sc_flow_level
                    then set_adj s.sc_mark.m_index s
                    else s)) (fun _ ->
                  bind mark (fun m0 ->
                    push_tok ((spn start m0),
                      (if seq then TFlowSequenceEnd else TFlowMappingEnd)))))))))))

(** val fetch_flow_entry : 'a1 inputOps -> nat -> ('a1, unit) m **)

let fetch_flow_entry ops f =
  bind remove_simple_key (fun _ ->
    bind allow_simple_key (fun _ ->
      bind mark (fun m0 ->
        bind (end_implicit_mapping m0) (fun _ ->
          bind (skip_non_blank ops) (fun _ ->
            bind (skip_ws_to_eol ops f SkipYes) (fun _ ->
              bind mark (fun e -> push_tok ((spn m0 e), TFlowEntry))))))))

(** val fetch_block_entry : 'a1 inputOps -> nat -> ('a1, unit) m **)

let fetch_block_entry ops f =
  bind get (fun s ->
    if N.ltb N0 s.sc_flow_level
    then fail (Npos (XI (XI (XO (XI (XI (XO XH))))))) s.sc_mark
    else if negb s.sc_ska
         then fail (Npos (XO (XO (XI (XI (XI (XO XH))))))) s.sc_mark
         else bind
                (let (sp, t) = last s.sc_tokens ((span_empty mk0), TStreamEnd)
                 in
                 (match t with
                  | TAnchor _ ->
                    if (&&)
                         ((&&)
                           ((&&)
                             (match s.sc_tokens with
                              | [] -> false
                              | _ :: _ -> true) (N.eqb s.sc_mark.m_col N0))
                           (N.eqb sp.sp_start.m_col N0))
                         (Z.ltb (Zneg XH) s.sc_indent)
                    then fail (Npos (XI (XO (XI (XI (XI (XO XH)))))))
                           sp.sp_start
                    else ret ()
                  | TTag (_, _) ->
                    if (&&)
                         ((&&)
                           ((&&)
                             (match s.sc_tokens with
                              | [] -> false
                              | _ :: _ -> true) (N.eqb s.sc_mark.m_col N0))
                           (N.eqb sp.sp_start.m_col N0))
                         (Z.ltb (Zneg XH) s.sc_indent)
                    then fail (Npos (XI (XO (XI (XI (XI (XO XH)))))))
                           sp.sp_start
                    else ret ()
                  | _ -> ret ())) (fun _ ->
                let mk = s.sc_mark in
                bind (skip_non_blank ops) (fun _ ->
                  bind (roll_indent mk.m_col None TBlockSequenceStart mk)
                    (fun _ ->
                    bind (skip_ws_to_eol ops f SkipYes) (fun tw ->
                      bind (look ops (S (S O))) (fun _ ->
                        bind (peek ops) (fun c ->
                          bind (peekn ops (S O)) (fun nc ->
                            if (&&)
                                 ((&&) (fst tw)
                                   (N.eqb c (Npos (XI (XO (XI (XI (XO
                                     XH)))))))) (is_blank_or_breakz nc)
                            then bind mark (fun m0 ->
                                   fail (Npos (XO (XI (XI (XI (XI (XO
                                     XH))))))) m0)
                            else bind (skip_ws_to_eol ops f SkipNo) (fun _ ->
                                   bind (look ops (S O)) (fun _ ->
                                     bind (peek ops) (fun c0 ->
                                       bind
                                         (if (||) (is_break c0) (is_flow c0)
                                          then roll_one_col_indent
                                          else ret ()) (fun _ ->
                                         bind remove_simple_key (fun _ ->
                                           bind allow_simple_key (fun _ ->
                                             bind mark (fun m0 ->
                                               push_tok ((span_empty m0),
                                                 TBlockEntry))))))))))))))))

(** val fetch_document_indicator : 'a1 inputOps -> tok -> ('a1, unit) m **)

let fetch_document_indicator ops t =
  bind (unroll_indent (Zneg XH)) (fun _ ->
    bind remove_simple_key (fun _ ->
      bind disallow_simple_key (fun _ ->
        bind mark (fun m0 ->
          bind (skip_n_non_blank ops (S (S (S O)))) (fun _ ->
            bind mark (fun e -> push_tok ((spn m0 e), t)))))))

(** val fetch_block_scalar : 'a1 inputOps -> nat -> bool -> ('a1, unit) m **)

let fetch_block_scalar ops f literal =
  bind save_simple_key (fun _ ->
    bind allow_simple_key (fun _ ->
      bind (scan_block_scalar ops f literal) push_tok))

(** val fetch_flow_scalar : 'a1 inputOps -> nat -> bool -> ('a1, unit) m **)

let fetch_flow_scalar ops f single =
  bind save_simple_key (fun _ ->
    bind disallow_simple_key (fun _ ->
      bind (scan_flow_scalar ops f single) (fun t ->
        bind (skip_to_next_token ops f) (fun _ ->
          bind (modify (fun s -> set_adj s.sc_mark.m_index s)) (fun _ ->
            push_tok t)))))

(** val fetch_plain_scalar : 'a1 inputOps -> nat -> ('a1, unit) m **)

let fetch_plain_scalar ops f =
  bind save_simple_key (fun _ ->
    bind disallow_simple_key (fun _ ->
      bind (scan_plain_scalar ops f) push_tok))

(** val fetch_key : 'a1 inputOps -> nat -> ('a1, unit) m **)

let fetch_key ops f =
  bind get (fun s ->
    let start = s.sc_mark in
    bind
      (if N.eqb s.sc_flow_level N0
       then if negb s.sc_ska
            then fail (Npos (XI (XI (XI (XI (XI (XO XH))))))) s.sc_mark
            else roll_indent start.m_col None TBlockMappingStart start
       else modify (set_fms true)) (fun _ ->
      bind remove_simple_key (fun _ ->
        bind
          (if N.eqb s.sc_flow_level N0
           then allow_simple_key
           else disallow_simple_key) (fun _ ->
          bind (skip_non_blank ops) (fun _ ->
            bind (skip_yaml_whitespace ops f) (fun _ ->
              bind (peek ops) (fun c ->
                if N.eqb c (Npos (XI (XO (XO XH))))
                then bind mark (fun m0 ->
                       fail (Npos (XO (XO (XO (XO (XO (XI XH))))))) m0)
                else bind mark (fun m0 -> push_tok ((spn start m0), TKey)))))))))

(** val fetch_value : 'a1 inputOps -> nat -> ('a1, unit) m **)

let fetch_value ops f =
  bind get (fun s ->
    bind
      (match s.sc_sks with
       | [] -> panic (Npos (XI (XO (XI (XO (XI (XI XH)))))))
       | k :: _ -> ret k) (fun sk ->
      let start = s.sc_mark in
      let is_ifm =
        (&&) (match s.sc_ifms with
              | [] -> false
              | _ :: _ -> true) (negb s.sc_fms)
      in
      bind
        (if is_ifm
         then modify (fun s0 -> set_ifms (ImInside :: (tl s0.sc_ifms)) s0)
         else ret ()) (fun _ ->
        bind (skip_non_blank ops) (fun _ ->
          bind (look_ch ops) (fun c ->
            bind
              (if N.eqb c (Npos (XI (XO (XO XH))))
               then bind (skip_ws_to_eol ops f SkipYes) (fun tw ->
                      if negb (snd tw)
                      then bind (peek ops) (fun c0 ->
                             if (||)
                                  (N.eqb c0 (Npos (XI (XO (XI (XI (XO
                                    XH))))))) (is_alpha c0)
                             then bind mark (fun m0 ->
                                    fail (Npos (XI (XO (XO (XO (XO (XI
                                      XH))))))) m0)
                             else ret ())
                      else ret ())
               else ret ()) (fun _ ->
              if sk.sk_possible
              then bind get (fun s0 ->
                     bind
                       (if N.ltb sk.sk_token_number s0.sc_tokens_parsed
                        then panic (Npos (XO (XI (XI (XO (XI (XI XH)))))))
                        else ret ()) (fun _ ->
                       bind
                         (insert_token
                           (N.sub sk.sk_token_number s0.sc_tokens_parsed)
                           ((span_empty sk.sk_mark), TKey)) (fun _ ->
                         bind
                           (if is_ifm
                            then if N.ltb sk.sk_mark.m_line start.m_line
                                 then fail (Npos (XO (XI (XO (XO (XO (XI
                                        XH))))))) start
                                 else insert_token
                                        (N.sub sk.sk_token_number
                                          s0.sc_tokens_parsed)
                                        ((span_empty sk.sk_mark),
                                        TFlowMappingStart)
                            else ret ()) (fun _ ->
                           bind
                             (roll_indent sk.sk_mark.m_col (Some
                               sk.sk_token_number) TBlockMappingStart
                               sk.sk_mark) (fun _ ->
                             bind roll_one_col_indent (fun _ ->
                               bind
                                 (modify (fun s1 ->
                                   match s1.sc_sks with
                                   | [] -> s1
                                   | k :: r ->
                                     set_sks ({ sk_possible = false;
                                       sk_required = k.sk_required;
                                       sk_token_number = k.sk_token_number;
                                       sk_mark = k.sk_mark } :: r) s1))
                                 (fun _ ->
                                 bind disallow_simple_key (fun _ ->
                                   push_tok ((span_empty start), TValue)))))))))
              else bind
                     (if is_ifm
                      then push_tok ((span_empty start), TFlowMappingStart)
                      else ret ()) (fun _ ->
                     bind get (fun s0 ->
                       bind
                         (if N.eqb s0.sc_flow_level N0
                          then if negb s0.sc_ska
                               then fail (Npos (XI (XI (XO (XO (XO (XI
                                      XH))))))) start
                               else roll_indent start.m_col None
                                      TBlockMappingStart start
                          else ret ()) (fun _ ->
                         bind roll_one_col_indent (fun _ ->
                           bind
                             (if N.eqb s0.sc_flow_level N0
                              then allow_simple_key
                              else disallow_simple_key) (fun _ ->
                             push_tok ((span_empty start), TValue))))))))))))

(** val fetch_flow_value : 'a1 inputOps -> nat -> ('a1, unit) m **)

let fetch_flow_value ops f =
  bind (peekn ops (S O)) (fun nc ->
    bind get (fun s ->
      if (&&) (negb (N.eqb s.sc_mark.m_index s.sc_adjacent))
           ((||) (N.eqb nc (Npos (XI (XI (XO (XI (XI (XO XH))))))))
             (N.eqb nc (Npos (XI (XI (XO (XI (XI (XI XH)))))))))
      then fail (Npos (XO (XO (XI (XO (XO (XI XH))))))) s.sc_mark
      else fetch_value ops f))

(** val fetch_next_token : 'a1 inputOps -> nat -> ('a1, unit) m **)

let fetch_next_token ops f =
  bind (look ops (S O)) (fun _ ->
    bind get (fun s ->
      if negb s.sc_stream_start
      then fetch_stream_start
      else bind (skip_to_next_token ops f) (fun _ ->
             bind stale_simple_keys (fun _ ->
               bind mark (fun m0 ->
                 bind (unroll_indent (Z.of_N m0.m_col)) (fun _ ->
                   bind (look ops (S (S (S (S O))))) (fun _ ->
                     bind (next_is ops is_z) (fun z0 ->
                       if z0
                       then fetch_stream_end
                       else bind get (fun s0 ->
                              bind (peek ops) (fun c0 ->
                                bind
                                  (if N.eqb s0.sc_mark.m_col N0
                                   then if N.eqb c0 (Npos (XI (XO (XI (XO (XO
                                             XH))))))
                                        then ret false
                                        else next_is_document_start ops
                                   else ret false) (fun dstart ->
                                  bind
                                    (if (&&)
                                          ((&&) (N.eqb s0.sc_mark.m_col N0)
                                            (negb
                                              (N.eqb c0 (Npos (XI (XO (XI (XO
                                                (XO XH))))))))) (negb dstart)
                                     then next_is_document_end ops
                                     else ret false) (fun dend ->
                                    if (&&) (N.eqb s0.sc_mark.m_col N0)
                                         (N.eqb c0 (Npos (XI (XO (XI (XO (XO
                                           XH)))))))
                                    then fetch_directive ops f
                                    else if dstart
                                         then fetch_document_indicator ops
                                                TDocumentStart
                                         else if dend
                                              then bind
                                                     (fetch_document_indicator
                                                       ops TDocumentEnd)
                                                     (fun _ ->
                                                     bind
                                                       (skip_ws_to_eol ops f
                                                         SkipYes) (fun _ ->
                                                       bind
                                                         (next_is ops
                                                           is_breakz)
                                                         (fun b ->
                                                         if b
                                                         then ret ()
                                                         else bind mark
                                                                (fun m1 ->
                                                                fail (Npos
                                                                  (XI (XO (XI
                                                                  (XO (XO (XI
                                                                  XH))))))) m1))))
                                              else if Z.ltb
                                                        (Z.of_N
                                                          s0.sc_mark.m_col)
                                                        s0.sc_indent
                                                   then fail (Npos (XO (XI
                                                          (XI (XO (XO (XI
                                                          XH))))))) s0.sc_mark
                                                   else bind (peek ops)
                                                          (fun c ->
                                                          bind
                                                            (peekn ops (S O))
                                                            (fun nc ->
                                                            let fl =
                                                              N.ltb N0
                                                                s0.sc_flow_level
                                                            in
                                                            let bz =
                                                              is_blank_or_breakz
                                                                nc
                                                            in
                                                            if N.eqb c (Npos
                                                                 (XI (XI (XO
                                                                 (XI (XI (XO
                                                                 XH)))))))
                                                            then fetch_flow_collection_start
                                                                   ops f true
                                                            else if N.eqb c
                                                                    (Npos (XI
                                                                    (XI (XO
                                                                    (XI (XI
                                                                    (XI
                                                                    XH)))))))
                                                                 then 
                                                                   fetch_flow_collection_start
                                                                    ops f
                                                                    false
                                                                 else 
                                                                   if 
                                                                    N.eqb c
                                                                    (Npos (XI
                                                                    (XO (XI
                                                                    (XI (XI
                                                                    (XO
                                                                    XH)))))))
                                                                   then 
                                                                    fetch_flow_collection_end
                                                                    ops f true
                                                                   else 
                                                                    if 
                                                                    N.eqb c
                                                                    (Npos (XI
                                                                    (XO (XI
                                                                    (XI (XI
                                                                    (XI
                                                                    XH)))))))
                                                                    then 
                                                                    fetch_flow_collection_end
                                                                    ops f
                                                                    false
                                                                    else 
                                                                    if 
                                                                    N.eqb c
                                                                    (Npos (XO
                                                                    (XO (XI
                                                                    (XI (XO
                                                                    XH))))))
                                                                    then 
                                                                    fetch_flow_entry
                                                                    ops f
                                                                    else 
                                                                    if 
                                                                    (&&)
                                                                    (N.eqb c
                                                                    (Npos (XI
                                                                    (XO (XI
                                                                    (XI (XO
                                                                    XH)))))))
                                                                    bz
                                                                    then 
                                                                    fetch_block_entry
                                                                    ops f
                                                                    else 
                                                                    if 
                                                                    (&&)
                                                                    (N.eqb c
                                                                    (Npos (XI
                                                                    (XI (XI
                                                                    (XI (XI
                                                                    XH)))))))
                                                                    bz
                                                                    then 
                                                                    fetch_key
                                                                    ops f
                                                                    else 
                                                                    if 
                                                                    (&&)
                                                                    (N.eqb c
                                                                    (Npos (XO
                                                                    (XI (XO
                                                                    (XI (XI
                                                                    XH)))))))
                                                                    bz
                                                                    then 
                                                                    fetch_value
                                                                    ops f
                                                                    else 
                                                                    if 
                                                                    (&&)
                                                                    ((&&)
                                                                    (N.eqb c
                                                                    (Npos (XO
                                                                    (XI (XO
                                                                    (XI (XI
                                                                    XH)))))))
                                                                    fl)
                                                                    ((||)
                                                                    (is_flow
                                                                    nc)
                                                                    (N.eqb
                                                                    s0.sc_mark.m_index
                                                                    s0.sc_adjacent))
                                                                    then 
                                                                    fetch_flow_value
                                                                    ops f
                                                                    else 
                                                                    if 
                                                                    N.eqb c
                                                                    (Npos (XO
                                                                    (XI (XO
                                                                    (XI (XO
                                                                    XH))))))
                                                                    then 
                                                                    fetch_anchor
                                                                    ops f true
                                                                    else 
                                                                    if 
                                                                    N.eqb c
                                                                    (Npos (XO
                                                                    (XI (XI
                                                                    (XO (XO
                                                                    XH))))))
                                                                    then 
                                                                    fetch_anchor
                                                                    ops f
                                                                    false
                                                                    else 
                                                                    if 
                                                                    N.eqb c
                                                                    (Npos (XI
                                                                    (XO (XO
                                                                    (XO (XO
                                                                    XH))))))
                                                                    then 
                                                                    fetch_tag
                                                                    ops f
                                                                    else 
                                                                    if 
                                                                    (&&)
                                                                    (N.eqb c
                                                                    (Npos (XO
                                                                    (XO (XI
                                                                    (XI (XI
                                                                    (XI
                                                                    XH))))))))
                                                                    (negb fl)
                                                                    then 
                                                                    fetch_block_scalar
                                                                    ops f true
                                                                    else 
                                                                    if 
                                                                    (&&)
                                                                    (N.eqb c
                                                                    (Npos (XO
                                                                    (XI (XI
                                                                    (XI (XI
                                                                    XH)))))))
                                                                    (negb fl)
                                                                    then 
                                                                    fetch_block_scalar
                                                                    ops f
                                                                    false
                                                                    else 
                                                                    if 
                                                                    N.eqb c
                                                                    (Npos (XI
                                                                    (XI (XI
                                                                    (XO (XO
                                                                    XH))))))
                                                                    then 
                                                                    fetch_flow_scalar
                                                                    ops f true
                                                                    else 
                                                                    if 
                                                                    N.eqb c
                                                                    (Npos (XO
                                                                    (XI (XO
                                                                    (XO (XO
                                                                    XH))))))
                                                                    then 
                                                                    fetch_flow_scalar
                                                                    ops f
                                                                    false
                                                                    else 
                                                                    if 
                                                                    (&&)
                                                                    (N.eqb c
                                                                    (Npos (XI
                                                                    (XO (XI
                                                                    (XI (XO
                                                                    XH)))))))
                                                                    (negb bz)
                                                                    then 
                                                                    fetch_plain_scalar
                                                                    ops f
                                                                    else 
                                                                    if 
                                                                    (&&)
                                                                    ((&&)
                                                                    ((||)
                                                                    (N.eqb c
                                                                    (Npos (XO
                                                                    (XI (XO
                                                                    (XI (XI
                                                                    XH)))))))
                                                                    (N.eqb c
                                                                    (Npos (XI
                                                                    (XI (XI
                                                                    (XI (XI
                                                                    XH))))))))
                                                                    (negb bz))
                                                                    (negb fl)
                                                                    then 
                                                                    fetch_plain_scalar
                                                                    ops f
                                                                    else 
                                                                    if 
                                                                    (||)
                                                                    ((||)
                                                                    (N.eqb c
                                                                    (Npos (XI
                                                                    (XO (XI
                                                                    (XO (XO
                                                                    XH)))))))
                                                                    (N.eqb c
                                                                    (Npos (XO
                                                                    (XO (XO
                                                                    (XO (XO
                                                                    (XO
                                                                    XH)))))))))
                                                                    (N.eqb c
                                                                    (Npos (XO
                                                                    (XO (XO
                                                                    (XO (XO
                                                                    (XI
                                                                    XH))))))))
                                                                    then 
                                                                    fail
                                                                    (Npos (XI
                                                                    (XI (XI
                                                                    (XO (XO
                                                                    (XI
                                                                    XH)))))))
                                                                    s0.sc_mark
                                                                    else 
                                                                    fetch_plain_scalar
                                                                    ops f))))))))))))))

(** val inv1 : 'a1 sc -> bool **)

let inv1 s =
  (||) (negb s.sc_stream_start)
    (N.eqb (N.of_nat (length s.sc_sks)) (N.add s.sc_flow_level (Npos XH)))

(** val sorted_from : z -> indent_rec list -> bool **)

let rec sorted_from top = function
| [] -> Z.eqb top (Zneg XH)
| i :: r -> (&&) (Z.ltb i.in_indent top) (sorted_from i.in_indent r)

(** val inv2 : 'a1 sc -> bool **)

let inv2 s =
  (&&) (sorted_from s.sc_indent s.sc_indents) (Z.leb (Zneg XH) s.sc_indent)

(** val sks_ok : n -> n -> simple_key list -> n option -> bool **)

let rec sks_ok lo hi l bound =
  match l with
  | [] -> true
  | k :: r ->
    if k.sk_possible
    then (&&)
           ((&&)
             ((&&) (N.leb lo k.sk_token_number) (N.ltb k.sk_token_number hi))
             (match bound with
              | Some b -> N.ltb k.sk_token_number b
              | None -> true)) (sks_ok lo hi r (Some k.sk_token_number))
    else sks_ok lo hi r bound

(** val inv3 : 'a1 sc -> bool **)

let inv3 s =
  sks_ok s.sc_tokens_parsed
    (N.add s.sc_tokens_parsed (N.of_nat (length s.sc_tokens))) s.sc_sks None

(** val inv4 : 'a1 sc -> bool **)

let inv4 s =
  N.leb s.sc_flow_level (Npos (XI (XI (XI (XI (XI (XI (XI XH))))))))

(** val inv_code : 'a1 sc -> n **)

let inv_code s =
  N.add
    (N.add
      (N.add (if inv1 s then N0 else Npos XH)
        (if inv2 s then N0 else Npos (XO XH)))
      (if inv3 s then N0 else Npos (XO (XO XH))))
    (if inv4 s then N0 else Npos (XO (XO (XO XH))))

(** val pos_go : n list -> nat -> n -> n -> n * n **)

let rec pos_go s n0 line col0 =
  match n0 with
  | O -> (line, col0)
  | S n1 ->
    (match s with
     | [] -> (line, col0)
     | c :: r ->
       if N.eqb c (Npos (XI (XO (XI XH))))
       then (match n1 with
             | O ->
               (match r with
                | [] -> pos_go r n1 (N.add line (Npos XH)) N0
                | n2 :: _ ->
                  (match n2 with
                   | N0 -> pos_go r n1 (N.add line (Npos XH)) N0
                   | Npos p ->
                     (match p with
                      | XO p0 ->
                        (match p0 with
                         | XI p1 ->
                           (match p1 with
                            | XO p2 ->
                              (match p2 with
                               | XH -> (line, (N.add col0 (Npos XH)))
                               | _ -> pos_go r n1 (N.add line (Npos XH)) N0)
                            | _ -> pos_go r n1 (N.add line (Npos XH)) N0)
                         | _ -> pos_go r n1 (N.add line (Npos XH)) N0)
                      | _ -> pos_go r n1 (N.add line (Npos XH)) N0)))
             | S n' ->
               (match r with
                | [] -> pos_go r n1 (N.add line (Npos XH)) N0
                | n2 :: r' ->
                  (match n2 with
                   | N0 -> pos_go r n1 (N.add line (Npos XH)) N0
                   | Npos p ->
                     (match p with
                      | XO p0 ->
                        (match p0 with
                         | XI p1 ->
                           (match p1 with
                            | XO p2 ->
                              (match p2 with
                               | XH -> pos_go r' n' (N.add line (Npos XH)) N0
                               | _ -> pos_go r n1 (N.add line (Npos XH)) N0)
                            | _ -> pos_go r n1 (N.add line (Npos XH)) N0)
                         | _ -> pos_go r n1 (N.add line (Npos XH)) N0)
                      | _ -> pos_go r n1 (N.add line (Npos XH)) N0))))
       else if N.eqb c (Npos (XO (XI (XO XH))))
            then pos_go r n1 (N.add line (Npos XH)) N0
            else pos_go r n1 line (N.add col0 (Npos XH)))

(** val mark_ok : n list -> strin sc -> bool **)

let mark_ok orig s =
  let len = length orig in
  let rem = length s.sc_in.si_chars in
  let idx = sub len rem in
  (&&) (N.eqb s.sc_mark.m_index (N.of_nat idx))
    ((||) (Nat.eqb rem O)
      (let (l, c) = pos_go orig idx (Npos XH) N0 in
       (&&) (N.eqb s.sc_mark.m_line l) (N.eqb s.sc_mark.m_col c)))

(** val code : n list -> strin sc -> n **)

let code orig s =
  N.add (inv_code s)
    (if mark_ok orig s then N0 else Npos (XO (XO (XO (XO XH)))))

(** val fmt_chk :
    nat -> n list -> nat -> strin sc -> n -> (unit * strin sc) outcome * n **)

let rec fmt_chk f orig fuel s bad =
  match fuel with
  | O -> (OutOfFuel, bad)
  | S fuel0 ->
    let need_o =
      match s.sc_tokens with
      | [] -> Ok (true, s)
      | _ :: _ ->
        (match stale_simple_keys s with
         | Ok a ->
           let (_, s') = a in
           Ok
           ((existsb (fun k ->
              (&&) k.sk_possible (N.eqb k.sk_token_number s'.sc_tokens_parsed))
              s'.sc_sks), s')
         | Err (e, m0) -> Err (e, m0)
         | Panic n0 -> Panic n0
         | OutOfFuel -> OutOfFuel)
    in
    (match need_o with
     | Ok a ->
       let (b, s') = a in
       if b
       then (match fetch_next_token str_ops f s' with
             | Ok a0 ->
               let (_, s'') = a0 in
               fmt_chk f orig fuel0 s'' (N.coq_lor bad (code orig s''))
             | x -> (x, bad))
       else ((Ok ((), (set_ta true s'))), bad)
     | Err (e, m0) -> ((Err (e, m0)), bad)
     | Panic n0 -> ((Panic n0), bad)
     | OutOfFuel -> (OutOfFuel, bad))

(** val scan_chk : nat -> n list -> nat -> strin sc -> n -> n **)

let rec scan_chk f orig fuel s bad =
  match fuel with
  | O -> bad
  | S fuel0 ->
    if s.sc_stream_end
    then bad
    else let (r, bad0) =
           if s.sc_token_available
           then ((Ok ((), s)), bad)
           else fmt_chk f orig f s bad
         in
         (match r with
          | Ok a ->
            let (_, s0) = a in
            (match s0.sc_tokens with
             | [] -> bad0
             | t :: r0 ->
               let s1 =
                 set_tp (N.add s0.sc_tokens_parsed (Npos XH))
                   (set_ta false (set_tokens r0 s0))
               in
               let s2 =
                 match snd t with
                 | TStreamEnd -> set_se true s1
                 | _ -> s1
               in
               scan_chk f orig fuel0 s2 (N.coq_lor bad0 (code orig s2)))
          | _ -> bad0)

(** val run_chk : n list -> n **)

let run_chk s =
  let f = add (length s) (S (S (S (S (S (S (S (S (S (S O)))))))))) in
  scan_chk f s
    (add (mul (S (S (S (S O)))) f) (S (S (S (S (S (S (S (S (S (S (S (S (S (S
      (S (S (S (S (S (S O)))))))))))))))))))))
    (init_sc { si_chars = s; si_look = O }) N0
