(* C16 extraction unit: the pipeline with the keep_tags option, and the specification of Spec/TagSpec.v
   (run as an oracle on the implementation's tags).  ExtrOcamlBasic only. *)
From Coq Require Import List NArith ZArith Bool.
From Coq Require Import ExtrOcamlBasic.
Require Import Parser SBase SPrim SDir SScalar SFetch Pipe Drivers TagSpec TagRun.
Extraction "model.ml" run_str_keep run_str decls table_of expand percent_decode utf8_decode kind_of.
