(* Extraction unit of C07 / C19: the loader model, the tree specification (oracle), the generic loader at the
   plain and marked node types, resolution.  ExtrOcamlBasic only. *)
From Coq Require Import List NArith ZArith Bool.
From Coq Require Import ExtrOcamlBasic.
Require Import Parser Resolver Loader LinkedMap Nodes Grammar BuildDocs.
Extraction "model.ml" load_events l0 spec_of_events parse_events spec_load load_r load_m r_resolve m_resolve erase docs_of grun r_eqb m_eqb.
