(* Extraction of the executable model.  ExtrOcamlBasic only: bool, option, list, prod, unit and
   sumbool map to OCaml natives; N / positive / Z / nat stay Coq inductives. *)
From Coq Require Import List NArith ZArith Bool.
From Coq Require Import ExtrOcamlBasic.
Require Import Parser SBase SPrim SDir SScalar SFetch Pipe SBuf Resolver Loader PipeL Grammar CoreSchema Wrapper Positions Drivers.
Extraction "model.ml" run_str run_buf scan_str parse_tokens grammar_verdict run_load
  parse_from_cow_and_metadata c08_impl_untagged_ok c08_impl_tagged_ok c08_impl_string_ok hist_spec marker_ok.
