(* Extraction unit of C13: the token sequence of a JSON value, its meaning, and the oracle on implementation results. *)
From Coq Require Import List NArith ZArith Bool.
From Coq Require Import ExtrOcamlBasic.
Require Import Parser Resolver CoreSchema Loader Json.
Extraction "model.ml" json_tokens wrap json_wf json_distinct json_depth json_number yaml_of_json yaml_of_json_ordered c13_impl_ok colon_tab json_compact json_chars_ok.
