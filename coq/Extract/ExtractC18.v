(* Extraction unit of C18: encoding detection and the decode loop over the toy UTF-16LE decoder. *)
From Coq Require Import List NArith Bool.
From Coq Require Import ExtrOcamlBasic.
Require Import Consts Decode.
Extraction "model.ml" choose_encoding toy_run.
