(* Extraction unit of C18: encoding detection, the decode loop over the toy UTF-16LE decoder, the decode model
   over the UTF-8 / UTF-16 decoder models (with the callback left to the driver) and the one-shot
   specification. *)
From Coq Require Import List NArith Bool.
From Coq Require Import ExtrOcamlBasic.
Require Import Consts Decode TagSpec EncodingSpec Decoders.
Extraction "model.ml" choose_encoding toy_run decode_model decode_spec reserve text_len.
