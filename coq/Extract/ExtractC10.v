(* Extraction unit of C10 (byte level): the byte-level model of `StrInput` (Model/StrBytes.v), one function per method
   of `impl Input for StrInput`, and the encoder [bytes_of]; run by ocaml/driver_c10.ml against harness/src/bin/hx_c10.rs. *)
From Coq Require Import List NArith Bool.
From Coq Require Import ExtrOcamlBasic.
Require Import Parser SBase SPrim TagSpec StrBytes.
Extraction "model.ml" bytes_of sb_lookahead sb_buflen sb_bufmaxlen sb_buf_is_empty sb_raw_read_ch sb_raw_read_non_breakz_ch sb_skip sb_skip_n sb_peek sb_peek_nth sb_look_ch sb_next_char_is sb_nth_char_is sb_next_2_are sb_next_3_are sb_next_is_document_indicator sb_next_is_document_start sb_next_is_document_end sb_skip_ws_to_eol sb_next_can_be_plain_scalar sb_next_is_blank_or_break sb_next_is_blank_or_breakz sb_next_is_blank sb_next_is_break sb_next_is_breakz sb_next_is_z sb_next_is_flow sb_next_is_digit sb_next_is_alpha sb_skip_while_non_breakz sb_skip_while_blank sb_fetch_while_is_alpha.
