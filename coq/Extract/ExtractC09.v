(* Extraction unit of C09: the emitter model (Model/Emitter.v) for the correspondence run of ./check C09. *)
From Coq Require Import List NArith ZArith Bool.
From Coq Require Import ExtrOcamlBasic.
Require Import Resolver Loader PipeL Emitter.
Extraction "model.ml" dump_doc need_quotes escape_str emit_string max_key_len parse_i64 parse_from_cow wf_node round_trip_ok.
