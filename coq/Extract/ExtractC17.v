(* Extraction unit of C17 (repeated load(recv, false)): the lazy pipeline and the driver of the single-document calls. *)
From Coq Require Import List NArith ZArith Bool.
From Coq Require Import ExtrOcamlBasic.
Require Import Parser SBase SFetch Pipe PushLoad Lazy.
Extraction "model.ml" load_repeated_str lazy_run_str run_str.
