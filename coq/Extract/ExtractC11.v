(* C11 extraction unit: the oracle of theorems (g), (h), (i), (h'), (k) of Properties/C11.v, run on the implementation's tokens and
   events.  ExtrOcamlBasic only. *)
From Coq Require Import List NArith ZArith Bool.
From Coq Require Import ExtrOcamlBasic.
Require Import Parser Depth.
Extraction "model.ml" c11_oracle c11_measures c11_bounds.
