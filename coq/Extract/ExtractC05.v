(* Extraction of the C05 specification (renderer + expected value + side conditions) for ocaml/driver_c05.ml. *)
From Coq Require Import List NArith Bool.
From Coq Require Import ExtrOcamlBasic.
Require Import BlockScalar.
Extraction "model.ml" case_text case_value case_ok case_indent case_lines.
