(* C03 extraction unit: the token grammar (tokens_of / pre_events / numbering / wf) and the parser model alone
   (parse_tokens), so that parse_tokens (wrap (tokens_of t)) = wrap_events (events_of t) and, for whole streams,
   parse_tokens (stream_toks ds) = stream_events keep ds can be TESTED on generated layout trees.  ExtrOcamlBasic only. *)
From Coq Require Import List NArith ZArith Bool.
From Coq Require Import ExtrOcamlBasic.
Require Import Parser SBase SPrim SDir SScalar SFetch Pipe Drivers TokenGrammar FlowText BlockText.
Extraction "model.ml" tokens_of pre_events number bound env0 events_of wf wf_root wrap wrap_events parse_tokens stream_toks stream_events docs_wf docs_bound render doc_text lt fwf fgram depth is_coll bdoc_text blt bwf_root bdepth.
