(* C03 extraction unit: the token grammar (tokens_of / pre_events / numbering / wf) and the parser model alone
   (parse_tokens), so that parse_tokens (wrap (tokens_of t)) = wrap_events (events_of t) can be TESTED on
   generated layout trees.  ExtrOcamlBasic only. *)
From Coq Require Import List NArith ZArith Bool.
From Coq Require Import ExtrOcamlBasic.
Require Import Parser SBase SPrim SDir SScalar SFetch Pipe Drivers TokenGrammar.
Extraction "model.ml" tokens_of pre_events number bound env0 events_of wf wf_root wrap wrap_events parse_tokens.
