(* Extraction of the C20 model (hash streams, Eq, lookups) for ocaml/driver_c20.ml. *)
From Coq Require Import List NArith ZArith Bool.
From Coq Require Import ExtrOcamlBasic.
Require Import Resolver Loader Hashing.
Extraction "model.ml" hash_stream hyaml_eqb as_mapping_get contains_mapping_key index_str index_mut_str get_explicit map_get as_sequence_get index_usize spec_get spec_get_int int_node str_node chash cnode_eqb erase.
