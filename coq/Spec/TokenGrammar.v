(* C03, parser half: the token-level grammar of YAML nodes ("layout trees"), the token list a layout tree
   stands for and the event list it denotes.  Independent of the parser's state machine: [tokens_of] and
   [pre_events] are plain structural recursions, anchors are numbered afterwards by one linear pass. *)
From Coq Require Import List NArith Bool.
Import ListNotations.
Require Import Parser.

(* node properties: optional anchor name, optional tag (handle, suffix) as the scanner delivers it, and
   which of the two comes first in the text *)
Record props := { pr_anchor : option str; pr_tag : option (str * str); pr_tag_first : bool }.
Definition no_props : props := {| pr_anchor := None; pr_tag := None; pr_tag_first := false |}.

(* a mapping entry as the scanner delivers it: [Key]? key [Value]? value *)
Definition entry (A : Type) : Type := (bool * A * (bool * A))%type.

Inductive ltree :=
| LScalar (pr : props) (st : style) (v : str)
| LAlias (n : str)
| LNone                                    (* a node the syntax leaves out: no tokens at all *)
| LProps (pr : props)                      (* properties without content *)
| LBSeq (pr : props) (items : list ltree)  (* BlockSequenceStart (BlockEntry n)* BlockEnd *)
| LISeq (pr : props) (items : list ltree)  (* (BlockEntry n)+ : sequence at the indentation of its parent key *)
| LBMap (pr : props) (ents : list (entry ltree))               (* BlockMappingStart entry* BlockEnd *)
| LFSeq (pr : props) (ents : list (ltree + (ltree * (bool * ltree)))) (trail : bool)
      (* FlowSequenceStart e (FlowEntry e)* FlowEntry? FlowSequenceEnd; e = node | Key key (Value? value)
         (a single pair the scanner did not wrap; a wrapped pair is an [LFMap] with one entry) *)
| LFMap (pr : props) (ents : list (entry ltree)) (trail : bool). (* FlowMappingStart e (FlowEntry e)* FlowEntry? FlowMappingEnd *)

Definition is_none (t : ltree) : bool := match t with LNone => true | _ => false end.

(* ---- tokens ---- *)
Definition opt_tok {A} (o : option A) (f : A -> tok) : list tok := match o with Some a => [f a] | None => [] end.
Definition props_toks (pr : props) : list tok :=
  let a := opt_tok (pr_anchor pr) TAnchor in
  let t := opt_tok (pr_tag pr) (fun hs => TTag (fst hs) (snd hs)) in
  if pr_tag_first pr then t ++ a else a ++ t.
Definition flag (b : bool) (t : tok) : list tok := if b then [t] else [].

Definition ent_toks (f : ltree -> list tok) (e : entry ltree) : list tok :=
  match e with (kt, k, (vt, v)) => flag kt TKey ++ f k ++ flag vt TValue ++ f v end.
Definition fsent_toks (f : ltree -> list tok) (e : ltree + (ltree * (bool * ltree))) : list tok :=
  match e with
  | inl n => f n
  | inr (k, (vt, v)) => TKey :: f k ++ flag vt TValue ++ f v
  end.
(* entries separated by FlowEntry tokens *)
Definition fsep (l : list (list tok)) : list tok :=
  match l with
  | [] => []
  | x :: r => x ++ flat_map (fun y => TFlowEntry :: y) r
  end.

Fixpoint tokens_of (t : ltree) : list tok :=
  match t with
  | LScalar pr st v => props_toks pr ++ [TScalar st v]
  | LAlias n => [TAlias n]
  | LNone => []
  | LProps pr => props_toks pr
  | LBSeq pr items =>
      props_toks pr ++ TBlockSequenceStart :: flat_map (fun x => TBlockEntry :: tokens_of x) items ++ [TBlockEnd]
  | LISeq pr items => props_toks pr ++ flat_map (fun x => TBlockEntry :: tokens_of x) items
  | LBMap pr ents => props_toks pr ++ TBlockMappingStart :: flat_map (ent_toks tokens_of) ents ++ [TBlockEnd]
  | LFSeq pr ents trail =>
      props_toks pr ++ TFlowSequenceStart :: fsep (map (fsent_toks tokens_of) ents) ++ flag trail TFlowEntry ++ [TFlowSequenceEnd]
  | LFMap pr ents trail =>
      props_toks pr ++ TFlowMappingStart :: fsep (map (ent_toks tokens_of) ents) ++ flag trail TFlowEntry ++ [TFlowMappingEnd]
  end.

(* ---- denoted events, anchors still by name ("pre-events") ---- *)
Inductive pev :=
| PScalar (v : str) (st : style) (a : option str) (tg : option (str * str))
| PAlias (n : str)
| PSeqStart (a : option str) (tg : option (str * str)) | PSeqEnd
| PMapStart (a : option str) (tg : option (str * str)) | PMapEnd.

Definition pnull : pev := PScalar [126%N] Plain None None.

Definition ent_pre (f : ltree -> list pev) (e : entry ltree) : list pev :=
  match e with (_, k, (_, v)) => f k ++ f v end.
Definition fsent_pre (f : ltree -> list pev) (e : ltree + (ltree * (bool * ltree))) : list pev :=
  match e with
  | inl n => f n
  | inr (k, (_, v)) => PMapStart None None :: f k ++ f v ++ [PMapEnd]
  end.

Fixpoint pre_events (t : ltree) : list pev :=
  match t with
  | LScalar pr st v => [PScalar v st (pr_anchor pr) (pr_tag pr)]
  | LAlias n => [PAlias n]
  | LNone => [pnull]
  | LProps pr => [PScalar [] Plain (pr_anchor pr) (pr_tag pr)]
  | LBSeq pr items | LISeq pr items => PSeqStart (pr_anchor pr) (pr_tag pr) :: flat_map pre_events items ++ [PSeqEnd]
  | LBMap pr ents | LFMap pr ents _ => PMapStart (pr_anchor pr) (pr_tag pr) :: flat_map (ent_pre pre_events) ents ++ [PMapEnd]
  | LFSeq pr ents _ => PSeqStart (pr_anchor pr) (pr_tag pr) :: flat_map (fsent_pre pre_events) ents ++ [PSeqEnd]
  end.

(* ---- numbering: anchor ids in order of appearance, aliases looked up, tags resolved ---- *)
Record aenv := { ae_map : list (str * N); ae_next : N }.

Definition reg (a : option str) (e : aenv) : N * aenv :=
  match a with
  | None => (0%N, e)
  | Some n => (ae_next e, {| ae_map := assoc_set n (ae_next e) (ae_map e); ae_next := (ae_next e + 1)%N |})
  end.

(* [resolve_tag] without the parser record: [None] = undeclared named handle *)
Definition resolve_pure (tags : list (str * str)) (h s : str) : option tag :=
  if str_eqb h [bang; bang] then
    Some {| tg_handle := match assoc h tags with Some pre => pre | None => default_prefix end; tg_suffix := s |}
  else if (match h with [] => true | _ => false end) && str_eqb s [bang] then
    Some {| tg_handle := match assoc [] tags with Some pre => pre | None => [] end; tg_suffix := s |}
  else match assoc h tags with
       | Some pre => Some {| tg_handle := pre; tg_suffix := s |}
       | None => if is_named_handle h then None else Some {| tg_handle := h; tg_suffix := s |}
       end.

Definition tag_ev (tags : list (str * str)) (tg : option (str * str)) : option tag :=
  match tg with None => None | Some (h, s) => resolve_pure tags h s end.
Definition tag_ok (tags : list (str * str)) (tg : option (str * str)) : bool :=
  match tg with None => true | Some (h, s) => match resolve_pure tags h s with Some _ => true | None => false end end.

Definition env_step (e : aenv) (x : pev) : aenv :=
  match x with
  | PScalar _ _ a _ | PSeqStart a _ | PMapStart a _ => snd (reg a e)
  | _ => e
  end.
Definition env_after (e : aenv) (l : list pev) : aenv := fold_left env_step l e.

Definition number1 (tags : list (str * str)) (e : aenv) (x : pev) : event :=
  match x with
  | PScalar v st a tg => EScalar v st (fst (reg a e)) (tag_ev tags tg)
  | PAlias n => EAlias (match assoc n (ae_map e) with Some i => i | None => 0%N end)
  | PSeqStart a tg => ESequenceStart (fst (reg a e)) (tag_ev tags tg)
  | PSeqEnd => ESequenceEnd
  | PMapStart a tg => EMappingStart (fst (reg a e)) (tag_ev tags tg)
  | PMapEnd => EMappingEnd
  end.
Fixpoint number (tags : list (str * str)) (e : aenv) (l : list pev) : list event :=
  match l with
  | [] => []
  | x :: r => number1 tags e x :: number tags (env_step e x) r
  end.

(* every alias refers to an anchor seen before it, every tag handle resolves *)
Definition bound1 (tags : list (str * str)) (e : aenv) (x : pev) : bool :=
  match x with
  | PAlias n => match assoc n (ae_map e) with Some _ => true | None => false end
  | PScalar _ _ _ tg | PSeqStart _ tg | PMapStart _ tg => tag_ok tags tg
  | _ => true
  end.
Fixpoint bound (tags : list (str * str)) (e : aenv) (l : list pev) : bool :=
  match l with
  | [] => true
  | x :: r => bound1 tags e x && bound tags (env_step e x) r
  end.

Definition env0 : aenv := {| ae_map := []; ae_next := 1%N |}.
Definition events_of (t : ltree) : list event := number [] env0 (pre_events t).

(* ---- where which layout may stand (what the block/flow context and the follow tokens allow) ---- *)
Definition has_some_props (pr : props) : bool :=
  match pr_anchor pr, pr_tag pr with None, None => false | _, _ => true end.

Definition ent_wf (f : ltree -> bool) (e : entry ltree) : bool :=
  match e with
  | (kt, k, (vt, v)) =>
      (kt || (is_none k && vt)) && (vt || is_none v) && (is_none k || f k) && (is_none v || f v)
  end.
(* an entry without Value token must not be followed by an entry without Key token
   (Key k / Value v would read as one entry) *)
Fixpoint adj_ok (l : list (entry ltree)) : bool :=
  match l with
  | (_, _, (vt, _)) :: (((kt, _, _) :: _) as r) => (vt || kt) && adj_ok r
  | _ => true
  end.
Definition fment_wf (f : ltree -> bool) (e : entry ltree) : bool :=
  match e with
  | (kt, k, (vt, v)) =>
      (vt || is_none v) && (is_none k || f k) && (is_none v || f v)
      && (kt || (if vt then is_none k else negb (is_none k)))
  end.
Definition fsent_wf (f : ltree -> bool) (e : ltree + (ltree * (bool * ltree))) : bool :=
  match e with
  | inl n => f n
  | inr (k, (vt, v)) => (is_none k || f k) && (vt || is_none v) && (is_none v || f v)
      (* the key may be left out: `[ ? ]`, `[ ? : x ]` (FlowSequenceStart Key (Value x)? ...) *)
  end.
Definition nonempty {A} (l : list A) : bool := match l with [] => false | _ => true end.

(* [wf b i t]: t may stand where the parser calls parse_node(block = b, indentless = i) *)
Fixpoint wf (b i : bool) (t : ltree) : bool :=
  match t with
  | LScalar _ _ _ | LAlias _ => true
  | LNone => false
  | LProps pr => has_some_props pr
  | LBSeq _ items => b && forallb (fun x => is_none x || wf true false x) items
  | LISeq _ items => b && i && nonempty items && forallb (fun x => is_none x || wf true false x) items
  | LBMap _ ents => b && forallb (ent_wf (wf true true)) ents && adj_ok ents
  | LFSeq _ ents trail => forallb (fsent_wf (wf false false)) ents && (negb trail || nonempty ents)
  | LFMap _ ents trail => forallb (fment_wf (wf false false)) ents && (negb trail || nonempty ents)
  end.

(* ---- one document ---- *)
Definition wrap (es ee : bool) (toks : list tok) : list tok :=
  TStreamStart :: flag es TDocumentStart ++ toks ++ flag ee TDocumentEnd ++ [TStreamEnd].
Definition wrap_events (es : bool) (evs : list event) : list event :=
  EStreamStart :: EDocumentStart es :: evs ++ [EDocumentEnd; EStreamEnd].
(* the root node of a document: anything well-formed in block context; left out only after "---" *)
Definition wf_root (es : bool) (t : ltree) : bool := if is_none t then es else wf true false t.

(* ---- streams: several documents, %YAML / %TAG directives, any number of '...' markers ---- *)
Inductive dirv := DVersion (maj mnr : N) | DTag (h pre : str).
(* directives, '---' present?, root node, number of DocumentEnd tokens ('...') behind the document *)
Record ldoc := { ld_dirs : list dirv; ld_start : bool; ld_root : ltree; ld_ends : nat }.

Definition dir_tok (d : dirv) : tok :=
  match d with DVersion a b => TVersionDirective a b | DTag h p => TTagDirective h p end.
Definition doc_toks (d : ldoc) : list tok :=
  map dir_tok (ld_dirs d) ++ flag (ld_start d) TDocumentStart ++ tokens_of (ld_root d) ++ repeat TDocumentEnd (ld_ends d).
Definition stream_toks (ds : list ldoc) : list tok := TStreamStart :: flat_map doc_toks ds ++ [TStreamEnd].

(* the handle table of a document: its own %TAG directives first, then (only if the parser was asked to keep tags
   across documents) the table of the previous document *)
Definition dir_tags (dirs : list dirv) : list (str * str) :=
  flat_map (fun d => match d with DTag h p => [(h, p)] | DVersion _ _ => [] end) dirs.
Definition doc_tags (keep : bool) (prev : list (str * str)) (d : ldoc) : list (str * str) :=
  dir_tags (ld_dirs d) ++ (if keep then prev else []).

(* at most one %YAML, no handle declared twice *)
Fixpoint dirs_ok (seen : list str) (ver : bool) (dirs : list dirv) : bool :=
  match dirs with
  | [] => true
  | DVersion _ _ :: r => negb ver && dirs_ok seen true r
  | DTag h _ :: r => negb (existsb (str_eqb h) seen) && dirs_ok (h :: seen) ver r
  end.

(* [closed]: the previous document was ended by '...' (or there is none).  Directives and documents without '---'
   only there; directives need '---'; a left-out root node needs '---'. *)
Fixpoint docs_wf (closed : bool) (ds : list ldoc) : bool :=
  match ds with
  | [] => true
  | d :: r =>
      dirs_ok [] false (ld_dirs d)
      && (negb (nonempty (ld_dirs d)) || (closed && ld_start d))
      && (ld_start d || closed)
      && wf_root (ld_start d) (ld_root d)
      && docs_wf (match ld_ends d with O => false | S _ => true end) r
  end.

(* events: anchors are local to a document, the ids keep counting through the stream *)
Definition doc_env (next : N) : aenv := {| ae_map := []; ae_next := next |}.
Fixpoint docs_events (keep : bool) (prev : list (str * str)) (next : N) (ds : list ldoc) : list event :=
  match ds with
  | [] => []
  | d :: r =>
      let tg := doc_tags keep prev d in
      EDocumentStart (ld_start d) :: number tg (doc_env next) (pre_events (ld_root d)) ++
      EDocumentEnd :: docs_events keep tg (ae_next (env_after (doc_env next) (pre_events (ld_root d)))) r
  end.
Fixpoint docs_bound (keep : bool) (prev : list (str * str)) (next : N) (ds : list ldoc) : bool :=
  match ds with
  | [] => true
  | d :: r =>
      let tg := doc_tags keep prev d in
      bound tg (doc_env next) (pre_events (ld_root d)) &&
      docs_bound keep tg (ae_next (env_after (doc_env next) (pre_events (ld_root d)))) r
  end.
Definition stream_events (keep : bool) (ds : list ldoc) : list event :=
  EStreamStart :: docs_events keep [] 1%N ds ++ [EStreamEnd].
