(* C07 — the specification of loading, independent of the loader's stacks.
   An event sentence is the flattening of a list of documents, each an event TREE; the value of a tree is
   defined by structural recursion:
     scalar   |-> the value chosen by its text, style and tag                       (value_of, certified in C08)
     alias    |-> a copy of the COMPLETED node registered under that anchor id; YBad when there is none
                  (in particular for a reference to a collection that is still open: it registers at its end)
     sequence |-> its items' values, in order
     mapping  |-> its entries folded, in order, with LinkedHashMap::insert semantics (map_insert: an equal key
                  already present gets the new value and moves to the back, keeping the OLD key object)
   Anchors are registered when a node completes, in event order, and the table lives across documents. *)
From Coq Require Import List NArith ZArith Bool.
Import ListNotations.
Require Import Parser Resolver Loader.

Inductive etree :=
| TScalar (v : str) (st : style) (aid : N) (tg : option tag)
| TAlias (id : N)
| TSeq (aid : N) (tg : option tag) (items : list etree)
| TMap (aid : N) (tg : option tag) (entries : list (etree * etree)).

(* ---- flattening ---- *)
Definition events_items (f : etree -> list event) : list etree -> list event :=
  fix go (l : list etree) : list event :=
    match l with [] => [] | t :: r => f t ++ go r end.
Definition events_pairs (f : etree -> list event) : list (etree * etree) -> list event :=
  fix go (l : list (etree * etree)) : list event :=
    match l with [] => [] | (k, v) :: r => f k ++ f v ++ go r end.

Fixpoint events_of (t : etree) : list event :=
  match t with
  | TScalar v st a tg => [EScalar v st a tg]
  | TAlias i => [EAlias i]
  | TSeq a tg items => ESequenceStart a tg :: events_items events_of items ++ [ESequenceEnd]
  | TMap a tg es => EMappingStart a tg :: events_pairs events_of es ++ [EMappingEnd]
  end.

Definition doc := (bool * etree)%type.      (* explicit-start flag, root node *)
Definition events_doc (d : doc) : list event := EDocumentStart (fst d) :: events_of (snd d) ++ [EDocumentEnd].
Fixpoint events_docs (ds : list doc) : list event :=
  match ds with [] => [] | d :: r => events_doc d ++ events_docs r end.
Definition stream_of (ds : list doc) : list event := EStreamStart :: events_docs ds ++ [EStreamEnd].

(* ---- values ---- *)
Definition amap := list (N * yaml).          (* newest registration first; lookup = Loader.amap_get *)
Definition reg (aid : N) (y : yaml) (m : amap) : amap := if (0 <? aid)%N then (aid, y) :: m else m.
Definition deref (id : N) (m : amap) : yaml := match amap_get id m with Some y => y | None => YBad end.

Definition build_items (f : amap -> etree -> yaml * amap) : amap -> list etree -> list yaml * amap :=
  fix go (m : amap) (l : list etree) : list yaml * amap :=
    match l with
    | [] => ([], m)
    | t :: r => let '(y, m1) := f m t in let '(ys, m2) := go m1 r in (y :: ys, m2)
    end.
(* acc: the entries inserted so far *)
Definition build_pairs (f : amap -> etree -> yaml * amap)
  : amap -> list (etree * etree) -> list (yaml * yaml) -> list (yaml * yaml) * amap :=
  fix go (m : amap) (l : list (etree * etree)) (acc : list (yaml * yaml)) : list (yaml * yaml) * amap :=
    match l with
    | [] => (acc, m)
    | (k, v) :: r => let '(ky, m1) := f m k in let '(vy, m2) := f m1 v in go m2 r (map_insert ky vy acc)
    end.

Fixpoint build (m : amap) (t : etree) : yaml * amap :=
  match t with
  | TScalar v st a tg => let y := value_of v st tg in (y, reg a y m)
  | TAlias i => (deref i m, m)
  | TSeq a tg items => let '(ys, m') := build_items build m items in (YSeq ys, reg a (YSeq ys) m')
  | TMap a tg es => let '(ps, m') := build_pairs build m es [] in (YMap ps, reg a (YMap ps) m')
  end.

Fixpoint build_docs (m : amap) (ds : list doc) : list yaml * amap :=
  match ds with
  | [] => ([], m)
  | d :: r => let '(y, m1) := build m (snd d) in let '(ys, m2) := build_docs m1 r in (y :: ys, m2)
  end.

Definition spec_load (ds : list doc) : list yaml := fst (build_docs [] ds).

(* ---- from an event sentence back to its trees (the oracle's front end; proved sound and complete
        with respect to the grammar acceptor in Proofs/LoaderProofs.v) ---- *)
Inductive pframe :=
| PSeq (a : N) (tg : option tag) (ritems : list etree)                       (* items so far, reversed *)
| PMapK (a : N) (tg : option tag) (rents : list (etree * etree))             (* next node is a key *)
| PMapV (a : N) (tg : option tag) (rents : list (etree * etree)) (k : etree) (* next node is the value of k *).

Inductive pstate :=
| PInit
| PBetween (rd : list doc)                                  (* documents so far, reversed *)
| PDoc (rd : list doc) (e : bool) (fs : list pframe)        (* inside a document, open collections, innermost first *)
| PDocDone (rd : list doc) (e : bool) (t : etree)
| PEnd (ds : list doc).

Definition pcomplete (rd : list doc) (e : bool) (fs : list pframe) (t : etree) : pstate :=
  match fs with
  | [] => PDocDone rd e t
  | PSeq a tg ri :: r => PDoc rd e (PSeq a tg (t :: ri) :: r)
  | PMapK a tg re :: r => PDoc rd e (PMapV a tg re t :: r)
  | PMapV a tg re k :: r => PDoc rd e (PMapK a tg ((k, t) :: re) :: r)
  end.

Definition pstep (s : pstate) (ev : event) : option pstate :=
  match ev, s with
  | EStreamStart, PInit => Some (PBetween [])
  | EStreamEnd, PBetween rd => Some (PEnd (rev rd))
  | EDocumentStart e, PBetween rd => Some (PDoc rd e [])
  | EDocumentEnd, PDocDone rd e t => Some (PBetween ((e, t) :: rd))
  | EScalar v st a tg, PDoc rd e fs => Some (pcomplete rd e fs (TScalar v st a tg))
  | EAlias i, PDoc rd e fs => Some (pcomplete rd e fs (TAlias i))
  | ESequenceStart a tg, PDoc rd e fs => Some (PDoc rd e (PSeq a tg [] :: fs))
  | EMappingStart a tg, PDoc rd e fs => Some (PDoc rd e (PMapK a tg [] :: fs))
  | ESequenceEnd, PDoc rd e (PSeq a tg ri :: fs) => Some (pcomplete rd e fs (TSeq a tg (rev ri)))
  | EMappingEnd, PDoc rd e (PMapK a tg re :: fs) => Some (pcomplete rd e fs (TMap a tg (rev re)))
  | _, _ => None
  end.

Fixpoint prun (s : pstate) (evs : list event) : option pstate :=
  match evs with
  | [] => Some s
  | e :: r => match pstep s e with Some s' => prun s' r | None => None end
  end.

Definition parse_events (evs : list event) : option (list doc) :=
  match prun PInit evs with Some (PEnd ds) => Some ds | _ => None end.

(* the oracle: documents an event sentence must load to *)
Definition spec_of_events (evs : list event) : option (list yaml) := option_map spec_load (parse_events evs).
