(* C09 — how the body of a one-line double-quoted scalar is read (YAML 1.2.2 section 7.3.1 over the scanner's escape
   tables, scanner.rs consume_flow_scalar_non_whitespace_chars / resolve_flow_scalar_escape_sequence, which
   tools/gen_tables.py re-translates into Gen/Escapes.v on every run).  Imports nothing of the emitter. *)
From Coq Require Import List NArith Bool.
Import ListNotations.
Require Import Escapes CharTraits.
Open Scope N_scope.

(* Unicode scalar values *)
Definition usv (v : N) : bool := (v <? 55296) || ((57343 <? v) && (v <=? 1114111)).

(* the scanner's reading of the body of a one-line double-quoted scalar (scanner.rs
   consume_flow_scalar_non_whitespace_chars / resolve_flow_scalar_escape_sequence over Gen/Escapes.v): a backslash
   starts an escape (single character of escape_table, or x/u/U followed by code_length hex digits giving a
   Unicode scalar value); a bare double quote would end the scalar; a line break would start folding *)
Fixpoint assoc_c (k : N) (l : list (N * N)) : option N :=
  match l with [] => None | (a, b) :: r => if N.eqb a k then Some b else assoc_c k r end.
Fixpoint assoc_n (k : N) (l : list (N * nat)) : nat :=
  match l with [] => O | (a, b) :: r => if N.eqb a k then b else assoc_n k r end.
Definition hexval (h : list N) : N := fold_left (fun a c => a * 16 + as_hex c) h 0.
Fixpoint dq_decode (fuel : nat) (t : list N) : option (list N) :=
  match fuel with
  | O => None
  | S f =>
    match t with
    | [] => Some []
    | c :: r =>
      if N.eqb c 92 then
        match r with
        | [] => None
        | x :: r' =>
          match assoc_c x escape_table with
          | Some v => option_map (cons v) (dq_decode f r')
          | None =>
              let n := assoc_n x code_length_table in
              let h := firstn n r' in
              if Nat.eqb n 0 then None
              else if Nat.eqb (length h) n && forallb is_hex h && usv (hexval h)
                   then option_map (cons (hexval h)) (dq_decode f (skipn n r'))
                   else None
          end
        end
      else if N.eqb c 34 || is_break c then None
      else option_map (cons c) (dq_decode f r)
    end
  end.

