(* C03, scanner half, BLOCK structure: a sub-language of YAML TEXT -- nested block sequences and block mappings of one-word
   plain scalars, any indentation widths, compact ("- - a", "- k: v") and next-line placement of nested collections --
   with its renderer and the layout tree (Spec/TokenGrammar.v) each text denotes.  Independent of the scanner model.

     node   ::= word | seq | map
     seq    ::= item+        item ::= "-" child            (every item line starts at the column of the sequence)
     map    ::= pair+        pair ::= word ":" child       (every pair line starts at the column of the mapping)
     child  ::= " " word NL                                 a scalar, on the same line
              | " " seq  |  " " map                         COMPACT: only behind "-"; the collection starts 2 columns right
                                                            of the "-" and goes on at that column
              | NL indent seq  |  NL indent map             BELOW: the collection stands on the following lines, at a column
                                                            at least 1 right of the column of its parent (1 + d, any d)
              | NL indent seq                               INDENTLESS: only behind "key:"; the sequence stands on the following
                                                            lines AT THE COLUMN OF THE KEY (YAML 1.2.2 [201] seq-space: a block
                                                            sequence as a mapping value need not be indented); it opens no
                                                            collection of its own for the scanner (no BlockSequenceStart / BlockEnd)
     word   ::= as in Spec/FlowText.v (no blank, break, NUL, flow indicator, quote, none of : # - ? * & ! | > % @ `)

   Every line ends with one line feed; indentation is made of spaces; a document is a sequence or a mapping at column 0.
   Side condition, YAML 1.2.2 section 8.2.2 / 7.4.2 (ns-s-block-map-implicit-key = ns-s-implicit-yaml-key): an implicit
   key has at most 1024 characters.
   (Not in the class: empty nodes, comments, blank lines, several words,
   other scalar styles, properties, explicit keys, documents markers, tabs, CR.) *)
From Coq Require Import List NArith Bool.
Import ListNotations.
Require Import Parser CharTraits TokenGrammar FlowText.
Open Scope N_scope.

(* where a nested collection stands: None = compact, on the line of its "-";  Some d = below, 1 + d columns right of the
   column of its parent.  (Ignored at the root.) *)
Definition place := option nat.

Inductive bnode :=
| BW (w : str)
| BS (pl : place) (items : list bnode)
| BM (pl : place) (pairs : list (str * bnode))
| BI (items : list bnode).                    (* an indentless sequence: the value of a key, at the key's column *)

Definition b_is_coll (n : bnode) : bool := match n with BW _ | BI _ => false | _ => true end.

(* ---- well-formedness: [inl] = the node is an item of a sequence (it may be compact) ---- *)
Definition place_ok (inl : bool) (pl : place) : bool := match pl with None => inl | Some _ => true end.
Fixpoint bwf (inl : bool) (n : bnode) : bool :=
  match n with
  | BW w => word_ok w
  | BS pl items => place_ok inl pl && nonempty items && forallb (bwf true) items
  | BM pl pairs => place_ok inl pl && nonempty pairs && forallb (fun p => key_ok (fst p) && bwf false (snd p)) pairs
  | BI items => negb inl && nonempty items && forallb (bwf true) items
  end.
(* a document: a collection at column 0 *)
Definition bwf_root (n : bnode) : bool := b_is_coll n && bwf true n.

Fixpoint bdepth (n : bnode) : nat :=
  match n with
  | BW _ => O
  | BS _ items => S (fold_right (fun x m => Nat.max (bdepth x) m) O items)
  | BM _ pairs => S (fold_right (fun p m => Nat.max (bdepth (snd p)) m) O pairs)
  | BI items => fold_right (fun x m => Nat.max (bdepth x) m) O items      (* no collection of its own *)
  end.

(* ---- the text ---- *)
Definition spaces (n : nat) : str := repeat 32 n.
(* the elements of a collection at column [col]: the first one stands where the collection starts, every further one on
   a line of its own, indented by [col] *)
Definition bjoin (col : nat) (l : list str) : str :=
  match l with
  | [] => []
  | x :: r => x ++ flat_map (fun y => spaces col ++ y) r
  end.
(* the column of a child of a collection at column [col] *)
Definition child_col (col : nat) (x : bnode) : nat :=
  match x with
  | BW _ | BI _ => col
  | BS None _ | BM None _ => (col + 2)%nat
  | BS (Some d) _ | BM (Some d) _ => (col + 1 + d)%nat
  end.
(* what stands between the "-" / ":" of the parent and the text of the child *)
Definition lead (col : nat) (x : bnode) : str :=
  match x with
  | BW _ | BS None _ | BM None _ => [32]
  | BS (Some d) _ | BM (Some d) _ => 10 :: spaces (col + 1 + d)
  | BI _ => 10 :: spaces col
  end.

(* [brender col n]: the text of n from its first character on, which stands at column [col] *)
Fixpoint brender (col : nat) (n : bnode) : str :=
  match n with
  | BW w => w ++ [10]
  | BS _ items => bjoin col (map (fun x => 45 :: lead col x ++ brender (child_col col x) x) items)
  | BM _ pairs => bjoin col (map (fun p => fst p ++ 58 :: lead col (snd p) ++ brender (child_col col (snd p)) (snd p)) pairs)
  | BI items => bjoin col (map (fun x => 45 :: lead col x ++ brender (child_col col x) x) items)
  end.

Definition bdoc_text (n : bnode) : str := brender 0 n.

(* ---- the layout tree the text denotes ---- *)
Fixpoint blt (n : bnode) : ltree :=
  match n with
  | BW w => lword w
  | BS _ items => LBSeq no_props (map blt items)
  | BM _ pairs => LBMap no_props (map (fun p => (true, lword (fst p), (true, blt (snd p)))) pairs)
  | BI items => LISeq no_props (map blt items)
  end.
