(* Independent specification side of C18: what the UTF-8 / UTF-16LE / UTF-16BE encodings of a text are
   (RFC 3629, RFC 2781), and the byte-order marks.  Texts are lists of Unicode scalar values.
   Only the *shape of the first bytes* matters for the detection theorems; the encoders are nevertheless the
   complete ones so that the statements read as intended. *)
From Coq Require Import List NArith Bool.
Import ListNotations.
Require Import Decode TagSpec.
Open Scope N_scope.

Definition utf8_char (c : N) : list N :=
  if c <? 128 then [c]
  else if c <? 2048 then [192 + c / 64; 128 + c mod 64]
  else if c <? 65536 then [224 + c / 4096; 128 + (c / 64) mod 64; 128 + c mod 64]
  else [240 + c / 262144; 128 + (c / 4096) mod 64; 128 + (c / 64) mod 64; 128 + c mod 64].

(* UTF-16 code units of a scalar value *)
Definition utf16_units (c : N) : list N :=
  if c <? 65536 then [c]
  else let v := c - 65536 in [55296 + v / 1024; 56320 + v mod 1024].

Definition unit_bytes (big_endian : bool) (u : N) : list N :=
  if big_endian then [u / 256; u mod 256] else [u mod 256; u / 256].

Definition utf16_char (big_endian : bool) (c : N) : list N :=
  flat_map (unit_bytes big_endian) (utf16_units c).

Definition encode (e : encoding) (text : list N) : list N :=
  match e with
  | Utf8 => flat_map utf8_char text
  | Utf16LE => flat_map (utf16_char false) text
  | Utf16BE => flat_map (utf16_char true) text
  end.

(* U+FEFF in each encoding *)
Definition bom (e : encoding) : list N :=
  match e with
  | Utf8 => [239; 187; 191]
  | Utf16LE => [255; 254]
  | Utf16BE => [254; 255]
  end.

(* The precondition of the detection theorem for input without a byte-order mark:
   the text starts with an ASCII character other than NUL, and (needed for UTF-8 only, where "a\0" and
   UTF-16LE "a" are the same two bytes) its second character is not NUL. *)
Definition ascii_start (text : list N) : bool :=
  match text with
  | c :: rest => (0 <? c) && (c <? 128) && match rest with d :: _ => negb (d =? 0) | [] => true end
  | [] => false
  end.

(* The weaker precondition that suffices for the two UTF-16 encodings *)
Definition ascii_first (text : list N) : bool :=
  match text with
  | c :: _ => (0 <? c) && (c <? 128)
  | [] => false
  end.

(* ================================================================================================ *)
(* One-shot decoding of a whole byte string                                                          *)
(* ================================================================================================ *)
(* A byte string in one of the three encodings splits, from left to right, into PIECES: a character decoded
   from n bytes, or a malformed sequence of n bytes.  [next] says what the first piece of a non-empty byte
   string is; [pieces] iterates it over the whole string. *)
Inductive piece :=
| PChar (c : N) (n : N)
| PBad (n : N).

Definition psize (p : piece) : N := match p with PChar _ n => n | PBad n => n end.

Section Pieces.
  Variable next : list N -> piece.
  Fixpoint pieces_go (fuel : nat) (bs : list N) : list piece :=
    match fuel, bs with
    | O, _ => []
    | _, [] => []
    | S f, _ :: _ => let p := next bs in p :: pieces_go f (skipn (N.to_nat (psize p)) bs)
    end.
  Definition pieces (bs : list N) : list piece := pieces_go (length bs) bs.
End Pieces.

(* ------------------------------------------------------------------------------------------------ *)
(* UTF-8                                                                                             *)
(* ------------------------------------------------------------------------------------------------ *)
(* A character: some prefix of 1..4 bytes is accepted by the strict RFC 3629 decoder of Spec/TagSpec.v
   (shortest form, no surrogates, at most U+10FFFF).  The code is prefix-free, so at most one length fits. *)
Definition utf8_head (bs : list N) : option (N * N) :=
  match utf8_decode (firstn 1 bs) with
  | Some c => Some (c, 1)
  | None =>
  match utf8_decode (firstn 2 bs) with
  | Some c => Some (c, 2)
  | None =>
  match utf8_decode (firstn 3 bs) with
  | Some c => Some (c, 3)
  | None =>
  match utf8_decode (firstn 4 bs) with
  | Some c => Some (c, 4)
  | None => None
  end end end end.

(* Otherwise a malformed sequence, whose extent is the MAXIMAL SUBPART (Unicode 15, section 3.9, "U+FFFD
   substitution of maximal subparts"; the WHATWG Encoding Standard prescribes the same): the longest
   prefix that is also a prefix of some well-formed sequence, or one byte if there is none.  The well-formed
   sequences are those of Table 3-7 of the Unicode Standard, row by row: *)
Definition cont : N * N := (128, 191).
Definition utf8_table : list (list (N * N)) :=
  [ [(0, 127)];
    [(194, 223); cont];
    [(224, 224); (160, 191); cont];
    [(225, 236); cont; cont];
    [(237, 237); (128, 159); cont];
    [(238, 239); cont; cont];
    [(240, 240); (144, 191); cont; cont];
    [(241, 243); cont; cont; cont];
    [(244, 244); (128, 143); cont; cont] ].

Definition in_range (r : N * N) (b : N) : bool := (fst r <=? b) && (b <=? snd r).

(* number of leading bytes of [bs] that follow the row *)
Fixpoint prefix_match (row : list (N * N)) (bs : list N) : N :=
  match row, bs with
  | r :: row', b :: bs' => if in_range r b then 1 + prefix_match row' bs' else 0
  | _, _ => 0
  end.

Definition maximal_subpart (bs : list N) : N :=
  N.max 1 (fold_right (fun row m => N.max (prefix_match row bs) m) 0 utf8_table).

Definition utf8_next (bs : list N) : piece :=
  match utf8_head bs with
  | Some (c, k) => PChar c k
  | None => PBad (maximal_subpart bs)
  end.

(* ------------------------------------------------------------------------------------------------ *)
(* UTF-16 (RFC 2781; errors as in the WHATWG Encoding Standard, "UTF-16 decoder")                     *)
(* ------------------------------------------------------------------------------------------------ *)
Definition unit_of (big_endian : bool) (b0 b1 : N) : N :=
  if big_endian then b0 * 256 + b1 else b1 * 256 + b0.
Definition is_high (u : N) : bool := (55296 <=? u) && (u <=? 56319).
Definition is_low (u : N) : bool := (56320 <=? u) && (u <=? 57343).
Definition astral (hi lo : N) : N := 65536 + (hi - 55296) * 1024 + (lo - 56320).

(* a code unit that is not a surrogate is a character; a high surrogate followed by a low one is a character;
   a high surrogate followed by anything else, a low surrogate on its own and a trailing single byte are
   malformed; a high surrogate followed by nothing but a trailing single byte is ONE malformed sequence of
   three bytes (end of input with both a pending surrogate and a pending byte is a single error) *)
Definition utf16_next (big_endian : bool) (bs : list N) : piece :=
  match bs with
  | [] => PBad 0
  | [_] => PBad 1
  | b0 :: b1 :: tl =>
      let u := unit_of big_endian b0 b1 in
      if is_high u then
        match tl with
        | c0 :: c1 :: _ =>
            let v := unit_of big_endian c0 c1 in
            if is_low v then PChar (astral u v) 4 else PBad 2
        | [_] => PBad 3
        | [] => PBad 2
        end
      else if is_low u then PBad 2
      else PChar u 2
  end.

Definition next_piece (e : encoding) : list N -> piece :=
  match e with
  | Utf8 => utf8_next
  | Utf16LE => utf16_next false
  | Utf16BE => utf16_next true
  end.

(* ------------------------------------------------------------------------------------------------ *)
(* What the four traps make of the pieces                                                            *)
(* ------------------------------------------------------------------------------------------------ *)
Inductive decoded :=
| DText (text : list N)                      (* Ok: the decoded text *)
| DError (byte_idx : N) (bad : list N)       (* "Invalid character sequence at {byte_idx}: {bad:?}" *)
| DCallbackError                             (* the callback's own message *)
| DAbnormal.                                 (* panic / no result: never the value of the specification *)

(* a callback, as far as the text is concerned: malformation_length, bytes_read_after_malformation,
   input_at_malformation, the output so far -> the output it leaves, or Break (with an empty message?) *)
Inductive tcb_result :=
| TCbContinue (text : list N)
| TCbBreak (empty_message : bool).
Definition tcallback := N -> N -> list N -> list N -> tcb_result.

Inductive strap :=
| SIgnore
| SStrict
| SReplace
| SCall (cb : tcallback).

Definition slice (input : list N) (off n : N) : list N := firstn (N.to_nat n) (skipn (N.to_nat off) input).

(* [off] = byte offset of the first piece in [input], [text] = what has been decoded so far *)
Fixpoint apply_trap (t : strap) (input : list N) (off : N) (ps : list piece) (text : list N) : decoded :=
  match ps with
  | [] => DText text
  | PChar c n :: ps' => apply_trap t input (off + n) ps' (text ++ [c])
  | PBad n :: ps' =>
      match t with
      | SIgnore => apply_trap t input (off + n) ps' text
      | SReplace => apply_trap t input (off + n) ps' (text ++ [REPLACEMENT])
      | SStrict => DError off (slice input off n)
      | SCall cb =>
          match cb n 0 (skipn (N.to_nat off) input) text with
          | TCbContinue text' => apply_trap t input (off + n) ps' text'
          | TCbBreak true => DError off (slice input off n)
          | TCbBreak false => DCallbackError
          end
      end
  end.

(* decoding in a given encoding *)
Definition decode_as (e : encoding) (t : strap) (input : list N) (skip : N) : decoded :=
  apply_trap t input skip (pieces (next_piece e) (skipn (N.to_nat skip) input)) [].

(* YamlDecoder::decode up to the call of load_from_str: detect (a byte-order mark is not part of the text),
   then decode *)
Definition decode_spec (t : strap) (input : list N) : decoded :=
  let '(e, k) := choose_encoding input in decode_as e t input k.

(* the text of a byte string that is well-formed in encoding e, if it is *)
Definition chars_of (ps : list piece) : option (list N) :=
  fold_right (fun p acc => match p, acc with PChar c _, Some t => Some (c :: t) | _, _ => None end) (Some []) ps.

(* ------------------------------------------------------------------------------------------------ *)
(* Reading the loop model's outcome as a specification value                                         *)
(* ------------------------------------------------------------------------------------------------ *)
(* The callback of the loop model sees and returns (text, capacity); the specification's sees the text.
   [xcb_of f g]: the callback whose effect on the text is f, and which leaves any capacity g it likes. *)
Definition xcb_of (f : tcallback) (g : N -> N -> list N -> list N * N -> N) : xcallback :=
  fun ml af rest tc =>
    match f ml af rest (fst tc) with
    | TCbContinue t' => XCbContinue t' (g ml af rest tc)
    | TCbBreak e => XCbBreak e
    end.

Definition xtrap_of (t : strap) (g : N -> N -> list N -> list N * N -> N) : xtrap :=
  match t with
  | SIgnore => XIgnore
  | SStrict => XStrict
  | SReplace => XReplace
  | SCall f => XCall (xcb_of f g)
  end.

Definition result_of (input : list N) (o : xoutcome) : decoded :=
  match o with
  | XDone text _ => DText text
  | XDecodeError idx ml => DError idx (slice input idx ml)
  | XCallbackError => DCallbackError
  | XPanicked _ | XOutOfFuel => DAbnormal
  end.
