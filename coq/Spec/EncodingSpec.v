(* Independent specification side of C18: what the UTF-8 / UTF-16LE / UTF-16BE encodings of a text are
   (RFC 3629, RFC 2781), and the byte-order marks.  Texts are lists of Unicode scalar values.
   Only the *shape of the first bytes* matters for the detection theorems; the encoders are nevertheless the
   complete ones so that the statements read as intended. *)
From Coq Require Import List NArith Bool.
Import ListNotations.
Require Import Decode.
Open Scope N_scope.

Definition utf8_char (c : N) : list N :=
  if c <? 128 then [c]
  else if c <? 2048 then [192 + c / 64; 128 + c mod 64]
  else if c <? 65536 then [224 + c / 4096; 128 + (c / 64) mod 64; 128 + c mod 64]
  else [240 + c / 262144; 128 + (c / 4096) mod 64; 128 + (c / 64) mod 64; 128 + c mod 64].

(* UTF-16 code units of a scalar value *)
Definition utf16_units (c : N) : list N :=
  if c <? 65536 then [c]
  else let v := c - 65536 in [55296 + v / 1024; 56320 + v mod 1024].

Definition unit_bytes (big_endian : bool) (u : N) : list N :=
  if big_endian then [u / 256; u mod 256] else [u mod 256; u / 256].

Definition utf16_char (big_endian : bool) (c : N) : list N :=
  flat_map (unit_bytes big_endian) (utf16_units c).

Definition encode (e : encoding) (text : list N) : list N :=
  match e with
  | Utf8 => flat_map utf8_char text
  | Utf16LE => flat_map (utf16_char false) text
  | Utf16BE => flat_map (utf16_char true) text
  end.

(* U+FEFF in each encoding *)
Definition bom (e : encoding) : list N :=
  match e with
  | Utf8 => [239; 187; 191]
  | Utf16LE => [255; 254]
  | Utf16BE => [254; 255]
  end.

(* The precondition of the detection theorem for input without a byte-order mark:
   the text starts with an ASCII character other than NUL, and (needed for UTF-8 only, where "a\0" and
   UTF-16LE "a" are the same two bytes) its second character is not NUL. *)
Definition ascii_start (text : list N) : bool :=
  match text with
  | c :: rest => (0 <? c) && (c <? 128) && match rest with d :: _ => negb (d =? 0) | [] => true end
  | [] => false
  end.

(* The weaker precondition that suffices for the two UTF-16 encodings *)
Definition ascii_first (text : list N) : bool :=
  match text with
  | c :: _ => (0 <? c) && (c <? 128)
  | [] => false
  end.
