(* C12: what "the true position" of an index in the input is.  line = 1 + number of line breaks before the
   index (CR LF counts once, a lone CR or LF once), col = characters since the last break. *)
From Coq Require Import List NArith Bool.
Import ListNotations.
Open Scope N_scope.

(* position after consuming exactly [n] characters of [s], starting at (line, col).  One character at a time:
   LF starts a new line; CR starts a new line unless an LF follows, in which case the pair counts as one break and
   the position between the two is still on the old line. *)
Fixpoint pos_go (s : list N) (n : nat) (line col : N) : N * N :=
  match n, s with
  | O, _ => (line, col)
  | S n, c :: r =>
      if (c =? 13) then
        match r with
        | 10 :: _ => pos_go r n line (col + 1)
        | _ => pos_go r n (line + 1) 0
        end
      else if (c =? 10) then pos_go r n (line + 1) 0 else pos_go r n line (col + 1)
  | S _, [] => (line, col)
  end.
Definition pos_at (orig : list N) (idx : N) : N * N := pos_go orig (N.to_nat idx) 1 0.

(* a reported marker (index, line, col) is a true position of [orig]: inside the input, and exact whenever it
   lies before the end *)
Definition marker_ok (orig : list N) (idx line col : N) : bool :=
  let len := N.of_nat (length orig) in
  (idx <=? len) &&
  ((idx =? len) || (let '(l, c) := pos_at orig idx in (line =? l) && (col =? c))).
