(* C09 — the block-layout sublanguage of YAML that an emitter of block collections writes, with its denotation: which
   texts are documents of this form, and which tree each of them stands for.  Written from YAML 1.2.2 chapters 7.3,
   8.1, 8.2 and 9.1, independently of the emitter model (this file imports nothing of it) and of the scanner/parser
   models; it is the "layout reader specification" of property C09:

     [Doc text y] : [text] is `---`, a line break, and one node in block layout that denotes the tree [y].

   Scalars are presented in one of three styles:
     plain          one line, [plain_ok]: non-empty, no leading/trailing space, none of the characters that end or
                    restart a plain scalar anywhere (deliberately conservative: no ':' and no '#' at all, no flow
                    indicator, quote, backslash, tab, break, NUL), first character not an indicator (a '-' followed by
                    a safe non-blank character is allowed: negative numbers), not starting like a document marker;
                    its value is what the resolver makes of the text ([Resolver.parse_from_cow], proved sound for the
                    core schema by property C08);
     double-quoted  one line, `"` body `"` where [dq_decode] (Spec/QuotedLine.v) reads the body: the value is that
                    string;
     block scalar   a case of Spec/BlockScalar.v (property C05) whose side conditions [case_ok] hold: the value is
                    [case_value] — a string.
   Collections are block sequences and block mappings whose entries all start at one column [n], one entry per line:
     sequence entry   `-` value
     mapping entry    key `:` value          (implicit key: a one-line scalar of at most SIMPLE_KEY_MAX characters)
                      `?` key LF `:` value   (explicit key: any node)
   where a value after `-`, `?` or an explicit `:` is: a space and a scalar or `[]` / `{}`; or a space and a block
   collection whose first entry follows on the same line (its entries are at column n + 2); or a line break and a
   block collection at a column n' > n.  After the `:` of an implicit key the same-line collection form does not
   exist.  Mapping keys must be pairwise different (YAML 1.2.2 3.2.1.3).
   Not in this language (the emitter does not write them): flow collections other than the empty ones, anchors,
   tags, comments, folded scalars, multi-line plain or quoted scalars, several documents. *)
From Coq Require Import List NArith ZArith Bool Arith.
Import ListNotations.
Require Import Parser Resolver Loader Consts QuotedLine BlockScalar.
Open Scope N_scope.

Definition sp (n : nat) : list N := repeat 32 n.

(* ---------------- scalars ---------------- *)
(* c-indicator *)
Definition bl_indicators : list N := [45; 63; 58; 44; 91; 93; 123; 125; 35; 38; 42; 33; 124; 62; 39; 34; 37; 64; 96].
(* characters a one-line plain scalar of this language never contains *)
Definition bl_unsafe : list N := [58; 35; 34; 39; 92; 9; 10; 13; 91; 93; 123; 125; 44; 96; 0].
Definition mem (c : N) (l : list N) : bool := existsb (N.eqb c) l.
Definition starts3 (c : N) (t : list N) : bool :=
  match t with a :: b :: d :: _ => (a =? c) && (b =? c) && (d =? c) | _ => false end.

Definition plain_ok (t : list N) : bool :=
  match t with
  | [] => false
  | c :: r =>
      negb (c =? 32) && negb (last t 0 =? 32)
      && (negb (mem c bl_indicators)
          || ((c =? 45) && match r with d :: _ => negb (d =? 32) && negb (mem d bl_unsafe) | [] => false end))
      && forallb (fun x => negb (mem x bl_unsafe)) t
      && negb (starts3 46 t) && negb (starts3 45 t)
  end.

(* [parent]: the column of the entries of the enclosing collection (None: the node is the document root) *)
Inductive Scalar (parent : option nat) : list N -> scalar -> Prop :=
| ScPlain t : plain_ok t = true -> Scalar parent t (parse_from_cow t)
| ScQuoted body fuel s : dq_decode fuel body = Some s -> Scalar parent (34 :: body ++ [34]) (SStr s)
| ScBlock b :
    bc_prefix b = [] -> bc_parent b = parent -> bc_eof b = EofNone -> bc_brk b = 0 -> case_ok b = true ->
    Scalar parent (case_text b) (SStr (case_value b)).

(* a scalar that may stand as an implicit key *)
Inductive KeyScalar : list N -> scalar -> Prop :=
| KsPlain t : plain_ok t = true -> N.of_nat (length t) <= SIMPLE_KEY_MAX -> KeyScalar t (parse_from_cow t)
| KsQuoted body fuel s : dq_decode fuel body = Some s -> N.of_nat (length (34 :: body ++ [34])) <= SIMPLE_KEY_MAX ->
    KeyScalar (34 :: body ++ [34]) (SStr s).

(* ---------------- collections ---------------- *)
(* entries at column n, each on its own line *)
Fixpoint join_entries (n : nat) (ents : list (list N)) : list N :=
  match ents with
  | [] => []
  | x :: r => match r with [] => x | _ => x ++ 10 :: sp n ++ join_entries n r end
  end.

Fixpoint distinct_keys (l : list yaml) : bool :=
  match l with [] => true | k :: r => negb (existsb (yaml_eqb k) r) && distinct_keys r end.

(* a node that fits on the rest of the line (a block scalar goes on below, indented more than [parent]) *)
Inductive Flat (parent : option nat) : list N -> yaml -> Prop :=
| FScalar t s : Scalar parent t s -> Flat parent t (YVal s)
| FEmptySeq : Flat parent [91; 93] (YSeq [])
| FEmptyMap : Flat parent [123; 125] (YMap []).

(* [Block n t y]: t is a block collection with entries at column n, from its first indicator on;
   [Val n t y]: what follows the indicator `-`, `?` or explicit `:` of an entry at column n;
   [MVal n t y]: what follows the `:` of an implicit key of an entry at column n;
   [Pair n t kv]: a mapping entry at column n *)
Inductive Block : nat -> list N -> yaml -> Prop :=
| BSeq n ents ys : ents <> [] -> Forall2 (Val n) ents ys ->
    Block n (join_entries n (map (cons 45) ents)) (YSeq ys)
| BMap n ents kvs : ents <> [] -> Forall2 (Pair n) ents kvs -> distinct_keys (map fst kvs) = true ->
    Block n (join_entries n ents) (YMap kvs)
with Val : nat -> list N -> yaml -> Prop :=
| VFlat n t y : Flat (Some n) t y -> Val n (32 :: t) y
| VSameLine n t y : Block (n + 2) t y -> Val n (32 :: t) y
| VBelow n n' t y : (n < n')%nat -> Block n' t y -> Val n (10 :: sp n' ++ t) y
with MVal : nat -> list N -> yaml -> Prop :=
| MFlat n t y : Flat (Some n) t y -> MVal n (32 :: t) y
| MBelow n n' t y : (n < n')%nat -> Block n' t y -> MVal n (10 :: sp n' ++ t) y
with Pair : nat -> list N -> yaml * yaml -> Prop :=
| PImplicit n kt k vt v : KeyScalar kt k -> MVal n vt v -> Pair n (kt ++ 58 :: vt) (YVal k, v)
| PExplicit n kt k vt v : Val n kt k -> Val n vt v -> Pair n (63 :: kt ++ 10 :: sp n ++ 58 :: vt) (k, v).

(* a document: the marker line, then the root node at column 0 *)
Inductive Doc : list N -> yaml -> Prop :=
| DFlat t y : Flat None t y -> Doc ([45; 45; 45; 10] ++ t) y
| DBlock t y : Block 0 t y -> Doc ([45; 45; 45; 10] ++ t) y.

(* ---------------- examples ---------------- *)
From Coq Require Import String Ascii.
Definition T (s : string) : list N :=
  map (fun a => let c := N_of_ascii a in if c =? 47 then 10 else c) (list_ascii_of_string s).   (* '/' stands for LF *)
Arguments T _%string.

Example ex_plain_ok : forallb plain_ok [T "a b"; T "-5"; T "~"; T "1.5e-7"; T "-.inf"; T "x-y"] = true.
Proof. reflexivity. Qed.
Example ex_plain_bad :
  existsb plain_ok [T ""; T " a"; T "a "; T "a: b"; T "a #b"; T "- a"; T "-"; T "?x"; T "..."; T "---"; T "[a"; T "a,b"; T "'a"] = false.
Proof. reflexivity. Qed.

Example ex_doc_seq : Doc (T "---/- a/- - 1/  - ~/-/  k: []") (YSeq [YVal (SStr (T "a")); YSeq [YVal (SInt 1%Z); YVal SNull]; YMap [(YVal (SStr (T "k")), YSeq [])]]).
Proof.
  apply DBlock.
  apply (BSeq 0 [T " a"; T " - 1/  - ~"; T "/  k: []"]); [discriminate|].
  apply Forall2_cons; [|apply Forall2_cons; [|apply Forall2_cons; [|apply Forall2_nil]]].
  - apply (VFlat 0 (T "a")). apply FScalar. apply (ScPlain (Some 0%nat) (T "a")). reflexivity.
  - apply (VSameLine 0 (T "- 1/  - ~")). apply (BSeq 2 [T " 1"; T " ~"]); [discriminate|].
    apply Forall2_cons; [|apply Forall2_cons; [|apply Forall2_nil]].
    + apply (VFlat 2 (T "1")). apply FScalar. apply (ScPlain (Some 2%nat) (T "1")). reflexivity.
    + apply (VFlat 2 (T "~")). apply FScalar. apply (ScPlain (Some 2%nat) (T "~")). reflexivity.
  - apply (VBelow 0 2 (T "k: []")); [repeat constructor|].
    apply (BMap 2 [T "k: []"] [(YVal (SStr (T "k")), YSeq [])]); [discriminate| |reflexivity].
    apply Forall2_cons; [|apply Forall2_nil]. apply (PImplicit 2 (T "k") (SStr (T "k")) (T " []")).
    + apply (KsPlain (T "k")); [reflexivity|vm_compute; discriminate].
    + apply (MFlat 2 (T "[]")). apply FEmptySeq.
Qed.
