(* C04 — specification side: what YAML 1.2.2 says the text of a flow scalar is.
   Written from the specification (5.7 escape sequences, 6.5 line folding, 7.3.1-7.3.3 flow scalar styles),
   independently of the generated tables (Gen/Escapes.v, Gen/CharTraits.v) and of the scanner model. *)
From Coq Require Import List NArith Bool.
Import ListNotations.
Open Scope N_scope.

(* ---- 5.7: the named escapes of double-quoted scalars, productions [42]-[59] -------------------------------- *)
(* (character after the backslash, code point it stands for) *)
Definition spec_named_escapes : list (N * N) :=
  [ (48, 0)        (* [42] \0  null              *)
  ; (97, 7)        (* [43] \a  bell              *)
  ; (98, 8)        (* [44] \b  backspace         *)
  ; (116, 9)       (* [45] \t  horizontal tab    *)
  ; (9, 9)         (* [45] \<TAB>                *)
  ; (110, 10)      (* [46] \n  line feed         *)
  ; (118, 11)      (* [47] \v  vertical tab      *)
  ; (102, 12)      (* [48] \f  form feed         *)
  ; (114, 13)      (* [49] \r  carriage return   *)
  ; (101, 27)      (* [50] \e  escape            *)
  ; (32, 32)       (* [51] \<SP> space           *)
  ; (34, 34)       (* [52] \ + double quote      *)
  ; (47, 47)       (* [53] \/  slash             *)
  ; (92, 92)       (* [54] \\  backslash         *)
  ; (78, 133)      (* [55] \N  next line  U+0085 *)
  ; (95, 160)      (* [56] \_  nbsp       U+00A0 *)
  ; (76, 8232)     (* [57] \L  line sep   U+2028 *)
  ; (80, 8233)     (* [58] \P  para sep   U+2029 *)
  ].

Fixpoint lookup (k : N) (l : list (N * N)) : option N :=
  match l with [] => None | (a, b) :: r => if k =? a then Some b else lookup k r end.

Definition spec_escape (c : N) : option N := lookup c spec_named_escapes.

(* the three numeric escapes [59]-[61]: introducer, number of hexadecimal digits *)
Definition spec_numeric_escapes : list (N * nat) := [ (120, 2%nat) (* \x *); (117, 4%nat) (* \u *); (85, 8%nat) (* \U *) ].

(* [37] ns-hex-digit: 0-9 | A-F | a-f *)
Definition hex_digit_value (c : N) : option N :=
  if (48 <=? c) && (c <=? 57) then Some (c - 48)
  else if (65 <=? c) && (c <=? 70) then Some (c - 55)
  else if (97 <=? c) && (c <=? 102) then Some (c - 87)
  else None.

Fixpoint hex_value_from (acc : N) (ds : list N) : option N :=
  match ds with
  | [] => Some acc
  | d :: r => match hex_digit_value d with Some v => hex_value_from (16 * acc + v) r | None => None end
  end.
Definition hex_value (ds : list N) : option N := hex_value_from 0 ds.

(* every digit of the 22 written out: (digit character, value) *)
Definition hex_digits : list (N * N) :=
  [ (48,0); (49,1); (50,2); (51,3); (52,4); (53,5); (54,6); (55,7); (56,8); (57,9);
    (97,10); (98,11); (99,12); (100,13); (101,14); (102,15);
    (65,10); (66,11); (67,12); (68,13); (69,14); (70,15) ].

(* a Unicode scalar value: a code point that is not a surrogate (what a Rust char / a YAML character can be) *)
Definition spec_scalar_value (v : N) : bool := (v <=? 55295) || ((57344 <=? v) && (v <=? 1114111)).

(* ---- 6.5 / 7.3: line folding of a multi-line flow scalar ------------------------------------------------- *)
(* A multi-line scalar, after its lines have been trimmed as the productions say (s-separate-in-line before a
   folded break and s-flow-line-prefix after any break are not content; blanks before an ESCAPED break are
   content and stay in the segment), is a first segment followed by (break, segment) pairs.
     Folded k  : a non-escaped break followed by k empty lines  (b-l-folded: b-as-space when k = 0,
                 b-l-trimmed = b-non-content l-empty+ when k > 0: each empty line is one line feed)
     Escaped k : backslash + break followed by k empty lines          ([130] s-double-escaped: the break is
                 non-content, each l-empty is one line feed) — double-quoted only *)
Inductive line_break := Folded (empty_lines : nat) | Escaped (empty_lines : nat).

Definition break_text (b : line_break) : list N :=
  match b with
  | Folded O => [32]
  | Folded k => repeat 10 k
  | Escaped k => repeat 10 k
  end.

Fixpoint fold_lines (first : list N) (rest : list (line_break * list N)) : list N :=
  match rest with
  | [] => first
  | (b, seg) :: r => first ++ break_text b ++ fold_lines seg r
  end.

(* The physical side of it for an ESCAPE-FREE scalar body (single-quoted after un-doubling, or a double-quoted
   scalar without backslashes): the body is cut at its breaks into physical lines; the first line loses its
   trailing blanks, the last its leading blanks, inner lines both (blanks around a break are dropped); an inner
   line that is blank only is an empty line. *)
Definition is_sp (c : N) : bool := (c =? 32) || (c =? 9).
Fixpoint drop_leading (l : list N) : list N :=
  match l with c :: r => if is_sp c then drop_leading r else l | [] => [] end.
Definition drop_trailing (l : list N) : list N := rev (drop_leading (rev l)).

(* lines after the first: [k] = empty lines seen since the last content line *)
Fixpoint fold_rest (k : nat) (ls : list (list N)) : list N :=
  match ls with
  | [] => []
  | [l] => break_text (Folded k) ++ drop_leading l                      (* the last line keeps its trailing blanks *)
  | l :: r => match drop_leading l with
              | [] => fold_rest (S k) r
              | _ => break_text (Folded k) ++ drop_trailing (drop_leading l) ++ fold_rest 0 r
              end
  end.
Definition fold_physical (ls : list (list N)) : list N :=
  match ls with
  | [] => []
  | [l] => l
  | l :: r => drop_trailing l ++ fold_rest 0 r
  end.

(* split at LF (CR LF and CR are normalised by the caller) *)
Fixpoint split_lf (cur : list N) (s : list N) : list (list N) :=
  match s with
  | [] => [rev cur]
  | c :: r => if c =? 10 then rev cur :: split_lf [] r else split_lf (c :: cur) r
  end.

(* 7.3.2: inside single quotes '' stands for one quote *)
Fixpoint sq_undouble (s : list N) : list N :=
  match s with
  | 39 :: 39 :: r => 39 :: sq_undouble r
  | c :: r => c :: sq_undouble r
  | [] => []
  end.
Definition sq_double (t : list N) : list N := flat_map (fun c => if c =? 39 then [39; 39] else [c]) t.

(* ---- presentations: how a text may be written (used to STATE the complete property) ---------------------- *)
(* what a double-quoted scalar is made of, outside its breaks *)
Inductive dq_item :=
| ILit (c : N)                                   (* a character written as itself (may be a blank) *)
| INamed (e v : N)                               (* backslash e, standing for v *)
| IHex (e : N) (ds : list N) (v : N).            (* backslash x|u|U and hexadecimal digits ds, standing for v *)
Definition item_src (i : dq_item) : list N :=
  match i with ILit c => [c] | INamed e _ => [92; e] | IHex e ds _ => 92 :: e :: ds end.
Definition item_val (i : dq_item) : N :=
  match i with ILit c => c | INamed _ v => v | IHex _ _ v => v end.
Definition is_lit_blank (i : dq_item) : bool := match i with ILit c => is_sp c | _ => false end.

(* nb-json without the quote and the backslash, and not white: a literal non-blank of a double-quoted scalar *)
Definition spec_dq_literal (c : N) : bool := (32 <? c) && (c <=? 1114111) && negb (c =? 34) && negb (c =? 92).
Definition opt_N_eqb (a b : option N) : bool :=
  match a, b with Some x, Some y => x =? y | None, None => true | _, _ => false end.
Definition item_wf (i : dq_item) : bool :=
  match i with
  | ILit c => spec_dq_literal c || is_sp c
  | INamed e v => opt_N_eqb (spec_escape e) (Some v)
  | IHex e ds v => existsb (fun p => (fst p =? e) && Nat.eqb (snd p) (length ds)) spec_numeric_escapes
                   && opt_N_eqb (hex_value ds) (Some v) && spec_scalar_value v
  end.

(* a break as it is written: trailing blank padding, the backslash of an escaped break, the break, empty lines
   (each blank only), the indentation of the continuation line (blank only).  5.4: a break is LF, CR or CR LF; all the
   breaks of one layout are written the same way (a CR directly followed by a LF would read as ONE break) *)
Inductive nl_kind := NlLF | NlCR | NlCRLF.
Definition nl_src (k : nl_kind) : list N := match k with NlLF => [10] | NlCR => [13] | NlCRLF => [13; 10] end.
Record brk_layout := { bl_escaped : bool; bl_pad : list N; bl_empties : list (list N); bl_indent : list N; bl_nl : nl_kind }.
Definition render_brk (b : brk_layout) : list N :=
  bl_pad b ++ (if bl_escaped b then [92] else []) ++ nl_src (bl_nl b)
  ++ flat_map (fun e => e ++ nl_src (bl_nl b)) (bl_empties b) ++ bl_indent b.
Definition brk_of (b : brk_layout) : line_break :=
  if bl_escaped b then Escaped (length (bl_empties b)) else Folded (length (bl_empties b)).
Fixpoint leading_spaces (l : list N) : nat := match l with 32 :: r => S (leading_spaces r) | _ => O end.
(* s-flow-line-prefix(n): n spaces, then any blanks;  l-empty(n): that, or fewer than n spaces and nothing else *)
Definition indent_wf (n : nat) (l : list N) : bool := forallb is_sp l && Nat.leb n (leading_spaces l).
Definition empty_wf (n : nat) (l : list N) : bool := indent_wf n l || (forallb (N.eqb 32) l && Nat.ltb (length l) n).
Definition brk_wf (n : nat) (b : brk_layout) : bool :=
  forallb is_sp (bl_pad b) && (negb (bl_escaped b) || match bl_pad b with [] => true | _ => false end)
  && forallb (empty_wf n) (bl_empties b) && indent_wf n (bl_indent b).

(* c-forbidden: a continuation line must not look like a document marker in column 0 *)
Definition marker_at_col0 (indent src : list N) : bool :=
  match indent with
  | [] => match src with
          | a :: b :: c :: r => ((a =? 45) && (b =? 45) && (c =? 45) || (a =? 46) && (b =? 46) && (c =? 46))
                                && match r with [] => true | d :: _ => is_sp d || (d =? 10) || (d =? 13) end
          | _ => false
          end
  | _ => false
  end.

Definition last_is_lit_blank (seg : list dq_item) : bool := match rev seg with i :: _ => is_lit_blank i | [] => false end.
Definition first_is_lit_blank (seg : list dq_item) : bool := match seg with i :: _ => is_lit_blank i | [] => false end.

(* single-quoted: literal characters only, a quote written twice, no escaped breaks *)
Definition sq_item_wf (i : dq_item) : bool :=
  match i with ILit c => ((32 <? c) && (c <=? 1114111)) || is_sp c | _ => false end.
Definition sq_src (i : dq_item) : list N :=
  match i with ILit c => if c =? 39 then [39; 39] else [c] | _ => item_src i end.

(* the segments after the first: [prev] is the segment before the break; [iwf] says which items the style allows,
   [src] how an item is written *)
Fixpoint seg_rest_wf (iwf : dq_item -> bool) (src : dq_item -> list N) (n : nat) (prev : list dq_item)
         (rest : list (brk_layout * list dq_item)) : bool :=
  match rest with
  | [] => true
  | (b, seg) :: r =>
      brk_wf n b && forallb iwf seg
      && (bl_escaped b || negb (last_is_lit_blank prev))     (* blanks before a folded break would be dropped *)
      && negb (first_is_lit_blank seg)                       (* blanks after a break are dropped *)
      && negb (marker_at_col0 (bl_indent b) (flat_map src seg))
      && (match r with [] => true | _ => match seg with [] => false | _ => true end end)   (* inner segments are not empty *)
      && seg_rest_wf iwf src n seg r
  end.
Definition dq_layout_wf (n : nat) (first : list dq_item) (rest : list (brk_layout * list dq_item)) : bool :=
  forallb item_wf first && seg_rest_wf item_wf item_src n first rest.
Definition dq_render (first : list dq_item) (rest : list (brk_layout * list dq_item)) : list N :=
  flat_map item_src first ++ flat_map (fun p => render_brk (fst p) ++ flat_map item_src (snd p)) rest.
Definition dq_text (first : list dq_item) (rest : list (brk_layout * list dq_item)) : list N :=
  fold_lines (map item_val first) (map (fun p => (brk_of (fst p), map item_val (snd p))) rest).

Definition sq_layout_wf (n : nat) (first : list dq_item) (rest : list (brk_layout * list dq_item)) : bool :=
  forallb sq_item_wf first && seg_rest_wf sq_item_wf sq_src n first rest
  && forallb (fun p => negb (bl_escaped (fst p))) rest.
Definition sq_render (first : list dq_item) (rest : list (brk_layout * list dq_item)) : list N :=
  flat_map sq_src first ++ flat_map (fun p => render_brk (fst p) ++ flat_map sq_src (snd p)) rest.

(* plain: lines of text (7.3.3), folded breaks only *)
Definition c_indicator (c : N) : bool :=
  existsb (N.eqb c) [45; 63; 58; 44; 91; 93; 123; 125; 35; 38; 42; 33; 124; 62; 39; 34; 37; 64; 96].
Definition c_flow_indicator (c : N) : bool := existsb (N.eqb c) [44; 91; 93; 123; 125].
(* c-printable without white space, breaks and the byte order mark *)
Definition ns_char (c : N) : bool :=
  (32 <? c) && (c <=? 1114111) && negb (c =? 65279) && negb ((127 <=? c) && (c <=? 159) && negb (c =? 133))
  && negb ((55296 <=? c) && (c <=? 57343)) && negb ((c =? 65534) || (c =? 65535)).
Definition ns_plain_safe (flow : bool) (c : N) : bool := ns_char c && negb (flow && c_flow_indicator c).
(* ns-plain-char at position i of a line: [prev] and [next] are the neighbours inside the line (0 = none) *)
Definition plain_char_wf (flow : bool) (prev c next : N) : bool :=
  if is_sp c then true
  else if c =? 58 then ns_plain_safe flow next
  else if c =? 35 then ns_char prev
  else ns_plain_safe flow c.
Fixpoint plain_line_chars_wf (flow : bool) (prev : N) (l : list N) : bool :=
  match l with
  | [] => true
  | c :: r => plain_char_wf flow prev c (hd 0 r) && plain_line_chars_wf flow c r
  end.
Definition plain_line_wf (flow : bool) (l : list N) : bool :=
  match l with [] => false | c :: _ => negb (is_sp c) && negb (is_sp (last l 0)) && plain_line_chars_wf flow 0 l end.
Definition plain_first_wf (flow : bool) (l : list N) : bool :=
  match l with
  | c :: r => negb (c_indicator c) || (((c =? 45) || (c =? 63) || (c =? 58)) && ns_plain_safe flow (hd 0 r))
  | [] => false
  end.
Definition plain_layout_wf (flow : bool) (n : nat) (first : list N) (rest : list (brk_layout * list N)) : bool :=
  plain_first_wf flow first && plain_line_wf flow first
  && forallb (fun p => brk_wf n (fst p) && negb (bl_escaped (fst p)) && plain_line_wf flow (snd p)
                       && negb (marker_at_col0 (bl_indent (fst p)) (snd p))) rest.
Definition plain_render (first : list N) (rest : list (brk_layout * list N)) : list N :=
  first ++ flat_map (fun p => render_brk (fst p) ++ snd p) rest.
Definition plain_text (first : list N) (rest : list (brk_layout * list N)) : list N :=
  fold_lines first (map (fun p => (brk_of (fst p), snd p)) rest).
