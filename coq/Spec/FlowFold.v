(* C04 — specification side: what YAML 1.2.2 says the text of a flow scalar is.
   Written from the specification (5.7 escape sequences, 6.5 line folding, 7.3.1-7.3.3 flow scalar styles),
   independently of the generated tables (Gen/Escapes.v, Gen/CharTraits.v) and of the scanner model. *)
From Coq Require Import List NArith Bool.
Import ListNotations.
Open Scope N_scope.

(* ---- 5.7: the named escapes of double-quoted scalars, productions [42]-[59] -------------------------------- *)
(* (character after the backslash, code point it stands for) *)
Definition spec_named_escapes : list (N * N) :=
  [ (48, 0)        (* [42] \0  null              *)
  ; (97, 7)        (* [43] \a  bell              *)
  ; (98, 8)        (* [44] \b  backspace         *)
  ; (116, 9)       (* [45] \t  horizontal tab    *)
  ; (9, 9)         (* [45] \<TAB>                *)
  ; (110, 10)      (* [46] \n  line feed         *)
  ; (118, 11)      (* [47] \v  vertical tab      *)
  ; (102, 12)      (* [48] \f  form feed         *)
  ; (114, 13)      (* [49] \r  carriage return   *)
  ; (101, 27)      (* [50] \e  escape            *)
  ; (32, 32)       (* [51] \<SP> space           *)
  ; (34, 34)       (* [52] \ + double quote      *)
  ; (47, 47)       (* [53] \/  slash             *)
  ; (92, 92)       (* [54] \\  backslash         *)
  ; (78, 133)      (* [55] \N  next line  U+0085 *)
  ; (95, 160)      (* [56] \_  nbsp       U+00A0 *)
  ; (76, 8232)     (* [57] \L  line sep   U+2028 *)
  ; (80, 8233)     (* [58] \P  para sep   U+2029 *)
  ].

Fixpoint lookup (k : N) (l : list (N * N)) : option N :=
  match l with [] => None | (a, b) :: r => if k =? a then Some b else lookup k r end.

Definition spec_escape (c : N) : option N := lookup c spec_named_escapes.

(* the three numeric escapes [59]-[61]: introducer, number of hexadecimal digits *)
Definition spec_numeric_escapes : list (N * nat) := [ (120, 2%nat) (* \x *); (117, 4%nat) (* \u *); (85, 8%nat) (* \U *) ].

(* [37] ns-hex-digit: 0-9 | A-F | a-f *)
Definition hex_digit_value (c : N) : option N :=
  if (48 <=? c) && (c <=? 57) then Some (c - 48)
  else if (65 <=? c) && (c <=? 70) then Some (c - 55)
  else if (97 <=? c) && (c <=? 102) then Some (c - 87)
  else None.

Fixpoint hex_value_from (acc : N) (ds : list N) : option N :=
  match ds with
  | [] => Some acc
  | d :: r => match hex_digit_value d with Some v => hex_value_from (16 * acc + v) r | None => None end
  end.
Definition hex_value (ds : list N) : option N := hex_value_from 0 ds.

(* every digit of the 22 written out: (digit character, value) *)
Definition hex_digits : list (N * N) :=
  [ (48,0); (49,1); (50,2); (51,3); (52,4); (53,5); (54,6); (55,7); (56,8); (57,9);
    (97,10); (98,11); (99,12); (100,13); (101,14); (102,15);
    (65,10); (66,11); (67,12); (68,13); (69,14); (70,15) ].

(* a Unicode scalar value: a code point that is not a surrogate (what a Rust char / a YAML character can be) *)
Definition spec_scalar_value (v : N) : bool := (v <=? 55295) || ((57344 <=? v) && (v <=? 1114111)).

(* ---- 6.5 / 7.3: line folding of a multi-line flow scalar ------------------------------------------------- *)
(* A multi-line scalar, after its lines have been trimmed as the productions say (s-separate-in-line before a
   folded break and s-flow-line-prefix after any break are not content; blanks before an ESCAPED break are
   content and stay in the segment), is a first segment followed by (break, segment) pairs.
     Folded k  : a non-escaped break followed by k empty lines  (b-l-folded: b-as-space when k = 0,
                 b-l-trimmed = b-non-content l-empty+ when k > 0: each empty line is one line feed)
     Escaped k : backslash + break followed by k empty lines          ([130] s-double-escaped: the break is
                 non-content, each l-empty is one line feed) — double-quoted only *)
Inductive line_break := Folded (empty_lines : nat) | Escaped (empty_lines : nat).

Definition break_text (b : line_break) : list N :=
  match b with
  | Folded O => [32]
  | Folded k => repeat 10 k
  | Escaped k => repeat 10 k
  end.

Fixpoint fold_lines (first : list N) (rest : list (line_break * list N)) : list N :=
  match rest with
  | [] => first
  | (b, seg) :: r => first ++ break_text b ++ fold_lines seg r
  end.

(* The physical side of it for an ESCAPE-FREE scalar body (single-quoted after un-doubling, or a double-quoted
   scalar without backslashes): the body is cut at its breaks into physical lines; the first line loses its
   trailing blanks, the last its leading blanks, inner lines both (blanks around a break are dropped); an inner
   line that is blank only is an empty line. *)
Definition is_sp (c : N) : bool := (c =? 32) || (c =? 9).
Fixpoint drop_leading (l : list N) : list N :=
  match l with c :: r => if is_sp c then drop_leading r else l | [] => [] end.
Definition drop_trailing (l : list N) : list N := rev (drop_leading (rev l)).

(* lines after the first: [k] = empty lines seen since the last content line *)
Fixpoint fold_rest (k : nat) (ls : list (list N)) : list N :=
  match ls with
  | [] => []
  | [l] => break_text (Folded k) ++ drop_leading l                      (* the last line keeps its trailing blanks *)
  | l :: r => match drop_leading l with
              | [] => fold_rest (S k) r
              | _ => break_text (Folded k) ++ drop_trailing (drop_leading l) ++ fold_rest 0 r
              end
  end.
Definition fold_physical (ls : list (list N)) : list N :=
  match ls with
  | [] => []
  | [l] => l
  | l :: r => drop_trailing l ++ fold_rest 0 r
  end.

(* split at LF (CR LF and CR are normalised by the caller) *)
Fixpoint split_lf (cur : list N) (s : list N) : list (list N) :=
  match s with
  | [] => [rev cur]
  | c :: r => if c =? 10 then rev cur :: split_lf [] r else split_lf (c :: cur) r
  end.

(* 7.3.2: inside single quotes '' stands for one quote *)
Fixpoint sq_undouble (s : list N) : list N :=
  match s with
  | 39 :: 39 :: r => 39 :: sq_undouble r
  | c :: r => c :: sq_undouble r
  | [] => []
  end.
Definition sq_double (t : list N) : list N := flat_map (fun c => if c =? 39 then [39; 39] else [c]) t.
