(* YAML 1.2 core schema (spec section 10.3.2), stated independently of the resolver model:
   boolean matchers for the tag-resolution regular expressions and the exact value each literal denotes. *)
From Coq Require Import List NArith ZArith Bool Lia.
Import ListNotations.
Require Import Resolver.
Open Scope Z_scope.

(* ---------------- YAML 1.2 core schema, stated independently ---------------- *)
Definition all_in (p : chr -> bool) (s : str) : bool := forallb p s.
Definition nonempty (s : str) : bool := match s with [] => false | _ => true end.
Definition is_oct (c : chr) := (48 <=? c)%N && (c <=? 55)%N.
Definition is_hexd (c : chr) := is_dig c || ((97 <=? c)%N && (c <=? 102)%N) || ((65 <=? c)%N && (c <=? 70)%N).
Definition sign_split (s : str) : bool * str :=
  match s with c :: r => if ch c 43 then (false, r) else if ch c 45 then (true, r) else (false, s) | [] => (false, []) end.

(* [-+]?[0-9]+ | 0o[0-7]+ | 0x[0-9a-fA-F]+ ; value as Z (unbounded) *)
Definition core_int (s : str) : option Z :=
  match strip_prefix [48;120]%N s with
  | Some d => if nonempty d && all_in is_hexd d then digits_val 16 d 0 else None
  | None =>
    match strip_prefix [48;111]%N s with
    | Some d => if nonempty d && all_in is_oct d then digits_val 8 d 0 else None
    | None => let '(neg, d) := sign_split s in
              if nonempty d && all_in is_dig d then
                match digits_val 10 d 0 with Some v => Some (if neg then - v else v) | None => None end
              else None
    end
  end.

Definition core_null (s : str) : bool :=
  inl s [s_null; lit [78;117;108;108]%N; s_NULL; s_tilde; []].
Definition core_bool (s : str) : option bool :=
  if inl s [s_true; lit [84;114;117;101]%N; lit [84;82;85;69]%N] then Some true
  else if inl s [s_false; lit [70;97;108;115;101]%N; lit [70;65;76;83;69]%N] then Some false else None.

(* ( \. [0-9]+ | [0-9]+ ( \. [0-9]* )? ) ( [eE] [-+]? [0-9]+ )?   ->  (mantissa, exponent10), exact *)
Definition exp_part (m e0 : Z) (r : str) : option (Z * Z) :=
  match r with
  | [] => Some (m, e0)
  | c :: r' =>
      if ch c 101 || ch c 69 then
        let '(eneg, ds) := sign_split r' in
        if nonempty ds && all_in is_dig ds then Some (m, e0 + (if eneg then - dval ds else dval ds)) else None
      else None
  end.
Definition core_number (b : str) : option (Z * Z) :=
  let '(ip, r1) := span_digits b in
  match r1 with
  | [] => if nonempty ip then Some (dval ip, 0) else None
  | c :: r =>
      if ch c 46 then
        let '(fp, r2) := span_digits r in
        if nonempty ip || nonempty fp then exp_part (dval (ip ++ fp)) (- Z.of_nat (length fp)) r2 else None
      else if nonempty ip then exp_part (dval ip) 0 r1 else None
  end.

(* [-+]? number  |  [-+]?\.(inf|Inf|INF) | \.(nan|NaN|NAN) *)
Definition core_float (s : str) : option fval :=
  if inl s [s_dnan; s_dNaN; s_dNAN] then Some FNan else
  let '(neg, b) := sign_split s in
  if inl b [s_dinf; s_dInf; s_dINF] then Some (FInf neg) else
  match core_number b with
  | Some (m, e) => Some (FDec neg m e)
  | None => None
  end.

(* ------------------------------------------------------------------------------------------------
   The property as a decidable relation between a plain scalar's text and the value it loaded as.
   sound: a non-string result is a core-schema literal of that type with that value;
   complete: JSON literals, in-range integers, floats and .inf/.nan spellings must be recognised. *)
Definition fval_eqb (a b : fval) : bool :=
  match a, b with
  | FNan, FNan => true
  | FInf x, FInf y => Bool.eqb x y
  | FDec n m e, FDec n' m' e' => Bool.eqb n n' && (m =? m') && (e =? e')
  | _, _ => false
  end.
Definition opt_eqb {A} (eqb : A -> A -> bool) (a b : option A) : bool :=
  match a, b with Some x, Some y => eqb x y | None, None => true | _, _ => false end.

Definition sound_b (s : str) (r : scalar) : bool :=
  match r with
  | SNull => core_null s
  | SBool b => opt_eqb Bool.eqb (core_bool s) (Some b)
  | SInt z => opt_eqb Z.eqb (core_int s) (Some z)
  | SFloat f => opt_eqb fval_eqb (core_float s) (Some f)
  | SStr t => str_eqb t s
  end.

Definition in_i64 (z : Z) : bool := (i64_min <=? z) && (z <=? i64_max).
Definition scalar_eqb (a b : scalar) : bool :=
  match a, b with
  | SNull, SNull => true
  | SBool x, SBool y => Bool.eqb x y
  | SInt x, SInt y => x =? y
  | SFloat x, SFloat y => fval_eqb x y
  | SStr x, SStr y => str_eqb x y
  | _, _ => false
  end.

(* what completeness demands, when it demands anything *)
Definition required (s : str) : option scalar :=
  if inl s [s_null; s_tilde] then Some SNull
  else if str_eqb s s_true then Some (SBool true)
  else if str_eqb s s_false then Some (SBool false)
  else match core_int s with
       | Some z => if in_i64 z then Some (SInt z)
                   else match core_float s with Some f => Some (SFloat f) | None => None end
       | None => match core_float s with Some f => Some (SFloat f) | None => None end
       end.

Definition c08_untagged_ok (s : str) (r : scalar) : bool :=
  sound_b s r && match required s with Some q => scalar_eqb q r | None => true end.

(* ---------------- tagged plain scalars ----------------
   [r] = None stands for BadValue.  Under a core tag the result is of exactly that type and agrees with
   the untagged reading (an integer may widen to a float), or is BadValue; own-type literals must be accepted. *)
Definition dec_int (s : str) : option Z :=
  let '(neg, d) := sign_split s in
  if nonempty d && all_in is_dig d then
    match digits_val 10 d 0 with Some v => Some (if neg then - v else v) | None => None end
  else None.
Definition fval_is_int (f : fval) (z : Z) : bool :=
  match f with FDec neg m e => (e =? 0) && ((if neg then - m else m) =? z) | _ => false end.

Definition c08_tagged_ok (suffix : str) (s : str) (untagged : scalar) (r : option scalar) : bool :=
  if str_eqb suffix w_int then
    match r with
    | None => match dec_int s with Some z => negb (in_i64 z) | None => true end
    | Some (SInt z) => scalar_eqb untagged (SInt z)
    | Some _ => false
    end
  else if str_eqb suffix w_float then
    match r with
    | None => match core_float s with Some _ => false | None => true end
    | Some (SFloat f) => match untagged with
                         | SFloat g => fval_eqb f g
                         | SInt z => fval_is_int f z
                         | _ => false
                         end
    | Some _ => false
    end
  else if str_eqb suffix w_bool then
    match r with
    | None => negb (str_eqb s s_true || str_eqb s s_false)
    | Some (SBool b) => scalar_eqb untagged (SBool b)
    | Some _ => false
    end
  else if str_eqb suffix w_null then
    match r with
    | None => negb (inl s [s_null; s_tilde])
    | Some SNull => scalar_eqb untagged SNull
    | Some _ => false
    end
  else match r with Some (SStr t) => str_eqb t s | _ => false end.

(* ------------------------------------------------------------------------------------------------
   IEEE-754 binary64 round-to-nearest-even, as a checkable certificate in plain Z arithmetic:
   [nearest_double neg m e bits] holds iff [bits] is the double nearest to (-1)^neg * m * 10^e.
   (The model carries exact decimals; that the implementation's f64 is the correctly rounded one is
   checked with this on every float the correspondence run sees.) *)
Definition pow10 (n : Z) : Z := 10 ^ n.
Definition pow2 (n : Z) : Z := 2 ^ n.
(* compare a*10^e with b*2^k, a b >= 0 *)
Definition cmp_scaled (a e b k : Z) : comparison :=
  let l := a * (if 0 <=? e then pow10 e else 1) * (if 0 <=? k then 1 else pow2 (- k)) in
  let r := b * (if 0 <=? k then pow2 k else 1) * (if 0 <=? e then 1 else pow10 (- e)) in
  l ?= r.
Definition le_c (c : comparison) := match c with Gt => false | _ => true end.
Definition lt_c (c : comparison) := match c with Lt => true | _ => false end.

Definition nearest_double (neg : bool) (m e : Z) (bits : Z) : bool :=
  let sign := bits / 2 ^ 63 in
  let ex := (bits / 2 ^ 52) mod 2048 in
  let frac := bits mod 2 ^ 52 in
  (* keep the exact comparisons small: far outside the binary64 range the answer is known *)
  let ndig := Z.log2 m / 3 + 1 in                      (* >= number of decimal digits of m *)
  if (m =? 0) then (ex =? 0) && (frac =? 0)            (* +0 or -0 *)
  else if negb (Bool.eqb neg (sign =? 1)) then false
  else if 400 <? e then (ex =? 2047) && (frac =? 0)    (* >= 10^400: overflows to infinity *)
  else if e + ndig <? -400 then (ex =? 0) && (frac =? 0)   (* < 10^-400: underflows to zero *)
  else if ex =? 2047 then
    (frac =? 0) && negb (lt_c (cmp_scaled m e (2 ^ 54 - 1) 970))
  else
    let a := if ex =? 0 then frac else 2 ^ 52 + frac in
    let k := if ex =? 0 then -1074 else ex - 1075 in
    let even := (a mod 2 =? 0) in
    (* upper midpoint (2a+1)*2^(k-1); below the largest finite double's upper midpoint by the inf rule *)
    let up := cmp_scaled m e (2 * a + 1) (k - 1) in
    let up_ok := if even then le_c up else lt_c up in
    (* lower midpoint: (2a-1)*2^(k-1), or (4a-1)*2^(k-2) at a binade boundary *)
    let boundary := (frac =? 0) && (1 <? ex) in
    let lo := if boundary then cmp_scaled m e (4 * a - 1) (k - 2) else cmp_scaled m e (2 * a - 1) (k - 1) in
    let lo_ok := if a =? 0 then true else (if even then negb (lt_c lo) else match lo with Gt => true | _ => false end) in
    up_ok && lo_ok && ((ex <? 2046) || (frac <? 2 ^ 52 - 1) || lt_c (cmp_scaled m e (2 ^ 54 - 1) 970)).

Example nearest_1 : nearest_double false 1 0 4607182418800017408 = true. Proof. vm_compute. reflexivity. Qed.
Example nearest_01 : nearest_double false 1 (-1) 4591870180066957722 = true. Proof. vm_compute. reflexivity. Qed.
Example nearest_01_wrong : nearest_double false 1 (-1) 4591870180066957721 = false. Proof. vm_compute. reflexivity. Qed.
Example nearest_inf : nearest_double false 1 400 9218868437227405312 = true. Proof. vm_compute. reflexivity. Qed.
Example nearest_tiny : nearest_double true 1 (-400) 9223372036854775808 = true. Proof. vm_compute. reflexivity. Qed.
Example nearest_huge : nearest_double false 1 4000000000 9218868437227405312 = true. Proof. vm_compute. reflexivity. Qed.
Example nearest_minute : nearest_double false 123 (-4000000000) 0 = true. Proof. vm_compute. reflexivity. Qed.
Example nearest_max : nearest_double false 17976931348623157 292 9218868437227405311 = true. Proof. vm_compute. reflexivity. Qed.

(* ---------------- the oracle applied to implementation results (floats arrive as f64 bit patterns) -------- *)
Inductive iscalar := INull | IBool (b : bool) | IInt (z : Z) | IFloat (bits : Z) | IStr (s : str).
Definition bits_nan (bits : Z) : bool := ((bits / 2 ^ 52) mod 2048 =? 2047) && negb (bits mod 2 ^ 52 =? 0).
Definition fval_matches (f : fval) (bits : Z) : bool :=
  match f with
  | FNan => bits_nan bits
  | FInf neg => bits =? (if neg then 18442240474082181120 else 9218868437227405312)
  | FDec neg m e => nearest_double neg m e bits
  end.
(* the only float value a sound result can have for text [s] is the one the spec assigns to [s] *)
Definition lift (s : str) (r : iscalar) : option scalar :=
  match r with
  | INull => Some SNull | IBool b => Some (SBool b) | IInt z => Some (SInt z) | IStr t => Some (SStr t)
  | IFloat bits => match core_float s with
                   | Some f => if fval_matches f bits then Some (SFloat f) else None
                   | None => None
                   end
  end.
Definition c08_impl_untagged_ok (s : str) (r : iscalar) : bool :=
  match lift s r with Some q => c08_untagged_ok s q | None => false end.
Definition c08_impl_tagged_ok (suffix s : str) (untagged : iscalar) (r : option iscalar) : bool :=
  match lift s untagged with
  | None => false
  | Some u => match r with
              | None => c08_tagged_ok suffix s u None
              | Some x => match lift s x with Some q => c08_tagged_ok suffix s u (Some q) | None => false end
              end
  end.
Definition c08_impl_string_ok (s : str) (r : option iscalar) : bool :=
  match r with Some (IStr t) => str_eqb t s | _ => false end.
