(* Scratch prototype: the YAML event grammar as (1) an inductive definition, (2) a stack acceptor. *)
From Coq Require Import List NArith Bool.
Import ListNotations.
Require Import Parser.

(* ---- (1) readable spec ---- *)
Inductive node : list event -> Prop :=
| NScalar v st a t : node [EScalar v st a t]
| NAlias i : node [EAlias i]
| NSeq a t items : nodes items -> node (ESequenceStart a t :: items ++ [ESequenceEnd])
| NMap a t items : pairs items -> node (EMappingStart a t :: items ++ [EMappingEnd])
with nodes : list event -> Prop :=
| NsNil : nodes []
| NsCons n r : node n -> nodes r -> nodes (n ++ r)
with pairs : list event -> Prop :=
| PsNil : pairs []
| PsCons k v r : node k -> node v -> pairs r -> pairs (k ++ v ++ r).

Inductive docs : list event -> Prop :=
| DNil : docs []
| DCons e n r : node n -> docs r -> docs (EDocumentStart e :: n ++ EDocumentEnd :: r).

Definition sentence (evs : list event) : Prop :=
  exists ds, docs ds /\ evs = EStreamStart :: ds ++ [EStreamEnd].

Definition sentence_prefix (evs : list event) : Prop :=
  exists rest, sentence (evs ++ rest).

(* ---- (2) acceptor ---- *)
Inductive frame := FSeq | FMapKey | FMapVal | FDoc | FDocDone.
Inductive gstate := GInit | GStream (stk : list frame) | GEnd.

(* a node has just been completed under stack stk *)
Definition complete (stk : list frame) : option (list frame) :=
  match stk with
  | FSeq :: r => Some (FSeq :: r)
  | FMapKey :: r => Some (FMapVal :: r)
  | FMapVal :: r => Some (FMapKey :: r)
  | FDoc :: r => Some (FDocDone :: r)
  | _ => None
  end.

(* may a node start here? *)
Definition node_ok (stk : list frame) : bool :=
  match stk with
  | FSeq :: _ | FMapKey :: _ | FMapVal :: _ | FDoc :: _ => true
  | _ => false
  end.

Definition on_stream (g : gstate) (f : list frame -> option gstate) : option gstate :=
  match g with GStream stk => f stk | _ => None end.

Definition gstep (g : gstate) (e : event) : option gstate :=
  match e with
  | EStreamStart => match g with GInit => Some (GStream []) | _ => None end
  | EStreamEnd => on_stream g (fun stk => match stk with [] => Some GEnd | _ => None end)
  | EDocumentStart _ => on_stream g (fun stk => match stk with [] => Some (GStream [FDoc]) | _ => None end)
  | EDocumentEnd => on_stream g (fun stk => match stk with [FDocDone] => Some (GStream []) | _ => None end)
  | EScalar _ _ _ _ | EAlias _ => on_stream g (fun stk => option_map GStream (complete stk))
  | ESequenceStart _ _ => on_stream g (fun stk => if node_ok stk then Some (GStream (FSeq :: stk)) else None)
  | EMappingStart _ _ => on_stream g (fun stk => if node_ok stk then Some (GStream (FMapKey :: stk)) else None)
  | ESequenceEnd => on_stream g (fun stk => match stk with FSeq :: r => option_map GStream (complete r) | _ => None end)
  | EMappingEnd => on_stream g (fun stk => match stk with FMapKey :: r => option_map GStream (complete r) | _ => None end)
  end.

Fixpoint grun (g : gstate) (evs : list event) : option gstate :=
  match evs with
  | [] => Some g
  | e :: r => match gstep g e with Some g' => grun g' r | None => None end
  end.

(* ---- anchor ids ---- *)
Local Open Scope N_scope.
(* the event-level check: [n] = number of ids handed out so far *)
Definition aev (n : N) (e : event) : option N :=
  let fresh aid := if aid =? 0 then Some n else if aid =? n + 1 then Some (n + 1) else None in
  match e with
  | EAlias id => if (1 <=? id) && (id <=? n) then Some n else None
  | EScalar _ _ aid _ => fresh aid
  | ESequenceStart aid _ => fresh aid
  | EMappingStart aid _ => fresh aid
  | _ => Some n
  end.
Fixpoint arun (n : N) (evs : list event) : option N :=
  match evs with
  | [] => Some n
  | e :: r => match aev n e with Some n' => arun n' r | None => None end
  end.

