(* C05 — specification of block scalars, written from YAML 1.2.2 chapter 8.1 independently of the scanner model
   (this file imports nothing of the model).

   Texts are lists of Unicode scalar values ([list N]).  Parts:
     1. the line model ([bline]) and the value a block scalar denotes ([block_value]);
     2. raw lines (leading spaces, rest), the content indentation ([content_indent]) and the classification of raw
        lines into the line model ([classify]);
     3. a renderer ([render_block], [case_text]) that writes a block scalar down, and the decidable side conditions
        under which the rendering is the YAML text of exactly that scalar ([case_ok]).

   Readings fixed here (see the notes at the definitions):
     R1  the end of the input terminates a line like a line break does (yaml-test-suite JEF9-02, and the case
         "foo: |\n  x\n   <eof>" = "x\n \n"): the value does not depend on the presence of a final line break;
     R2  an indentation indicator m at top level gives content indentation m (the parent indentation -1 counts as 0,
         as in libyaml and every implementation we know), not m-1. *)
From Coq Require Import List NArith Bool Arith.
Import ListNotations.
Open Scope N_scope.

Definition LF : N := 10.
Definition SP : N := 32.

Inductive chomp := CStrip | CClip | CKeep.

(* ------------------------------------------------------------------------------------------ *)
(* 1. Lines and the value                                                                      *)
(* ------------------------------------------------------------------------------------------ *)
(* A line of the scalar relative to the content indentation n:
     Text e s : n + e spaces, then s.  s does not start with a space, has no break / NUL, and e spaces ++ s is
                not empty (a line of more than n spaces and nothing else is the content line [Text e []], e > 0:
                l-nb-literal-text / s-nb-spaced-text);
     Blank k  : k <= n spaces and nothing else — an empty line (l-empty). *)
Inductive bline :=
| Text (indent_extra : nat) (s : list N)
| Blank (spaces : nat).

Definition spaces (k : nat) : list N := repeat SP k.
Definition lfs (k : nat) : list N := repeat LF k.
Definition line_text (e : nat) (s : list N) : list N := spaces e ++ s.
Definition is_white (c : N) : bool := (c =? 32) || (c =? 9).

(* s-nb-spaced-text: the content starts with a space or a tab ("more-indented" lines); otherwise s-nb-folded-text *)
Definition spaced (e : nat) (s : list N) : bool :=
  match e with
  | S _ => true
  | O => match s with c :: _ => is_white c | [] => false end
  end.

(* What stands between the previous content line and the next one, [k] empty lines lying between them.
   prev = None: there is no previous content line (leading empty lines: l-empty*, one line feed each).
   literal: b-as-line-feed, then one line feed per empty line (b-nb-literal-next, l-nb-literal-text).
   folded, both lines s-nb-folded-text: b-l-folded = b-as-space (k = 0) or b-l-trimmed (k > 0: the first break is
     b-non-content, each empty line one line feed);
   folded, one of them spaced: b-as-line-feed + l-empty* (b-l-spaced, or the b-as-line-feed of l+nb-diff-lines). *)
Definition sep (literal : bool) (prev : option bool) (k : nat) (sp : bool) : list N :=
  match prev with
  | None => lfs k
  | Some psp =>
      if negb literal && negb psp && negb sp
      then match k with O => [SP] | S _ => lfs k end
      else lfs (S k)
  end.

(* the text up to and including the last content line ([k]: empty lines seen since the previous content line) *)
Fixpoint body (literal : bool) (prev : option bool) (k : nat) (ls : list bline) : list N :=
  match ls with
  | [] => []
  | Blank _ :: r => body literal prev (S k) r
  | Text e s :: r => sep literal prev k (spaced e s) ++ line_text e s ++ body literal (Some (spaced e s)) 0 r
  end.

Definition is_text (l : bline) : bool := match l with Text _ _ => true | Blank _ => false end.
Definition has_text (ls : list bline) : bool := existsb is_text ls.
Fixpoint leading_blanks (ls : list bline) : nat :=
  match ls with Blank _ :: r => S (leading_blanks r) | _ => O end.
Definition trailing_blanks (ls : list bline) : nat := leading_blanks (rev ls).

(* 8.1.1.2 chomping.  With content: b-chomped-last is dropped (strip) or one line feed (clip, keep), the trailing
   empty lines (l-chomped-empty) are dropped (strip, clip: l-strip-empty) or one line feed each (keep:
   l-keep-empty).  Without any content line only l-chomped-empty remains: nothing, or under keep one line feed
   per empty line. *)
Definition block_value (literal : bool) (c : chomp) (ls : list bline) : list N :=
  if has_text ls then
    body literal None 0 ls ++
    match c with CStrip => [] | CClip => [LF] | CKeep => lfs (S (trailing_blanks ls)) end
  else
    match c with CKeep => lfs (length ls) | _ => [] end.

(* ------------------------------------------------------------------------------------------ *)
(* 2. Raw lines, content indentation, classification                                           *)
(* ------------------------------------------------------------------------------------------ *)
(* a raw line: its leading spaces and the rest (which does not start with a space) *)
Definition rline := (nat * list N)%type.

Fixpoint first_text_indent (ls : list rline) : option nat :=
  match ls with
  | [] => None
  | (k, []) :: r => first_text_indent r
  | (k, _ :: _) :: _ => Some k
  end.
Definition longest (ls : list rline) : nat := fold_right (fun l m => Nat.max (fst l) m) O ls.

(* parent = None: top level (indentation -1); Some p: the block scalar is a value / an entry of a block
   collection of indentation p.  The content must be indented by at least [parent_min]. *)
Definition parent_min (parent : option nat) : nat := match parent with None => O | Some p => S p end.

(* 8.1.1.1: the indicator if there is one (reading R2), else the indentation of the first non-empty line, else
   (no non-empty line) that of the longest line — at least the least legal indentation. *)
Definition content_indent (parent : option nat) (explicit : option nat) (raw : list rline) : nat :=
  match explicit with
  | Some m => match parent with None => m | Some p => (p + m)%nat end
  | None => match first_text_indent raw with
            | Some k => k
            | None => Nat.max (longest raw) (parent_min parent)
            end
  end.

Definition classify (n : nat) (l : rline) : bline :=
  match snd l with
  | [] => if Nat.leb (fst l) n then Blank (fst l) else Text (fst l - n) []
  | s => Text (fst l - n) s
  end.

(* ------------------------------------------------------------------------------------------ *)
(* 3. Rendering                                                                                *)
(* ------------------------------------------------------------------------------------------ *)
Definition render_line (n : nat) (l : bline) : list N :=
  match l with Text e s => spaces (n + e) ++ s | Blank k => spaces k end.

(* how the input goes on after the last line *)
Inductive eof_shape :=
| EofNewline                  (* a final line break, then the end of the input *)
| EofNone                     (* the end of the input right after the last line *)
| EofRest (rest : list N).    (* a line break, then a less indented line (sibling key / entry, document marker,
                                 comment) and whatever follows it *)

Definition header (literal : bool) (c : chomp) (explicit : option nat) (digit_first : bool) : list N :=
  let ch := match c with CStrip => [45] | CClip => [] | CKeep => [43] end in
  let d := match explicit with Some m => [48 + N.of_nat m] | None => [] end in
  (if literal then 124 else 62) :: (if digit_first then d ++ ch else ch ++ d).

(* the block scalar from its indicator on: header, header comment [hc], every line preceded by a line break *)
Definition render_block (n : nat) (literal : bool) (c : chomp) (explicit : option nat) (digit_first : bool)
           (hc : list N) (lines : list bline) (eof : eof_shape) : list N :=
  header literal c explicit digit_first ++ hc ++
  flat_map (fun l => LF :: render_line n l) lines ++
  match eof with EofNewline => [LF] | EofNone => [] | EofRest r => LF :: r end.

(* line break style of the whole text: 0 = LF, 1 = CR LF, 2 = CR (all are b-break; the value is normalised) *)
Definition with_breaks (brk : N) (t : list N) : list N :=
  flat_map (fun c => if c =? 10 then (if brk =? 1 then [13; 10] else if brk =? 2 then [13] else [10]) else [c]) t.

Record bcase := {
  bc_literal : bool; bc_chomp : chomp; bc_explicit : option nat; bc_digit_first : bool;
  bc_parent : option nat;          (* indentation of the parent collection, None at top level *)
  bc_prefix : list N;              (* the text in front of the indicator: "--- ", "a:\n  b: ", "- - ", ... *)
  bc_hc : list N;                  (* what follows the indicators on the header line: "", " ", " # c" *)
  bc_raw : list rline;
  bc_eof : eof_shape;
  bc_brk : N }.

Definition case_indent (b : bcase) : nat := content_indent (bc_parent b) (bc_explicit b) (bc_raw b).
Definition case_lines (b : bcase) : list bline := map (classify (case_indent b)) (bc_raw b).
Definition case_text (b : bcase) : list N :=
  with_breaks (bc_brk b)
    (bc_prefix b ++ render_block (case_indent b) (bc_literal b) (bc_chomp b) (bc_explicit b) (bc_digit_first b)
                                 (bc_hc b) (case_lines b) (bc_eof b)).
Definition case_value (b : bcase) : list N := block_value (bc_literal b) (bc_chomp b) (case_lines b).

(* ---- side conditions ---- *)
Definition nb_char (c : N) : bool := negb ((c =? 10) || (c =? 13) || (c =? 0) || (c =? 65279)).
Definition rest_text_ok (s : list N) : bool :=
  forallb nb_char s && match s with c :: _ => negb (c =? 32) | [] => true end.

(* c-forbidden: a line starting with "---" or "..." followed by a blank or the end of the line *)
Definition marker_line (s : list N) : bool :=
  match s with
  | a :: b :: c :: r =>
      (((a =? 45) && (b =? 45) && (c =? 45)) || ((a =? 46) && (b =? 46) && (c =? 46))) &&
      match r with [] => true | d :: _ => is_white d end
  | _ => false
  end.

Fixpoint leading_raw_blanks_le (n : nat) (ls : list rline) : bool :=
  match ls with
  | (k, []) :: r => Nat.leb k n && leading_raw_blanks_le n r
  | _ => true
  end.

(* header comment: nothing, or white space, optionally followed by a comment *)
Fixpoint hc_tail_ok (s : list N) : bool :=
  match s with
  | [] => true
  | c :: r => if is_white c then hc_tail_ok r else (c =? 35) && forallb nb_char r
  end.
Definition hc_ok (s : list N) : bool :=
  match s with [] => true | c :: _ => is_white c && hc_tail_ok s end.

Fixpoint strip_spaces (k : nat) (s : list N) : nat * list N :=
  match s with
  | c :: r => if c =? 32 then strip_spaces (S k) r else (k, s)
  | [] => (k, s)
  end.
Definition first_line (s : list N) : list N :=
  (fix go (s : list N) := match s with [] => [] | c :: r => if (c =? 10) || (c =? 13) then [] else c :: go r end) s.

(* the line after the scalar: less indented than the content and not part of it.
   Under a collection of indentation p: at most p spaces (a sibling or an outer node), or a comment less indented
   than the content once there is content (l-trail-comments).  At top level: a document marker at column 0, or
   such a comment.  The line starts with a character of YAML text (not a tab, and not NUL, which no YAML stream
   contains and which the scanner cannot tell from the end of the input). *)
Definition rest_ok (parent : option nat) (n : nat) (text : bool) (r : list N) : bool :=
  let '(j, t) := strip_spaces O (first_line r) in
  match t with
  | [] => false
  | c :: _ =>
      negb (c =? 9) && negb (c =? 0) &&
      (((c =? 35) && Nat.ltb j n && text) ||
       match parent with
       | Some p => Nat.leb j p
       | None => Nat.eqb j O && marker_line t
       end)
  end.

Definition case_ok (b : bcase) : bool :=
  let n := case_indent b in
  let raw := bc_raw b in
  (* texts: no breaks, split correctly *)
  forallb (fun l => rest_text_ok (snd l)) raw &&
  (* content lines are indented by at least n; n is legal *)
  forallb (fun l => match snd l with [] => true | _ => Nat.leb n (fst l) end) raw &&
  Nat.leb (parent_min (bc_parent b)) n &&
  match bc_explicit b with
  | Some m => Nat.leb 1 m && Nat.leb m 9
  | None => leading_raw_blanks_le n raw          (* leading empty lines are not longer than the first content line *)
  end &&
  (* top level, content at column 0: no content line may look like a document marker *)
  (negb (Nat.eqb n O) || forallb (fun l => negb (Nat.eqb (fst l) O && marker_line (snd l))) raw) &&
  hc_ok (bc_hc b) &&
  match bc_eof b with
  | EofNewline => true
  | EofNone => match rev raw with [] => true | (k, s) :: _ => negb (Nat.eqb k O) || match s with [] => false | _ => true end end
  | EofRest r => rest_ok (bc_parent b) n (has_text (case_lines b)) r
  end.

(* ------------------------------------------------------------------------------------------ *)
(* Examples of the YAML 1.2.2 specification (a slash stands for a line feed)                     *)
(* ------------------------------------------------------------------------------------------ *)
From Coq Require Import String Ascii.
Definition L (s : string) : list N :=
  map (fun a => let c := N_of_ascii a in if c =? 47 then 10 else c) (list_ascii_of_string s).

Definition R (k : nat) (s : string) : rline := (k, L s).
Arguments L _%string.
Arguments R _%nat _%string.

(* Example 8.1 / 8.2: indentation indicators *)
Example ex_8_2_detected : block_value true CClip [Text 0 (L "detected")] = L "detected/". Proof. reflexivity. Qed.
Example ex_8_2_explicit : block_value true CClip [Blank 0; Blank 0; Text 0 (L "# text")] = L "//# text/". Proof. reflexivity. Qed.
Example ex_8_2_folded_explicit : block_value false CClip (map (classify 1) [R 2 "explicit"]) = L " explicit/". Proof. reflexivity. Qed.
Example ex_8_2_tab : block_value false CClip (map (classify 1) [(1%nat, [9]); R 1 "detected"]) = [9] ++ L "/detected/".
Proof. reflexivity. Qed.
(* Example 8.4 / 8.5: chomping *)
Example ex_8_4_strip : block_value true CStrip [Text 0 (L "text")] = L "text". Proof. reflexivity. Qed.
Example ex_8_4_clip : block_value true CClip [Text 0 (L "text")] = L "text/". Proof. reflexivity. Qed.
Example ex_8_4_keep : block_value true CKeep [Text 0 (L "text")] = L "text/". Proof. reflexivity. Qed.
Example ex_8_5_keep : block_value true CKeep [Text 0 (L "# text"); Blank 0] = L "# text//". Proof. reflexivity. Qed.
Example ex_8_5_clip : block_value true CClip [Text 0 (L "# text"); Blank 0] = L "# text/". Proof. reflexivity. Qed.
(* Example 8.6: empty scalars *)
Example ex_8_6_strip : block_value false CStrip [Blank 0] = []. Proof. reflexivity. Qed.
Example ex_8_6_clip : block_value false CClip [Blank 0] = []. Proof. reflexivity. Qed.
Example ex_8_6_keep : block_value true CKeep [Blank 0] = L "/". Proof. reflexivity. Qed.
(* Example 8.8: literal content *)
Example ex_8_8 : block_value true CClip (map (classify 2) [R 1 ""; R 2 ""; R 2 "literal"; R 3 ""; R 2 ""; R 2 "text"; R 0 ""])
                 = L "//literal/ //text/". Proof. reflexivity. Qed.
(* Example 8.10 - 8.13: folded content *)
Definition ex_8_10_lines : list bline :=
  [Blank 0; Text 0 (L "folded"); Text 0 (L "line"); Blank 0; Text 0 (L "next"); Text 0 (L "line");
   Text 2 (L "* bullet"); Blank 0; Text 2 (L "* list"); Text 2 (L "* lines"); Blank 0; Text 0 (L "last");
   Text 0 (L "line"); Blank 0].
Example ex_8_10 : block_value false CClip ex_8_10_lines = L "/folded line/next line/  * bullet//  * list/  * lines//last line/".
Proof. reflexivity. Qed.
Example ex_8_10_literal : block_value true CKeep ex_8_10_lines = L "/folded/line//next/line/  * bullet//  * list/  * lines//last/line//".
Proof. reflexivity. Qed.
Example ex_render :
  render_block 1 false CStrip (Some 1%nat) true (L " # c") [Text 1 (L "x"); Blank 0] EofNewline = L ">1- # c/  x//".
Proof. reflexivity. Qed.
