(* C16 — specification of tag resolution, written independently of the model (it does not import it).

   Texts are lists of Unicode scalar values ([list N]).  The specification has three parts:
     1. the handle table of a document, from the list of its directives ([decls], [in_force], [table_of], [tables_of]);
     2. the expansion of a tag (handle, suffix) against a table ([expand]);
     3. percent-decoding of tag text: UTF-8 per RFC 3629, arithmetically ([utf8_encode], [utf8_decode],
        [percent_decode]). *)
From Coq Require Import List NArith Bool.
Import ListNotations.
Open Scope N_scope.

(* ------------------------------------------------------------------------------------------ *)
(* 1. Directives and handle tables                                                             *)
(* ------------------------------------------------------------------------------------------ *)
Fixpoint text_eqb (a b : list N) : bool :=
  match a, b with
  | [], [] => true
  | x :: a', y :: b' => (x =? y) && text_eqb a' b'
  | _, _ => false
  end.

Inductive directive :=
| DYaml (major minor : N)              (* %YAML major.minor *)
| DTag (handle prefix : list N)        (* %TAG handle prefix  (handle is "!", "!!" or "!name!") *)
| DReserved.                           (* any other directive: ignored *)

(* handle -> prefix; the first binding of a handle is the one in force *)
Definition table := list (list N * list N).
Fixpoint lookup (h : list N) (T : table) : option (list N) :=
  match T with
  | [] => None
  | (k, p) :: r => if text_eqb h k then Some p else lookup h r
  end.

(* The declarations of ONE document: every %TAG line counts (they are in force together); a handle may be
   declared once only; %YAML may be given once only.  The error names the offending directive. *)
Inductive decl_result :=
| Declared (T : table)
| DuplicateHandle (index : nat)
| DuplicateYaml (index : nat).

Fixpoint decls_from (i : nat) (ds : list directive) (yaml_seen : bool) (acc : table) : decl_result :=
  match ds with
  | [] => Declared acc
  | DYaml _ _ :: r => if yaml_seen then DuplicateYaml i else decls_from (S i) r true acc
  | DTag h p :: r =>
      match lookup h acc with
      | Some _ => DuplicateHandle i
      | None => decls_from (S i) r yaml_seen ((h, p) :: acc)
      end
  | DReserved :: r => decls_from (S i) r yaml_seen acc
  end.
Definition decls (ds : list directive) : decl_result := decls_from 0 ds false [].

(* new declarations override what was in force before *)
Definition merge (before new : table) : table := new ++ before.

(* what survives the end of a document *)
Definition carried (keep_tags : bool) (T : table) : table := if keep_tags then T else [].

(* the table in force for a document whose directives are [ds], given the table [before] carried over *)
Definition in_force (before : table) (ds : list directive) : option table :=
  match decls ds with
  | Declared d => Some (merge before d)
  | _ => None
  end.

(* the table of a document, given the table of the previous document (empty for the first) *)
Definition table_of (keep_tags : bool) (previous : table) (ds : list directive) : option table :=
  in_force (carried keep_tags previous) ds.

(* the tables of the documents of a stream, in order; None from the first erroneous document on *)
Fixpoint tables_of (keep_tags : bool) (previous : table) (docs : list (list directive)) : list (option table) :=
  match docs with
  | [] => []
  | ds :: r =>
      match table_of keep_tags previous ds with
      | Some T => Some T :: tables_of keep_tags T r
      | None => [None]
      end
  end.

(* ------------------------------------------------------------------------------------------ *)
(* 2. Expansion of a tag                                                                        *)
(* ------------------------------------------------------------------------------------------ *)
Definition bang : N := 33.
(* "tag:yaml.org,2002:" *)
Definition yaml_prefix : list N := [116;97;103;58;121;97;109;108;46;111;114;103;44;50;48;48;50;58].

(* How the scanner reports the five spellings as (handle, suffix):
     !<uri>      ("", uri)          verbatim
     !           ("", "!")          non-specific
     !name       ("!", name)        primary handle (local tag unless "!" is redefined)
     !!name      ("!!", name)       secondary handle
     !h!name     ("!h!", name)      named handle                                                  *)
Inductive handle_kind := HEmpty | HPrimary | HSecondary | HNamed | HMalformed.
Definition kind_of (h : list N) : handle_kind :=
  match h with
  | [] => HEmpty
  | [a] => if a =? bang then HPrimary else HMalformed
  | a :: r =>
      if (a =? bang) && (last r 0 =? bang) then
        match r with [_] => HSecondary | _ => HNamed end
      else HMalformed
  end.

Definition or_default (d : list N) (o : option (list N)) : list N := match o with Some p => p | None => d end.

(* Some (prefix, suffix), or None = "the handle wasn't declared" *)
Definition expand (T : table) (h s : list N) : option (list N * list N) :=
  match kind_of h with
  | HEmpty => Some ([], s)
  | HPrimary => Some (or_default [bang] (lookup h T), s)
  | HSecondary => Some (or_default yaml_prefix (lookup h T), s)
  | HNamed => match lookup h T with Some p => Some (p, s) | None => None end
  | HMalformed => None
  end.

(* ------------------------------------------------------------------------------------------ *)
(* 3. Percent-decoding                                                                          *)
(* ------------------------------------------------------------------------------------------ *)
Definition is_scalar_value (c : N) : bool := (c <? 55296) || ((57343 <? c) && (c <=? 1114111)).

(* RFC 3629 section 3 *)
Definition utf8_encode (c : N) : list N :=
  if c <? 128 then [c]
  else if c <? 2048 then [192 + c / 64; 128 + c mod 64]
  else if c <? 65536 then [224 + c / 4096; 128 + (c / 64) mod 64; 128 + c mod 64]
  else [240 + c / 262144; 128 + (c / 4096) mod 64; 128 + (c / 64) mod 64; 128 + c mod 64].

Definition continuation (b : N) : bool := (128 <=? b) && (b <=? 191).

(* Decoding of exactly one UTF-8 sequence (the whole list).  Valid ranges: shortest form only (no C0/C1
   leading byte, a 3-byte sequence denotes at least U+0800, a 4-byte sequence at least U+10000), no
   surrogates U+D800..U+DFFF, nothing above U+10FFFF — RFC 3629 sections 3 and 4. *)
Definition utf8_decode (bs : list N) : option N :=
  match bs with
  | [b1] => if b1 <=? 127 then Some b1 else None
  | [b1; b2] =>
      if (194 <=? b1) && (b1 <=? 223) && continuation b2 then Some ((b1 - 192) * 64 + (b2 - 128)) else None
  | [b1; b2; b3] =>
      if (224 <=? b1) && (b1 <=? 239) && continuation b2 && continuation b3 then
        let c := (b1 - 224) * 4096 + (b2 - 128) * 64 + (b3 - 128) in
        if (2048 <=? c) && is_scalar_value c then Some c else None
      else None
  | [b1; b2; b3; b4] =>
      if (240 <=? b1) && (b1 <=? 244) && continuation b2 && continuation b3 && continuation b4 then
        let c := (b1 - 240) * 262144 + (b2 - 128) * 4096 + (b3 - 128) * 64 + (b4 - 128) in
        if (65536 <=? c) && (c <=? 1114111) then Some c else None
      else None
  | _ => None
  end.

(* number of bytes announced by a leading byte *)
Definition sequence_length (b : N) : option nat :=
  if b <=? 127 then Some 1%nat
  else if (192 <=? b) && (b <=? 223) then Some 2%nat
  else if (224 <=? b) && (b <=? 239) then Some 3%nat
  else if (240 <=? b) && (b <=? 247) then Some 4%nat
  else None.

Definition hex_value (c : N) : option N :=
  if (48 <=? c) && (c <=? 57) then Some (c - 48)
  else if (65 <=? c) && (c <=? 70) then Some (c - 55)
  else if (97 <=? c) && (c <=? 102) then Some (c - 87)
  else None.

Definition percent : N := 37.

(* one escape %XY at the front of a text *)
Definition take_escape (l : list N) : option (N * list N) :=
  match l with
  | p :: x :: y :: r =>
      if p =? percent then
        match hex_value x, hex_value y with
        | Some hi, Some lo => Some (hi * 16 + lo, r)
        | _, _ => None
        end
      else None
  | _ => None
  end.
Fixpoint take_escapes (n : nat) (l : list N) : option (list N * list N) :=
  match n with
  | O => Some ([], l)
  | S n =>
      match take_escape l with
      | Some (b, r) => match take_escapes n r with Some (bs, r') => Some (b :: bs, r') | None => None end
      | None => None
      end
  end.

(* one escaped character at the front of a text: (character, rest) *)
Definition take_escaped_char (l : list N) : option (N * list N) :=
  match take_escape l with
  | Some (b, r) =>
      match sequence_length b with
      | Some (S n) =>
          match take_escapes n r with
          | Some (bs, r') => match utf8_decode (b :: bs) with Some c => Some (c, r') | None => None end
          | None => None
          end
      | _ => None
      end
  | None => None
  end.

(* the whole text: every run of escapes is replaced by the characters it encodes *)
Fixpoint percent_decode_fuel (fuel : nat) (l : list N) : option (list N) :=
  match fuel with
  | O => match l with [] => Some [] | _ => None end
  | S fuel =>
      match l with
      | [] => Some []
      | c :: r =>
          if c =? percent then
            match take_escaped_char l with
            | Some (d, r') => match percent_decode_fuel fuel r' with Some t => Some (d :: t) | None => None end
            | None => None
            end
          else match percent_decode_fuel fuel r with Some t => Some (c :: t) | None => None end
      end
  end.
Definition percent_decode (l : list N) : option (list N) := percent_decode_fuel (length l) l.

(* the canonical escaped spelling of a character (upper-case hexadecimal digits) *)
Definition hex_digit (d : N) : N := if d <? 10 then 48 + d else 55 + d.
Definition escape_byte (b : N) : list N := [percent; hex_digit (b / 16); hex_digit (b mod 16)].
Definition percent_encode (c : N) : list N := flat_map escape_byte (utf8_encode c).

(* ------------------------------------------------------------------------------------------ *)
(* 4. The TEXT of tags and of %TAG directives (YAML 1.2.2 productions [36]-[40], [88]-[99])     *)
(* ------------------------------------------------------------------------------------------ *)
Definition between (lo hi c : N) : bool := (lo <=? c) && (c <=? hi).
Fixpoint member (c : N) (l : list N) : bool := match l with [] => false | x :: r => (c =? x) || member c r end.

Definition ns_dec_digit (c : N) : bool := between 48 57 c.
Definition ns_ascii_letter (c : N) : bool := between 65 90 c || between 97 122 c.
(* [38] ns-word-char ::= ns-dec-digit | ns-ascii-letter | "-" *)
Definition ns_word_char (c : N) : bool := ns_dec_digit c || ns_ascii_letter c || (c =? 45).
(* [39] ns-uri-char ::= "%" hex hex | ns-word-char | # ; / ? : @ & = + $ , _ . ! ~ * ' ( ) [ ]
   ('%' is a uri character only as the beginning of an escape: that is [percent_decode]'s business) *)
Definition uri_punctuation : list N := [35; 59; 47; 63; 58; 64; 38; 61; 43; 36; 44; 95; 46; 33; 126; 42; 39; 40; 41; 91; 93].
Definition ns_uri_char (c : N) : bool := ns_word_char c || member c uri_punctuation || (c =? percent).
(* [23] c-flow-indicator ::= , [ ] { } *)
Definition c_flow_indicator (c : N) : bool := member c [44; 91; 93; 123; 125].
(* [40] ns-tag-char ::= ns-uri-char - "!" - c-flow-indicator *)
Definition ns_tag_char (c : N) : bool := ns_uri_char c && negb (c =? bang) && negb (c_flow_indicator c).
(* the characters of a handle name: [92] c-named-tag-handle ::= "!" ns-word-char+ "!"; the implementation also
   accepts '_' (and the empty name is the secondary handle "!!") *)
Definition handle_name_char (c : N) : bool := ns_word_char c || (c =? 95).
(* [33] s-white ::= s-space | s-tab *)
Definition s_white (c : N) : bool := (c =? 32) || (c =? 9).

Fixpoint all (p : N -> bool) (l : list N) : bool := match l with [] => true | x :: r => p x && all p r end.
Definition nonempty (l : list N) : bool := match l with [] => false | _ => true end.

(* the spellings of a tag property: text, and the (handle, suffix) it denotes — the suffix DECODED *)
Definition verbatim_text (uri : list N) : list N := 33 :: 60 :: uri ++ [62].                (* !<uri>   *)
Definition named_handle (name : list N) : list N := 33 :: name ++ [33].                      (* !name!   *)
Definition named_text (name suffix : list N) : list N := named_handle name ++ suffix.        (* !name!suffix, !!suffix *)
Definition local_text (suffix : list N) : list N := 33 :: suffix.                            (* !suffix  *)

Inductive tag_text : list N -> list N -> list N -> Prop :=
| tt_verbatim : forall uri t, all ns_uri_char uri = true -> percent_decode uri = Some t ->
    tag_text (verbatim_text uri) [] t
| tt_named : forall name suffix t, all handle_name_char name = true ->
    nonempty suffix = true -> all ns_tag_char suffix = true -> percent_decode suffix = Some t ->
    tag_text (named_text name suffix) (named_handle name) t
| tt_local : forall suffix t, nonempty suffix = true -> all ns_tag_char suffix = true -> percent_decode suffix = Some t ->
    tag_text (local_text suffix) [bang] t
| tt_nonspecific : tag_text [bang] [] [bang].

(* a %TAG line: "%TAG" blanks handle blanks prefix LF, the prefix DECODED
   ([93] ns-tag-prefix ::= "!" ns-uri-char* | ns-tag-char ns-uri-char* ) *)
Definition s_tag_line : list N := [37; 84; 65; 71].                                          (* %TAG *)
Definition dir_line (ws1 handle ws2 prefix : list N) : list N := s_tag_line ++ ws1 ++ handle ++ ws2 ++ prefix ++ [10].
Inductive tag_directive_text : list N -> list N -> list N -> Prop :=
| tdt : forall ws1 handle ws2 prefix p,
    nonempty ws1 = true -> all s_white ws1 = true -> nonempty ws2 = true -> all s_white ws2 = true ->
    (handle = [bang] \/ exists name, handle = named_handle name /\ all handle_name_char name = true) ->
    (match prefix with c :: _ => (c =? bang) || ns_tag_char c | [] => false end) = true ->
    all ns_uri_char prefix = true -> percent_decode prefix = Some p ->
    tag_directive_text (dir_line ws1 handle ws2 prefix) handle p.

(* the document line used to observe a tag: "--- " tag " x" (end of input) *)
Definition doc_line (ttext : list N) : list N := [45; 45; 45; 32] ++ ttext ++ [32; 120].

(* tag texts whose characters are of the right classes but whose percent-escapes have NO decoding (invalid escape,
   incorrect leading or trailing byte, surrogate, above U+10FFFF, non-shortest form): not tags *)
Inductive bad_tag_text : list N -> Prop :=
| btt_verbatim : forall uri, all ns_uri_char uri = true -> percent_decode uri = None -> bad_tag_text (verbatim_text uri)
| btt_named : forall name suffix, all handle_name_char name = true -> all ns_tag_char suffix = true ->
    percent_decode suffix = None -> bad_tag_text (named_text name suffix)
| btt_local : forall suffix, all ns_tag_char suffix = true -> percent_decode suffix = None ->
    bad_tag_text (local_text suffix).
(* ... and %TAG lines whose prefix has no decoding (anything may follow the prefix after a blank or a break) *)
Inductive bad_tag_directive_text : list N -> Prop :=
| btdt : forall ws1 handle ws2 prefix rest,
    nonempty ws1 = true -> all s_white ws1 = true -> nonempty ws2 = true -> all s_white ws2 = true ->
    (handle = [bang] \/ exists name, handle = named_handle name /\ all handle_name_char name = true) ->
    (match prefix with c :: _ => (c =? bang) || ns_tag_char c | [] => false end) = true ->
    all ns_uri_char prefix = true -> percent_decode prefix = None ->
    (match rest with [] => true | c :: _ => s_white c || (c =? 10) || (c =? 13) end) = true ->
    bad_tag_directive_text (s_tag_line ++ ws1 ++ handle ++ ws2 ++ prefix ++ rest).

(* a %TAG line and the directive it denotes; the directive lines of a document, in order *)
Inductive directive_line_text : list N -> directive -> Prop :=
| dlt : forall line dh p, tag_directive_text line dh p -> directive_line_text line (DTag dh p).
