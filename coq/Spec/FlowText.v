(* C03, scanner half: a sub-language of YAML TEXT — single-line flow collections of one-word plain scalars — with its
   renderer and the layout tree (Spec/TokenGrammar.v) each text denotes.  Independent of the scanner model.

     node  ::= word | [ entries ] | { pairs }
     entries ::= empty | entry {,_ entry}      entry ::= node | word :_ node      (a single pair: an implicit mapping)
     pairs   ::= empty | pair {,_ pair}        pair  ::= word :_ node             (_ is one space, {..} repetition)
     word  ::= one or more characters that are no blank, break, NUL, flow indicator and none of the
             indicators  : # - ? * & ! | > % @ ` nor a quote (the list [special] below)

   One separator layout (", " and ": ", nothing after an opening or before a closing bracket); arbitrary nesting.

   One side condition, YAML 1.2.2 section 7.4.2 (productions [152] ns-flow-pair-yaml-key-entry / [154]
   ns-s-implicit-yaml-key: for the implicit key of a single pair inside a flow SEQUENCE the ':' indicator must appear at
   most 1024 Unicode characters beyond the start of the key, and the key is restricted to a single line): the key  word  of
   an entry  word :_ node  of  [ entries ]  has at most 1024 characters ([key_ok]).  The keys of  { pairs }  (production
   [144] ns-flow-map-implicit-entry) are NOT limited.  [fgram] is the grammar without the side condition, [fwf] the
   grammar with it. *)
From Coq Require Import List NArith Bool.
Import ListNotations.
Require Import Parser CharTraits TokenGrammar.
Open Scope N_scope.

Inductive fnode :=
| FW (w : str)
| FS (es : list (option str * fnode))      (* (None, n): the node n;  (Some k, v): the single pair k: v *)
| FM (ps : list (str * fnode)).

(* characters of a word *)
Definition special : list N := [58; 35; 45; 63; 42; 38; 33; 124; 62; 39; 34; 37; 64; 96].
Definition wch (c : N) : bool := negb (is_blank_or_breakz c) && negb (is_flow c) && negb (existsb (N.eqb c) special).
Definition word_ok (w : str) : bool := match w with [] => false | _ => forallb wch w end.

(* the limit of an implicit key of a flow-sequence single pair (YAML 1.2.2, 7.4.2) *)
Definition key_max : N := 1024.
Definition key_short (k : str) : bool := N.of_nat (length k) <=? key_max.
Definition key_ok (k : str) : bool := word_ok k && key_short k.

Fixpoint fwf (f : fnode) : bool :=
  match f with
  | FW w => word_ok w
  | FS es => forallb (fun e => match fst e with Some k => key_ok k | None => true end && fwf (snd e)) es
  | FM ps => forallb (fun p => word_ok (fst p) && fwf (snd p)) ps
  end.

(* the grammar alone (no limit on the keys of single pairs); fwf f = fgram f && "every single-pair key is short" *)
Fixpoint fgram (f : fnode) : bool :=
  match f with
  | FW w => word_ok w
  | FS es => forallb (fun e => match fst e with Some k => word_ok k | None => true end && fgram (snd e)) es
  | FM ps => forallb (fun p => word_ok (fst p) && fgram (snd p)) ps
  end.

Fixpoint depth (f : fnode) : nat :=
  match f with
  | FW _ => O
  | FS es => S (fold_right (fun e m => Nat.max (depth (snd e)) m) O es)
  | FM ps => S (fold_right (fun p m => Nat.max (depth (snd p)) m) O ps)
  end.

Definition is_coll (f : fnode) : bool := match f with FW _ => false | _ => true end.

(* ---- the text ---- *)
Definition comma_sp : str := [44; 32].
Definition colon_sp : str := [58; 32].
Definition joinc (l : list str) : str :=
  match l with
  | [] => []
  | x :: r => x ++ flat_map (fun y => comma_sp ++ y) r
  end.

Fixpoint render (f : fnode) : str :=
  match f with
  | FW w => w
  | FS es => 91 :: joinc (map (fun e => match fst e with Some k => k ++ colon_sp | None => [] end ++ render (snd e)) es) ++ [93]
  | FM ps => 123 :: joinc (map (fun p => (fst p ++ colon_sp) ++ render (snd p)) ps) ++ [125]
  end.

(* a document: the node on one line *)
Definition doc_text (f : fnode) : str := render f ++ [10].

(* ---- the layout tree the text denotes ---- *)
Definition lword (w : str) : ltree := LScalar no_props Plain w.
Fixpoint lt (f : fnode) : ltree :=
  match f with
  | FW w => lword w
  | FS es => LFSeq no_props
               (map (fun e => match fst e with
                              | Some k => inl (LFMap no_props [(true, lword k, (true, lt (snd e)))] false)
                              | None => inl (lt (snd e))
                              end) es) false
  | FM ps => LFMap no_props (map (fun p => (true, lword (fst p), (true, lt (snd p)))) ps) false
  end.
