(* C13 — JSON (RFC 8259) as a specification, independent of the parser/loader models:
   values, the token sequence the scanner produces for a JSON text (flow collections, Key/Value around
   every object member, double-quoted scalars for strings, plain scalars for numbers and literals — spacing
   leaves no trace in the token kinds), the events a YAML parser must deliver for it, and the YAML data the
   value denotes.  Strings are carried already unescaped (the escape decoding is the scanner's half). *)
From Coq Require Import List NArith ZArith Bool.
Import ListNotations.
Require Import Parser Resolver CoreSchema Loader.

Inductive jvalue :=
| JNull
| JBool (b : bool)
| JNum (text : str)                      (* the literal text of the number *)
| JStr (s : str)                         (* the decoded string *)
| JArr (l : list jvalue)
| JObj (l : list (str * jvalue)).        (* members in source order, duplicate names possible *)

(* ---------------- RFC 8259 number grammar:  -? ( 0 | [1-9][0-9]* ) ( \. [0-9]+ )? ( [eE] [-+]? [0-9]+ )? -------- *)
Definition json_exp (r : str) : bool :=
  match r with
  | [] => true
  | c :: r' => (ch c 101 || ch c 69) && (let '(_, ds) := sign_split r' in nonempty ds && all_in is_dig ds)
  end.
Definition json_int_ok (ip : str) : bool :=
  match ip with
  | [] => false
  | [c] => true
  | c :: _ => negb (ch c 48)
  end.
Definition json_unsigned (b : str) : bool :=
  let '(ip, r1) := span_digits b in
  json_int_ok ip &&
  match r1 with
  | [] => true
  | c :: r => if ch c 46 then let '(fp, r2) := span_digits r in nonempty fp && json_exp r2 else json_exp r1
  end.
Definition json_number (s : str) : bool :=
  match s with
  | c :: r => if ch c 45 then json_unsigned r else json_unsigned s
  | [] => false
  end.

(* the value a JSON number denotes, in the vocabulary of the core schema: an integer when the text is an
   integer literal within i64, otherwise the exact decimal (-1)^neg * m * 10^e *)
Definition json_num_value (t : str) : option scalar :=
  match core_int t with
  | Some z => if in_i64 z then Some (SInt z) else option_map SFloat (core_float t)
  | None => option_map SFloat (core_float t)
  end.
Definition json_num_scalar (t : str) : scalar :=
  match json_num_value t with Some sc => sc | None => SStr t end.

(* ---------------- tokens ---------------- *)
Definition lit_text (b : bool) : str := if b then s_true else s_false.

Fixpoint json_tokens (v : jvalue) : list tok :=
  match v with
  | JNull => [TScalar Plain s_null]
  | JBool b => [TScalar Plain (lit_text b)]
  | JNum t => [TScalar Plain t]
  | JStr s => [TScalar DoubleQuoted s]
  | JArr l =>
      TFlowSequenceStart ::
      match l with
      | [] => []
      | x :: r => json_tokens x ++ flat_map (fun y => TFlowEntry :: json_tokens y) r
      end ++ [TFlowSequenceEnd]
  | JObj l =>
      TFlowMappingStart ::
      match l with
      | [] => []
      | kv :: r => (TKey :: TScalar DoubleQuoted (fst kv) :: TValue :: json_tokens (snd kv))
                   ++ flat_map (fun kv => TFlowEntry :: TKey :: TScalar DoubleQuoted (fst kv) :: TValue :: json_tokens (snd kv)) r
      end ++ [TFlowMappingEnd]
  end.

(* the token stream of a whole JSON text *)
Definition wrap (l : list tok) : list tok := TStreamStart :: l ++ [TStreamEnd].

(* ---------------- events ---------------- *)
Fixpoint json_events (v : jvalue) : list event :=
  match v with
  | JNull => [EScalar s_null Plain 0 None]
  | JBool b => [EScalar (lit_text b) Plain 0 None]
  | JNum t => [EScalar t Plain 0 None]
  | JStr s => [EScalar s DoubleQuoted 0 None]
  | JArr l => ESequenceStart 0 None :: flat_map json_events l ++ [ESequenceEnd]
  | JObj l => EMappingStart 0 None
              :: flat_map (fun kv => EScalar (fst kv) DoubleQuoted 0 None :: json_events (snd kv)) l ++ [EMappingEnd]
  end.
Definition json_doc_events (v : jvalue) : list event :=
  EStreamStart :: EDocumentStart false :: json_events v ++ [EDocumentEnd; EStreamEnd].

(* ---------------- data ----------------
   Object members: RFC 8259 leaves duplicate names open.  [obj_norm] is the reading stated here: the LAST value
   of a name wins and the member takes the position of its last occurrence; members with pairwise distinct
   names are untouched ([obj_norm_nodup] in JsonProofs.v). *)
Fixpoint obj_remove {B} (k : str) (l : list (str * B)) : list (str * B) :=
  match l with
  | [] => []
  | (k', v) :: r => if Resolver.str_eqb k k' then r else (k', v) :: obj_remove k r
  end.
Definition obj_insert {B} (l : list (str * B)) (kv : str * B) : list (str * B) := obj_remove (fst kv) l ++ [kv].
Definition obj_norm {B} (l : list (str * B)) : list (str * B) := fold_left obj_insert l [].

Definition ykey (kv : str * yaml) : yaml * yaml := (YVal (SStr (fst kv)), snd kv).

Fixpoint yaml_of_json (v : jvalue) : yaml :=
  match v with
  | JNull => YVal SNull
  | JBool b => YVal (SBool b)
  | JNum t => YVal (json_num_scalar t)
  | JStr s => YVal (SStr s)
  | JArr l => YSeq (map yaml_of_json l)
  | JObj l => YMap (map ykey (obj_norm (map (fun kv => (fst kv, yaml_of_json (snd kv))) l)))
  end.

(* the same without normalisation: members in source order (what the statement of C13 promises for
   objects whose names are pairwise distinct) *)
Fixpoint yaml_of_json_ordered (v : jvalue) : yaml :=
  match v with
  | JArr l => YSeq (map yaml_of_json_ordered l)
  | JObj l => YMap (map (fun kv => (YVal (SStr (fst kv)), yaml_of_json_ordered (snd kv))) l)
  | _ => yaml_of_json v
  end.

(* ---------------- well-formedness ---------------- *)
(* every number literal is an RFC 8259 number *)
Fixpoint json_wf (v : jvalue) : bool :=
  match v with
  | JNum t => json_number t
  | JArr l => forallb json_wf l
  | JObj l => forallb (fun kv => json_wf (snd kv)) l
  | _ => true
  end.

Fixpoint keys_distinct (l : list str) : bool :=
  match l with
  | [] => true
  | k :: r => negb (existsb (Resolver.str_eqb k) r) && keys_distinct r
  end.
Fixpoint json_distinct (v : jvalue) : bool :=
  match v with
  | JArr l => forallb json_distinct l
  | JObj l => keys_distinct (map fst l) && forallb (fun kv => json_distinct (snd kv)) l
  | _ => true
  end.

(* nesting depth (the scanner's flow level is a u8: depth 256 is refused with "recursion limit exceeded";
   only the scanner half of C13 needs the bound) *)
Fixpoint json_depth (v : jvalue) : nat :=
  match v with
  | JArr l => S (fold_right (fun x m => Nat.max (json_depth x) m) 0%nat l)
  | JObj l => S (fold_right (fun kv m => Nat.max (json_depth (snd kv)) m) 0%nat l)
  | _ => 0%nat
  end.

(* ---------------- the spec is not vacuous ---------------- *)
Example json_number_ex1 : json_number [45;49;50;46;53;69;43;51]%N = true.  (* -12.5E+3 *)
Proof. reflexivity. Qed.
Example json_number_ex2 : map json_number [[48;49]; [49;46]; [46;53]; [43;49]; [45]; [49;101]; []; [48;120;49]]%N
                          = [false; false; false; false; false; false; false; false]. (* 01 1. .5 +1 - 1e "" 0x1 *)
Proof. reflexivity. Qed.
Example json_number_ex3 : map json_number [[45;48]; [48]; [49;48]; [48;46;48]; [48;101;48]]%N = [true; true; true; true; true].
Proof. reflexivity. Qed.

(* ---------------- the oracle applied to implementation results ----------------
   The implementation's loaded node, as dumped by the harness (floats arrive as f64 bit patterns).  A float
   matches when its bits are the correctly rounded binary64 of the exact decimal (CoreSchema.fval_matches). *)
Inductive iyaml :=
| IVal (s : iscalar)
| ISeq (l : list iyaml)
| IMap (l : list (iyaml * iyaml))
| IBadValue.

Definition scalar_matches (s : scalar) (i : iscalar) : bool :=
  match s, i with
  | SNull, INull => true
  | SBool a, IBool b => Bool.eqb a b
  | SInt a, IInt b => (a =? b)%Z
  | SFloat f, IFloat bits => fval_matches f bits
  | SStr a, IStr b => Resolver.str_eqb a b
  | _, _ => false
  end.

Fixpoint yaml_matches (y : yaml) (i : iyaml) {struct y} : bool :=
  match y, i with
  | YVal s, IVal x => scalar_matches s x
  | YSeq l, ISeq l' =>
      (fix go (l : list yaml) (l' : list iyaml) : bool :=
         match l, l' with
         | [], [] => true
         | a :: r, b :: r' => yaml_matches a b && go r r'
         | _, _ => false
         end) l l'
  | YMap l, IMap l' =>
      (fix go (l : list (yaml * yaml)) (l' : list (iyaml * iyaml)) : bool :=
         match l, l' with
         | [], [] => true
         | (k, v) :: r, (k', v') :: r' => yaml_matches k k' && yaml_matches v v' && go r r'
         | _, _ => false
         end) l l'
  | _, _ => false
  end.

(* C13 on one implementation result: the value is well formed and the single loaded document is its meaning *)
Definition c13_impl_ok (v : jvalue) (docs : list iyaml) : bool :=
  json_wf v && match docs with [d] => yaml_matches (yaml_of_json v) d | _ => false end.

Example c13_impl_ok_ex1 :
  c13_impl_ok (JArr [JNum [49;46;53]%N; JStr [97]%N]) [ISeq [IVal (IFloat 4609434218613702656); IVal (IStr [97]%N)]] = true.
Proof. vm_compute. reflexivity. Qed.
Example c13_impl_ok_ex2 :   (* wrong float bits, wrong order, two documents: all rejected *)
  map (c13_impl_ok (JArr [JNum [49;46;53]%N; JStr [97]%N]))
      [ [ISeq [IVal (IFloat 4609434218613702657); IVal (IStr [97]%N)]];
        [ISeq [IVal (IStr [97]%N); IVal (IFloat 4609434218613702656)]];
        [ISeq [IVal (IFloat 4609434218613702656); IVal (IStr [97]%N)]; IVal INull] ] = [false; false; false].
Proof. vm_compute. reflexivity. Qed.

(* ---------------- JSON texts (RFC 8259 sections 2-7) ----------------
   [json_doc_text v s]: the code points [s] are a serialisation of [v] — any insignificant whitespace (space, TAB,
   LF, CR) before and after every structural token and value; strings with any mix of raw characters, two-character
   escapes and \uXXXX escapes (of scalar values only: the statement of C13 excludes surrogate halves). *)
Definition is_ws (c : chr) : bool := ch c 32 || ch c 9 || ch c 10 || ch c 13.
Definition ws (l : str) : Prop := forallb is_ws l = true.

Definition hex4 (a b c d : chr) : option N :=
  match to_digit 16 a, to_digit 16 b, to_digit 16 c, to_digit 16 d with
  | Some x, Some y, Some z, Some w => Some (((x * 16 + y) * 16 + z) * 16 + w)%N
  | _, _, _, _ => None
  end.
Definition surrogate (c : chr) : bool := (55296 <=? c)%N && (c <=? 57343)%N.
(* escape letter -> character *)
Definition simple_escapes : list (chr * chr) :=
  [(34, 34); (92, 92); (47, 47); (98, 8); (102, 12); (110, 10); (114, 13); (116, 9)]%N.

(* decoded string / text between the quotes *)
Inductive str_text : str -> str -> Prop :=
| st_nil : str_text [] []
| st_raw c s t : (32 <=? c)%N = true -> (c <=? 1114111)%N = true -> ch c 34 = false -> ch c 92 = false -> surrogate c = false ->
                 str_text s t -> str_text (c :: s) (c :: t)
| st_esc e c s t : In (e, c) simple_escapes -> str_text s t -> str_text (c :: s) (92 :: e :: t)%N
| st_u a b c d x s t : hex4 a b c d = Some x -> surrogate x = false ->
                       str_text s t -> str_text (x :: s) (92 :: 117 :: a :: b :: c :: d :: t)%N.

Inductive json_text : jvalue -> str -> Prop :=
| jt_null : json_text JNull s_null
| jt_bool b : json_text (JBool b) (lit_text b)
| jt_num t : json_number t = true -> json_text (JNum t) t
| jt_str s t : str_text s t -> json_text (JStr s) (34%N :: t ++ [34%N])
| jt_arr0 w : ws w -> json_text (JArr []) (91%N :: w ++ [93%N])
| jt_arr x l body : elems_text (x :: l) body -> json_text (JArr (x :: l)) (91%N :: body ++ [93%N])
| jt_obj0 w : ws w -> json_text (JObj []) (123%N :: w ++ [125%N])
| jt_obj m l body : members_text (m :: l) body -> json_text (JObj (m :: l)) (123%N :: body ++ [125%N])
with elems_text : list jvalue -> str -> Prop :=
| et_one v w1 t w2 : ws w1 -> json_text v t -> ws w2 -> elems_text [v] (w1 ++ t ++ w2)
| et_cons v w1 t w2 r body : ws w1 -> json_text v t -> ws w2 -> elems_text r body ->
                             elems_text (v :: r) (w1 ++ t ++ w2 ++ 44%N :: body)
with members_text : list (str * jvalue) -> str -> Prop :=
| mt_one k v w1 kt w2 w3 t w4 : ws w1 -> str_text k kt -> ws w2 -> ws w3 -> json_text v t -> ws w4 ->
                                members_text [(k, v)] (w1 ++ 34%N :: kt ++ 34%N :: w2 ++ 58%N :: w3 ++ t ++ w4)
| mt_cons k v w1 kt w2 w3 t w4 r body : ws w1 -> str_text k kt -> ws w2 -> ws w3 -> json_text v t -> ws w4 ->
                                members_text r body ->
                                members_text ((k, v) :: r) (w1 ++ 34%N :: kt ++ 34%N :: w2 ++ 58%N :: w3 ++ t ++ w4 ++ 44%N :: body).

Definition json_doc_text (v : jvalue) (s : str) : Prop :=
  exists w1 t w2, ws w1 /\ json_text v t /\ ws w2 /\ s = w1 ++ t ++ w2.

(* ---------------- one serialiser, as a function: the compact form ----------------
   No insignificant whitespace; in strings the quote and the backslash as two-character escapes, control characters below
   U+0020 as \u00XX, everything else raw.  (Json_compact_text in Proofs/JsonText.v: it is a JSON text of the value whenever the
   numbers are RFC 8259 numbers and the strings hold Unicode scalar values.) *)
Definition hexdig (d : N) : N := if (d <? 10)%N then (48 + d)%N else (87 + d)%N.
Definition esc_char (c : chr) : str :=
  if ch c 34 then [92; 34]%N else if ch c 92 then [92; 92]%N
  else if (c <? 32)%N then [92; 117; 48; 48; hexdig (c / 16); hexdig (c mod 16)]%N
  else [c].
Definition json_string (s : str) : str := 34%N :: flat_map esc_char s ++ [34%N].
Fixpoint json_compact (v : jvalue) : str :=
  match v with
  | JNull => s_null
  | JBool b => lit_text b
  | JNum t => t
  | JStr s => json_string s
  | JArr l =>
      91%N :: match l with
              | [] => []
              | x :: r => json_compact x ++ flat_map (fun y => 44%N :: json_compact y) r
              end ++ [93%N]
  | JObj l =>
      123%N :: match l with
               | [] => []
               | kv :: r => (json_string (fst kv) ++ 58%N :: json_compact (snd kv))
                            ++ flat_map (fun kv => 44%N :: json_string (fst kv) ++ 58%N :: json_compact (snd kv)) r
               end ++ [125%N]
  end.
(* the strings (values and member names) hold Unicode scalar values *)
Definition scalar_char (c : chr) : bool := (c <=? 1114111)%N && negb (surrogate c).
Fixpoint json_chars_ok (v : jvalue) : bool :=
  match v with
  | JStr s => forallb scalar_char s
  | JArr l => forallb json_chars_ok l
  | JObj l => forallb (fun kv => forallb scalar_char (fst kv) && json_chars_ok (snd kv)) l
  | _ => true
  end.
Example json_compact_ex :
  json_compact (JObj [([97]%N, JArr [JNum [49]%N; JStr [34; 10; 233]%N; JNull]); ([98]%N, JObj [])])
  = [123;34;97;34;58;91;49;44;34;92;34;92;117;48;48;48;97;233;34;44;110;117;108;108;93;44;34;98;34;58;123;125;125]%N.
Proof. reflexivity. Qed.

(* the class of the FORMER finding colon-tab-scalar (fixed by /repo b87c12b; now only the routing predicate of a
   regression stream of ./check C13, no statement excludes it), as a predicate on the text: a ':' outside strings,
   immediately followed by one or more TABs and then a character in [-0-9A-Za-z] *)
Inductive tstate := Tout | Tin | Tesc.
Definition scalar_head (c : chr) : bool :=
  ch c 45 || ((48 <=? c)%N && (c <=? 57)%N) || ((65 <=? c)%N && (c <=? 90)%N) || ((97 <=? c)%N && (c <=? 122)%N).
Fixpoint tabs_then_scalar (s : str) (seen : bool) : bool :=
  match s with
  | c :: r => if ch c 9 then tabs_then_scalar r true else seen && scalar_head c
  | [] => false
  end.
Fixpoint colon_tab (st : tstate) (s : str) : bool :=
  match s with
  | [] => false
  | c :: r =>
      match st with
      | Tesc => colon_tab Tin r
      | Tin => if ch c 92 then colon_tab Tesc r else if ch c 34 then colon_tab Tout r else colon_tab Tin r
      | Tout => if ch c 34 then colon_tab Tin r
                else if ch c 58 then tabs_then_scalar r false || colon_tab Tout r
                else colon_tab Tout r
      end
  end.

(* texts, in order (q = the quote character):  {qaq:TAB1}  {qaq:TABTABt}  {qaq:TAB 1}  {qaq:TABqxq}  [q:TAB1q]  [q\q:TAB1q] *)
Example colon_tab_ex : map (colon_tab Tout)
  [ [123;34;97;34;58;9;49;125];
    [123;34;97;34;58;9;9;116;125];
    [123;34;97;34;58;9;32;49;125];
    [123;34;97;34;58;9;34;120;34;125];
    [91;34;58;9;49;34;93];
    [91;34;92;34;58;9;49;34;93] ]%N
  = [true; true; false; false; false; false].
Proof. reflexivity. Qed.
