(* C08 — Scalar typing follows the YAML 1.2 core schema and never corrupts text.
   Model: Resolver.v (Scalar::parse_from_cow, parse_from_cow_and_metadata, parse_f64, Rust i64/f64 grammars),
   tables generated from the Rust sources (Gen/ResolverTables.v).  Spec: Spec/CoreSchema.v. *)
From Coq Require Import List NArith ZArith Bool.
Import ListNotations.
Require Import Resolver CoreSchema CoreNumber ResolverProofs C08complete.
Open Scope Z_scope.

(* Untagged plain scalars, every text: the result is sound (null/bool/int/float only for a core-schema
   literal of that type, with exactly the denoted value; otherwise the identical string) and complete
   (JSON literals, in-range decimal/0x/0o integers, every core float and .inf/.nan spelling are recognised). *)
Theorem C08_untagged : forall s, c08_untagged_ok s (parse_from_cow s) = true.
Proof. exact c08_untagged_model_ok. Qed.
Print Assumptions C08_untagged.

(* Soundness in its readable, propositional form. *)
Theorem C08_sound : forall s, sound s (parse_from_cow s).
Proof. exact C08_soundness_fixed. Qed.
Print Assumptions C08_sound.

(* Plain scalars under a core-schema tag: a value of exactly that type that agrees with the untagged reading
   (an integer may widen to a float), or BadValue; decimal numbers, true/false, null/~ are accepted under
   their own tag; !!str and unknown core suffixes leave the string. *)
Theorem C08_tagged : forall suffix s,
  c08_tagged_ok suffix s (parse_from_cow s)
    (parse_from_cow_and_metadata s true (Some (core_tag_prefix, suffix))) = true.
Proof. exact c08_tagged_model_ok. Qed.
Print Assumptions C08_tagged.

(* Quoted and block scalars, and plain scalars under a foreign tag: always the identical string. *)
Theorem C08_nonplain : forall s tg, parse_from_cow_and_metadata s false tg = Some (SStr s).
Proof. exact c08_nonplain_string. Qed.
Print Assumptions C08_nonplain.
Theorem C08_foreign_tag : forall s h sfx,
  str_eqb h core_tag_prefix = false -> parse_from_cow_and_metadata s true (Some (h, sfx)) = Some (SStr s).
Proof. exact c08_foreign_tag_string. Qed.
Print Assumptions C08_foreign_tag.

(* Non-vacuity: the oracle is not trivially true — it rejects the readings the unrepaired code produced. *)
Example C08_oracle_rejects_signed_hex : c08_untagged_ok [48;120;43;49]%N (SInt 1) = false.
Proof. vm_compute. reflexivity. Qed.
Example C08_oracle_rejects_inf : c08_untagged_ok [105;110;102]%N (SFloat (FInf false)) = false.
Proof. vm_compute. reflexivity. Qed.
Example C08_oracle_demands_int : c08_untagged_ok [48;120;49;70]%N (SStr [48;120;49;70]%N) = false.
Proof. vm_compute. reflexivity. Qed.
