(* C06 -- Ill-formed YAML is rejected with an error, never silently accepted.
   Only statements, each closed by [exact] of a lemma of Proofs/RejectProofs.v, with Print Assumptions; Examples show
   that the hypotheses are satisfiable and tie the parser-level sites to whole texts through the model pipeline.

   Layers.  (R1-R8) the PARSER model on ARBITRARY remaining token streams ([toks_ahead p] = one-token cache ++ tokens the
   scanner will still deliver), (S1-S8) the SCANNER model over the character-level input [str_ops], for ANY scanner
   state of a stated shape, (B) the bridge: statements about whole TEXTS through [run_str] = scanner then parser.
   The full property -- every ill-formed character stream is rejected by the pipeline -- is [C06_full]; it is stated,
   NOT proved, and in fact refuted for the faithful model (and the code) by ONE class of accepted ill-formed texts
   ([C06_full_refuted], [C06_full_for_refuted]; known_findings_c06.jsonl: flow continuation line at the block indentation).
   Three further classes recorded earlier were repaired in /repo (c5ad60c, ad74b3e, 57aa316) and are now PROVED rejected
   ([C06_accepted_implies_balanced] is the clean statement, [C06_stray_closer_after_empty_key_rejected],
   [C06_multiline_flow_pair_key_rejected...], [C06_long_flow_pair_key_rejected...]).  /repo 88700d3 (a flow closer of the
   wrong kind is a scan error) and 99c201b (block nesting limit) added two rejection mechanisms to the scanner: S10, S4.
   What is proved are the rejection mechanisms listed below. *)
From Coq Require Import List NArith ZArith Bool.
Import ListNotations.
Require Import Parser SBase SPrim SDir SScalar SFetch Pipe SInv C02base C02run DocReset RejectProofs RejectScan RejectFlow RejectReach.
Require FlowText Drivers ScanBlockProofs RejectBlockText.
Open Scope N_scope.

(* ================================================================================================ *)
(* R1 / R2: a flow collection that is still open at the end of the stream (or of the document, or of    *)
(* the enclosing block), or that meets a closing bracket of the other kind                             *)
(* ================================================================================================ *)
(* From every state inside a flow sequence (k = true) or flow mapping (k = false), whatever the state stack and
   the rest of the token stream: if the next token is StreamEnd / DocumentStart / DocumentEnd / a directive / BlockEnd /
   a block collection start / a block entry, or the closer of the OTHER kind, then the run ends -- after at most two
   empty-scalar / MappingEnd events -- with a parse error (site 6, 7 or 11) AT THAT TOKEN; it never reaches PDone. *)
Theorem C06_open_flow_rejected : forall p k sp tk r,
  flow_family (p_state p) = Some k -> toks_ahead p = (sp, tk) :: r -> bad_in_flow k tk = true ->
  forall fuel se acc, exists s, flow_err_site s /\ run_end (3 + fuel) p se acc = PParseErr s (sp_start sp).
Proof. exact open_flow_rejected. Qed.
Print Assumptions C06_open_flow_rejected.

(* the same directly behind the opening bracket [t0] *)
Theorem C06_open_flow_first_rejected : forall p (seq : bool) t0 sp tk r,
  p_state p = (if seq then SFlowSequenceFirstEntry else SFlowMappingFirstKey) ->
  toks_ahead p = t0 :: (sp, tk) :: r -> bad_in_flow seq tk = true ->
  state_machine p = Parser.Err (PErr 11 (sp_start sp)).
Proof. exact open_flow_first_rejected. Qed.
Print Assumptions C06_open_flow_first_rejected.

(* R2, per state: "}" where "," or "]" is expected, "]" where "," or "}" is expected *)
Theorem C06_mapping_end_in_flow_sequence_rejected : forall p sp r,
  p_state p = SFlowSequenceEntry -> toks_ahead p = (sp, TFlowMappingEnd) :: r ->
  state_machine p = Parser.Err (PErr 7 (sp_start sp)).
Proof. exact flow_seq_entry_mapping_end. Qed.
Print Assumptions C06_mapping_end_in_flow_sequence_rejected.

Theorem C06_mapping_end_behind_sequence_start_rejected : forall p t0 sp r,
  p_state p = SFlowSequenceFirstEntry -> toks_ahead p = t0 :: (sp, TFlowMappingEnd) :: r ->
  state_machine p = Parser.Err (PErr 11 (sp_start sp)).
Proof. exact flow_seq_first_entry_mapping_end. Qed.
Print Assumptions C06_mapping_end_behind_sequence_start_rejected.

Theorem C06_sequence_end_in_flow_mapping_rejected : forall p sp r,
  p_state p = SFlowMappingKey -> toks_ahead p = (sp, TFlowSequenceEnd) :: r ->
  state_machine p = Parser.Err (PErr 6 (sp_start sp)).
Proof. exact flow_map_key_sequence_end. Qed.
Print Assumptions C06_sequence_end_in_flow_mapping_rejected.

Theorem C06_sequence_end_behind_mapping_start_rejected : forall p t0 sp r,
  p_state p = SFlowMappingFirstKey -> toks_ahead p = t0 :: (sp, TFlowSequenceEnd) :: r ->
  state_machine p = Parser.Err (PErr 11 (sp_start sp)).
Proof. exact flow_map_first_key_sequence_end. Qed.
Print Assumptions C06_sequence_end_behind_mapping_start_rejected.

(* The clean global form, for EVERY token list, scanner ending and fuel (a second invariant through all 21 parser states,
   Proofs/RejectProofs.v): a run that ends in PDone read a token stream with balanced, properly matched flow brackets up to
   StreamEnd -- no flow collection open at the end, no closer of the wrong kind, no stray closer -- whatever else the stream
   contains.  (Before /repo c5ad60c this was false: the closer behind an empty explicit key was swallowed.) *)
Theorem C06_accepted_implies_balanced : forall toks keep se fuel,
  snd (parse_all fuel (init_parser toks keep) se []) = PDone -> flow_balanced toks [] = true.
Proof. exact accepted_implies_balanced_proved. Qed.
Print Assumptions C06_accepted_implies_balanced.

(* (B) the same about TEXTS: whatever the characters, an accepted text has a token stream with balanced, matched flow
   brackets ([scan_of s] = what the scanner model delivers for [s]) ... *)
Theorem C06_text_accepted_implies_balanced : forall s,
  snd (run_str s) = PDone -> flow_balanced (fst (scan_of s)) [] = true.
Proof. exact text_accepted_implies_balanced. Qed.
Print Assumptions C06_text_accepted_implies_balanced.

(* ... and a scanner error (or panic) is never swallowed by the parser: the parser can reach State::End only through a
   StreamEnd token, and the token iterator delivers nothing behind the point of failure.  Every scanner-layer rejection
   theorem below (S1-S8) therefore is a rejection of the whole text in which the situation arises. *)
Theorem C06_scan_error_rejected : forall s,
  (exists e m, snd (scan_of s) = SError e m) \/ (exists n, snd (scan_of s) = SPanic n) ->
  snd (run_str s) <> PDone.
Proof. exact scan_error_rejected. Qed.
Print Assumptions C06_scan_error_rejected.

(* composition: [reach F n s s'] = the token iterator started in [s] delivers n tokens and is then in state [s'].  If, run on
   the text [l], it reaches (within the fuel of the pipeline) a state whose next call fails, [l] is rejected -- so a
   scanner-layer rejection at ANY point of a scan rejects the whole text (reachability itself is a hypothesis). *)
Theorem C06_reachable_scan_error_rejected : forall l n s e m,
  reach (scan_fuel l) n (init_sc {| si_chars := l; si_look := 0 |}) s ->
  (n < 4 * scan_fuel l + 20)%nat ->
  next_token str_ops (scan_fuel l) s = Err e m ->
  snd (run_str l) <> PDone.
Proof. exact reachable_scan_error_rejected. Qed.
Print Assumptions C06_reachable_scan_error_rejected.

Theorem C06_reachable_fetch_error_rejected : forall l n s e m,
  reach (scan_fuel l) n (init_sc {| si_chars := l; si_look := 0 |}) s ->
  (n < 4 * scan_fuel l + 20)%nat ->
  sc_stream_end s = false -> sc_token_available s = false -> sc_tokens s = [] ->
  fetch_next_token str_ops (scan_fuel l) s = Err e m ->
  snd (run_str l) <> PDone.
Proof. exact reachable_fetch_error_rejected. Qed.
Print Assumptions C06_reachable_fetch_error_rejected.

(* not vacuous: the state behind the StreamStart token is reached after one token, for every text *)
Theorem C06_reach_after_stream_start : forall l,
  reach (scan_fuel l) 1 (init_sc {| si_chars := l; si_look := 0 |}) (after_stream_start l).
Proof. exact reach_after_stream_start. Qed.
Print Assumptions C06_reach_after_stream_start.

(* one level down: the iterator refills its queue in ROUNDS (one fetch each) while the queue is empty or a possible key
   candidate waits at its head ([need_more] is that test, [rounds F k s s'] = k successful rounds).  For ANY state between two
   tokens: if after k rounds another round is needed and its fetch fails, the call of the iterator fails with that error ... *)
Theorem C06_round_fetch_error_is_scan_error : forall F n (s s' s1 : sc strin) e m,
  sc_stream_end s = false -> sc_token_available s = false ->
  rounds F n s s' -> need_more s' = Ok (true, s1) -> fetch_next_token str_ops F s1 = Err e m -> (n < F)%nat ->
  next_token str_ops F s = Err e m.
Proof. exact round_fetch_error_is_scan_error. Qed.
Print Assumptions C06_round_fetch_error_is_scan_error.

(* ... so every state-level theorem about [fetch_next_token] rejects the whole text in which its situation arises, between
   two tokens or in the middle of a refill (e.g. the wrong closer of "[ a }": the '[' is still a key candidate) *)
Theorem C06_reachable_round_error_rejected : forall l n k (s s' s1 : sc strin) e m,
  reach (scan_fuel l) n (init_sc {| si_chars := l; si_look := 0 |}) s ->
  (n < 4 * scan_fuel l + 20)%nat ->
  sc_stream_end s = false -> sc_token_available s = false ->
  rounds (scan_fuel l) k s s' -> (k < scan_fuel l)%nat ->
  need_more s' = Ok (true, s1) -> fetch_next_token str_ops (scan_fuel l) s1 = Err e m ->
  snd (run_str l) <> PDone.
Proof. exact reachable_round_error_rejected. Qed.
Print Assumptions C06_reachable_round_error_rejected.

(* the refill loop, one round unfolded *)
Theorem C06_fetch_more_tokens_round : forall F f,
  fetch_more_tokens str_ops F (S f)
  = bind need_more (fun need => if need then bind (fetch_next_token str_ops F) (fun _ => fetch_more_tokens str_ops F f)
                                else modify (set_ta true)).
Proof. exact fetch_more_tokens_unfold. Qed.
Print Assumptions C06_fetch_more_tokens_round.

(* /repo c5ad60c, positive form: behind an empty explicit key inside a flow sequence the token the parser looks at (Value,
   FlowEntry or the closing FlowSequenceEnd) is NOT consumed ... *)
Theorem C06_empty_explicit_key_keeps_next_token : forall p sp tk r,
  p_state p = SFlowSequenceEntryMappingKey -> toks_ahead p = (sp, tk) :: r ->
  (tk = TValue \/ tk = TFlowEntry \/ tk = TFlowSequenceEnd) ->
  exists p', state_machine p = Parser.Ok ((empty_scalar, sp), p')
             /\ toks_ahead p' = (sp, tk) :: r /\ p_state p' = SFlowSequenceEntryMappingValue /\ p_states p' = p_states p.
Proof. exact empty_explicit_key_keeps_next_token. Qed.
Print Assumptions C06_empty_explicit_key_keeps_next_token.

(* ... hence every token stream  pre ++ [ FlowSequenceStart Key FlowSequenceEnd FlowSequenceEnd ] ++ rest  ("[ ? ] ]") with
   only bracket-neutral tokens in front is rejected, whatever follows *)
Theorem C06_stray_closer_after_empty_key_rejected : forall pre sp1 sp2 sp3 sp4 rest keep se fuel,
  Forall (fun t => neutral (snd t) = true) pre ->
  snd (parse_all fuel
         (init_parser (pre ++ (sp1, TFlowSequenceStart) :: (sp2, TKey) :: (sp3, TFlowSequenceEnd) :: (sp4, TFlowSequenceEnd) :: rest) keep)
         se []) <> PDone.
Proof. exact stray_closer_after_empty_key_rejected. Qed.
Print Assumptions C06_stray_closer_after_empty_key_rejected.

(* the one-step form: from any state satisfying C02's invariant, goodness of the successor implies goodness of [p] *)
Theorem C06_step_keeps_bracket_invariant : forall p g,
  C02base.Inv p g -> first_ok p -> p_state p <> SEnd -> bpost (Good p) (state_machine p).
Proof. exact state_machine_bal. Qed.
Print Assumptions C06_step_keeps_bracket_invariant.

(* ================================================================================================ *)
(* R3: a second root node; a directive without document end marker                                     *)
(* ================================================================================================ *)
(* In state DocumentEnd (the root node is complete) any token that can only be more content -- everything except
   DocumentEnd, DocumentStart, StreamEnd and directives -- yields the DocumentEnd event and then, on the following
   document-start step, error site 3 ("did not find expected <document start>") at that token. *)
Theorem C06_second_root_rejected : forall p sp tk r,
  p_state p = SDocumentEnd -> toks_ahead p = (sp, tk) :: r -> content_tok tk = true ->
  exists sp' p', state_machine p = Parser.Ok ((EDocumentEnd, sp'), p')
                 /\ state_machine p' = Parser.Err (PErr 3 (sp_start sp)).
Proof. exact second_root_rejected. Qed.
Print Assumptions C06_second_root_rejected.

Theorem C06_second_root_run_rejected : forall p sp tk r fuel se acc,
  p_state p = SDocumentEnd -> toks_ahead p = (sp, tk) :: r -> content_tok tk = true ->
  run_end (2 + fuel) p se acc = PParseErr 3 (sp_start sp).
Proof. exact second_root_run_rejected. Qed.
Print Assumptions C06_second_root_run_rejected.

(* at the level of whole token streams and texts: a document whose root node is a scalar (any style), followed by any token
   that can only be more content *)
Theorem C06_second_root_after_scalar_rejected : forall sp0 sp1 st v sp2 tk r keep se fuel,
  content_tok tk = true ->
  run_end (5 + fuel) (init_parser ((sp0, TStreamStart) :: (sp1, TScalar st v) :: (sp2, tk) :: r) keep) se []
  = PParseErr 3 (sp_start sp2).
Proof. exact second_root_after_scalar_rejected. Qed.
Print Assumptions C06_second_root_after_scalar_rejected.

Theorem C06_second_root_after_scalar_text_rejected : forall s sp0 sp1 st v sp2 tk r,
  fst (scan_of s) = (sp0, TStreamStart) :: (sp1, TScalar st v) :: (sp2, tk) :: r -> content_tok tk = true ->
  snd (run_str s) = PParseErr 3 (sp_start sp2).
Proof. exact second_root_after_scalar_text_rejected. Qed.
Print Assumptions C06_second_root_after_scalar_text_rejected.

(* a directive there is site 4 ("missing explicit document end marker before directive") *)
Theorem C06_directive_without_document_end_rejected : forall p sp tk r,
  p_state p = SDocumentEnd -> toks_ahead p = (sp, tk) :: r -> is_directive_tok tk = true ->
  state_machine p = Parser.Err (PErr 4 (sp_start sp)).
Proof. exact directive_without_document_end_rejected. Qed.
Print Assumptions C06_directive_without_document_end_rejected.

(* ================================================================================================ *)
(* R4: alias without (preceding) anchor                                                               *)
(* ================================================================================================ *)
Theorem C06_alias_without_anchor_rejected : forall p sp n r b i,
  toks_ahead p = (sp, TAlias n) :: r -> assoc n (p_anchors p) = None -> p_states p <> [] ->
  parse_node p b i = Parser.Err (PErr 10 (sp_start sp)).
Proof. exact alias_without_anchor_rejected. Qed.
Print Assumptions C06_alias_without_anchor_rejected.

Theorem C06_root_alias_without_anchor_rejected : forall p sp n r,
  (p_state p = SBlockNode \/ p_state p = SDocumentContent) ->
  toks_ahead p = (sp, TAlias n) :: r -> assoc n (p_anchors p) = None -> p_states p <> [] ->
  state_machine p = Parser.Err (PErr 10 (sp_start sp)).
Proof. exact root_alias_without_anchor_rejected. Qed.
Print Assumptions C06_root_alias_without_anchor_rejected.

(* every successful DocumentEnd step empties the anchor table (DocReset), so an alias at the start of the NEXT document
   -- behind "---" or, after "...", bare -- fails whatever the previous documents anchored *)
Theorem C06_alias_to_previous_document_rejected : forall p ev p',
  document_end p = Parser.Ok (ev, p') ->
  (forall sp0 sp n r, toks_ahead p' = (sp0, TDocumentStart) :: (sp, TAlias n) :: r ->
     exists ev2 p2, state_machine p' = Parser.Ok (ev2, p2) /\ state_machine p2 = Parser.Err (PErr 10 (sp_start sp)))
  /\ (forall sp n r, p_state p' = SImplicitDocumentStart -> toks_ahead p' = (sp, TAlias n) :: r ->
     exists ev2 p2, state_machine p' = Parser.Ok (ev2, p2) /\ state_machine p2 = Parser.Err (PErr 10 (sp_start sp))).
Proof. exact alias_to_previous_document_rejected. Qed.
Print Assumptions C06_alias_to_previous_document_rejected.

(* ================================================================================================ *)
(* R5: named tag handle that was never declared                                                        *)
(* ================================================================================================ *)
Theorem C06_undeclared_handle_rejected : forall p m h s,
  is_named_handle h = true -> h <> [bang; bang] -> assoc h (p_tags p) = None ->
  resolve_tag p m h s = Parser.Err (PErr 20 m).
Proof. exact undeclared_handle_rejected. Qed.
Print Assumptions C06_undeclared_handle_rejected.

Theorem C06_node_with_undeclared_handle_rejected : forall p sp h s r b i,
  toks_ahead p = (sp, TTag h s) :: r ->
  is_named_handle h = true -> h <> [bang; bang] -> assoc h (p_tags p) = None ->
  parse_node p b i = Parser.Err (PErr 20 (sp_start sp)).
Proof. exact node_with_undeclared_handle_rejected. Qed.
Print Assumptions C06_node_with_undeclared_handle_rejected.

Theorem C06_anchored_node_with_undeclared_handle_rejected : forall p sp0 a sp h s r b i,
  toks_ahead p = (sp0, TAnchor a) :: (sp, TTag h s) :: r ->
  is_named_handle h = true -> h <> [bang; bang] -> assoc h (p_tags p) = None ->
  parse_node p b i = Parser.Err (PErr 20 (sp_start sp0)).
Proof. exact anchored_node_with_undeclared_handle_rejected. Qed.
Print Assumptions C06_anchored_node_with_undeclared_handle_rejected.

(* ================================================================================================ *)
(* R6: repeated %YAML directive                                                                        *)
(* ================================================================================================ *)
Theorem C06_repeated_version_directive_rejected : forall fuel p sp1 a b sp2 c d r tags,
  toks_ahead p = (sp1, TVersionDirective a b) :: (sp2, TVersionDirective c d) :: r ->
  process_directives (S (S fuel)) p false tags = Parser.Err (PErr 2 (sp_start sp2)).
Proof. exact repeated_version_directive_rejected. Qed.
Print Assumptions C06_repeated_version_directive_rejected.

(* with any number of %TAG directives between the two (then the error may also be the duplicate-handle one, 21) *)
Theorem C06_version_seen_then_version_rejected : forall ds fuel p tags sp a b r,
  Forall (fun t => match snd t with TTagDirective _ _ => True | _ => False end) ds ->
  toks_ahead p = ds ++ (sp, TVersionDirective a b) :: r -> (length ds < fuel)%nat ->
  match process_directives fuel p true tags with
  | Parser.Err (PErr s m) => (s = 2%N /\ m = sp_start sp) \/ s = 21%N
  | _ => False
  end.
Proof. exact version_seen_then_version_rejected. Qed.
Print Assumptions C06_version_seen_then_version_rejected.

Theorem C06_document_with_two_versions_rejected : forall p sp1 a b sp2 c d r,
  (p_state p = SImplicitDocumentStart \/ p_state p = SDocumentStart) ->
  toks_ahead p = (sp1, TVersionDirective a b) :: (sp2, TVersionDirective c d) :: r ->
  state_machine p = Parser.Err (PErr 2 (sp_start sp2)).
Proof. exact document_with_two_versions_rejected. Qed.
Print Assumptions C06_document_with_two_versions_rejected.

(* ================================================================================================ *)
(* R7: directives that are not followed by "---"                                                      *)
(* ================================================================================================ *)
(* any run [ds] of directive tokens followed by a token that is neither a directive nor DocumentStart (content, "...",
   the end of the stream): site 3 at that token, unless a directive of the run is itself in error (2, 21) *)
Theorem C06_directives_without_document_start_rejected : forall p ds sp tk r,
  Forall (fun t => is_directive_tok (snd t) = true) ds ->
  is_directive_tok tk = false -> tk <> TDocumentStart ->
  toks_ahead p = ds ++ (sp, tk) :: r ->
  match explicit_document_start p with
  | Parser.Err (PErr s m) => (s = 3%N /\ m = sp_start sp) \/ s = 2%N \/ s = 21%N
  | _ => False
  end.
Proof. exact directives_without_document_start_rejected. Qed.
Print Assumptions C06_directives_without_document_start_rejected.

Theorem C06_directives_at_end_of_stream_rejected : forall p ds sp r,
  Forall (fun t => is_directive_tok (snd t) = true) ds ->
  toks_ahead p = ds ++ (sp, TStreamEnd) :: r ->
  match explicit_document_start p with
  | Parser.Err (PErr s m) => (s = 3%N /\ m = sp_start sp) \/ s = 2%N \/ s = 21%N
  | _ => False
  end.
Proof. exact directives_at_end_of_stream_rejected. Qed.
Print Assumptions C06_directives_at_end_of_stream_rejected.

(* and a document start that sees a directive does go through [explicit_document_start] *)
Theorem C06_document_start_with_directive : forall p sp tk r impl,
  is_directive_tok tk = true -> toks_ahead p = (sp, tk) :: r ->
  exists q, toks_ahead q = (sp, tk) :: r /\ document_start p impl = explicit_document_start q.
Proof. exact document_start_with_directive. Qed.
Print Assumptions C06_document_start_with_directive.

(* ================================================================================================ *)
(* S1: escapes in double-quoted scalars ([resolve_escape]: backslash at offset 0, escape character at 1) *)
(* ================================================================================================ *)
(* EVERY code point that is neither in the generated single-character escape table nor x / u / U *)
Theorem C06_unknown_escape_rejected : forall start (s : sc strin),
  let e := nth 1 (si_chars (sc_in s)) 0 in
  ~ In e (map fst escape_table) -> ~ In e (map fst code_length_table) ->
  resolve_escape str_ops start s = Err 31 start.
Proof. exact unknown_escape_rejected. Qed.
Print Assumptions C06_unknown_escape_rejected.

(* x / u / U with a non-hex character (or the end of the input: code point 0) among the 2 / 4 / 8 required digits *)
Theorem C06_hex_escape_bad_digit_rejected : forall start (s : sc strin) n,
  In (nth 1 (si_chars (sc_in s)) 0, n) code_length_table ->
  (exists j, (j < n)%nat /\ is_hex (nth (2 + j) (si_chars (sc_in s)) 0) = false) ->
  resolve_escape str_ops start s = Err 30 start.
Proof. exact hex_escape_bad_digit_rejected. Qed.
Print Assumptions C06_hex_escape_bad_digit_rejected.

(* all digits present, but the number is no Unicode scalar value (surrogate, above 10FFFF) *)
Theorem C06_hex_escape_non_scalar_rejected : forall start (s : sc strin) n,
  In (nth 1 (si_chars (sc_in s)) 0, n) code_length_table ->
  let ds := firstn n (skipn 2 (si_chars (sc_in s))) in
  length ds = n -> forallb is_hex ds = true -> is_scalar_value (hex_number ds) = false ->
  resolve_escape str_ops start s = Err 32 start.
Proof. exact hex_escape_non_scalar_rejected. Qed.
Print Assumptions C06_hex_escape_non_scalar_rejected.

(* ================================================================================================ *)
(* S2: implicit keys longer than SIMPLE_KEY_MAX characters or spanning lines (block context)           *)
(* ================================================================================================ *)
(* What the model (like the code) guarantees: a possible key candidate is STALE iff the scanner is in BLOCK context
   (flow level 0) and the candidate began on an earlier line or more than 1024 characters ago; a stale REQUIRED
   candidate is an error (site 44), all other stale candidates are invalidated, nothing else changes; in flow
   context nothing is ever invalidated here (the limits of a flow-sequence pair key are enforced at its ':', see S9). *)
Theorem C06_key_longer_than_limit_is_stale : forall (s : sc strin) k,
  sk_possible k = true -> sc_flow_level s = 0 -> m_index (sk_mark k) + 1024 < m_index (sc_mark s) ->
  stale_key s k = true.
Proof. exact key_longer_than_limit_is_stale. Qed.
Print Assumptions C06_key_longer_than_limit_is_stale.

Theorem C06_key_on_earlier_line_is_stale : forall (s : sc strin) k,
  sk_possible k = true -> sc_flow_level s = 0 -> m_line (sk_mark k) < m_line (sc_mark s) ->
  stale_key s k = true.
Proof. exact key_on_earlier_line_is_stale. Qed.
Print Assumptions C06_key_on_earlier_line_is_stale.

Theorem C06_stale_required_key_rejected : forall (s : sc strin),
  (exists k, In k (sc_sks s) /\ stale_key s k = true /\ sk_required k = true) ->
  stale_simple_keys s = Err 44 (sc_mark s).
Proof. exact stale_required_key_rejected. Qed.
Print Assumptions C06_stale_required_key_rejected.

Theorem C06_stale_keys_invalidated : forall (s : sc strin),
  (forall k, In k (sc_sks s) -> stale_key s k = true -> sk_required k = false) ->
  exists s', stale_simple_keys s = Ok (tt, s')
    /\ sc_mark s' = sc_mark s /\ sc_tokens s' = sc_tokens s /\ sc_flow_level s' = sc_flow_level s
    /\ length (sc_sks s') = length (sc_sks s)
    /\ forall i k, nth_error (sc_sks s) i = Some k ->
         exists k', nth_error (sc_sks s') i = Some k'
           /\ (stale_key s k = true -> sk_possible k' = false)
           /\ (stale_key s k = false -> k' = k).
Proof. exact stale_keys_invalidated. Qed.
Print Assumptions C06_stale_keys_invalidated.

(* ... and what invalidation leads to at the ':' : no key candidate, no new key allowed here -> site 99
   ("mapping values are not allowed in this context") *)
Theorem C06_value_after_invalidated_key_rejected : forall F (s : sc strin) k r,
  sc_sks s = k :: r -> sk_possible k = false -> sc_flow_level s = 0 -> sc_ifms s = [] -> sc_ska s = false ->
  nth 0 (tl (si_chars (sc_in s))) 0 <> 9 ->
  fetch_value str_ops F s = Err 99 (sc_mark s).
Proof. exact value_after_invalidated_key_rejected. Qed.
Print Assumptions C06_value_after_invalidated_key_rejected.

(* ================================================================================================ *)
(* S3: flow nesting limit                                                                             *)
(* ================================================================================================ *)
Theorem C06_flow_level_limit_rejected : forall (s : sc strin),
  sc_flow_level s = FLOW_LEVEL_MAX -> increase_flow_level s = Err 45 (sc_mark s).
Proof. exact flow_level_limit_rejected. Qed.
Print Assumptions C06_flow_level_limit_rejected.

Theorem C06_flow_level_below_limit_increases : forall (s : sc strin),
  sc_flow_level s <> FLOW_LEVEL_MAX ->
  exists s', increase_flow_level s = Ok (tt, s') /\ sc_flow_level s' = sc_flow_level s + 1.
Proof. exact flow_level_below_limit_increases. Qed.
Print Assumptions C06_flow_level_below_limit_increases.

(* ================================================================================================ *)
(* R8 / S4: a block entry or key that is neither aligned with nor nested in an open collection         *)
(* ================================================================================================ *)
(* scanner half, ANY state in block context: a key / entry in a column deeper than the innermost open block collection
   opens a NEW collection (Block*Start token queued, column pushed) instead of continuing the open one ... *)
Theorem C06_deeper_column_starts_collection : forall (s : sc strin) col tk mk,
  sc_flow_level s = 0 -> (sc_indent s < Z.of_N col)%Z ->
  (forall i r, sc_indents s = i :: r -> in_needs_block_end i = true) ->
  N.of_nat (length (sc_indents s)) < BLOCK_NESTING_MAX ->
  roll_indent col None tk mk s
  = Ok (tt, set_tokens (sc_tokens s ++ [(span_empty mk, tk)])
              (set_indent (Z.of_N col) ({| in_indent := sc_indent s; in_needs_block_end := true |} :: sc_indents s) s)).
Proof. exact roll_indent_deeper_starts_collection. Qed.
Print Assumptions C06_deeper_column_starts_collection.

(* ... unless BLOCK_NESTING_MAX (255, generated from the Rust constant) collections are open already (/repo 99c201b): then a
   deeper key / entry is the scan error "recursion limit exceeded" (site 46) at the current mark -- "- - - ...", "? ? ? ...",
   "a:" NL " a:" NL "  a:" ... deeper than 255 are rejected.  [effective_indents s col] is the indentation stack once the
   one-column indent behind ':' / '-' that the new column reaches has been dropped. *)
Theorem C06_block_nesting_limit_rejected : forall (s : sc strin) col number tk mk,
  sc_flow_level s = 0 ->
  (fst (effective_indents s col) < Z.of_N col)%Z ->
  BLOCK_NESTING_MAX <= N.of_nat (length (snd (effective_indents s col))) ->
  roll_indent col number tk mk s = Err 46 (sc_mark s).
Proof. exact block_nesting_limit_rejected. Qed.
Print Assumptions C06_block_nesting_limit_rejected.

Theorem C06_block_nesting_limit_plain_rejected : forall (s : sc strin) col number tk mk,
  sc_flow_level s = 0 -> (sc_indent s < Z.of_N col)%Z ->
  (forall i r, sc_indents s = i :: r -> in_needs_block_end i = true) ->
  (255 <= length (sc_indents s))%nat ->
  roll_indent col number tk mk s = Err 46 (sc_mark s).
Proof. exact block_nesting_limit_plain_rejected. Qed.
Print Assumptions C06_block_nesting_limit_plain_rejected.

(* ... parser half, ANY token stream: where a block mapping expects its next key (or BlockEnd) every other token -- the
   Block*Start or scalar of the mis-indented line -- is site 5 at that token; where a block sequence expects its next
   entry, site 8 *)
Theorem C06_misindented_key_rejected : forall p sp tk r,
  p_state p = SBlockMappingKey -> toks_ahead p = (sp, tk) :: r -> continues_block_mapping tk = false ->
  state_machine p = Parser.Err (PErr 5 (sp_start sp)).
Proof. exact misindented_key_rejected. Qed.
Print Assumptions C06_misindented_key_rejected.

Theorem C06_misindented_entry_rejected : forall p sp tk r,
  p_state p = SBlockSequenceEntry -> toks_ahead p = (sp, tk) :: r -> continues_block_sequence tk = false ->
  state_machine p = Parser.Err (PErr 8 (sp_start sp)).
Proof. exact misindented_entry_rejected. Qed.
Print Assumptions C06_misindented_entry_rejected.

(* ================================================================================================ *)
(* S5: a tab used as block indentation                                                                *)
(* ================================================================================================ *)
(* ANY state inside a block collection, at a line start left of the current indentation, whose next character is a tab
   followed by any run [ws] of blanks and then content [c] (no blank, no '#', no line break, not the end of input):
   site 41 ("tabs disallowed within this context (block indentation)") at the content character *)
Theorem C06_tab_indentation_rejected : forall F (s : sc strin) ws c rest,
  si_chars (sc_in s) = 9 :: ws ++ c :: rest -> blank_run SkipYes ws -> is_content_start c ->
  sc_indents s <> [] -> sc_lws s = true -> (Z.of_N (m_col (sc_mark s)) < sc_indent s)%Z ->
  (S (length ws) < F)%nat ->
  skip_to_next_token str_ops F s = Err 41 (adv (N.of_nat (S (length ws))) (sc_mark s)).
Proof. exact tab_indentation_rejected. Qed.
Print Assumptions C06_tab_indentation_rejected.

Theorem C06_tab_indentation_fetch_rejected : forall F (s : sc strin) ws c rest,
  sc_stream_start s = true ->
  si_chars (sc_in s) = 9 :: ws ++ c :: rest -> blank_run SkipYes ws -> is_content_start c ->
  sc_indents s <> [] -> sc_lws s = true -> (Z.of_N (m_col (sc_mark s)) < sc_indent s)%Z ->
  (S (length ws) < F)%nat ->
  fetch_next_token str_ops F s = Err 41 (adv (N.of_nat (S (length ws))) (sc_mark s)).
Proof. exact tab_indentation_fetch_rejected. Qed.
Print Assumptions C06_tab_indentation_fetch_rejected.

(* a failing fetch is a failing token iterator when the queue is empty *)
Theorem C06_fetch_error_is_scan_error : forall F (s : sc strin) e m,
  sc_stream_end s = false -> sc_token_available s = false -> sc_tokens s = [] -> (0 < F)%nat ->
  fetch_next_token str_ops F s = Err e m -> next_token str_ops F s = Err e m.
Proof. exact next_token_fetch_err. Qed.
Print Assumptions C06_fetch_error_is_scan_error.

(* ================================================================================================ *)
(* S6: a flow collection continued left of its enclosing block                                        *)
(* ================================================================================================ *)
(* ANY state in flow context whose next character starts a token in a column smaller than the indentation of the
   enclosing block collection: site 102 ("invalid indentation").  (Column EQUAL to the block indentation is the known
   finding flow-continuation-at-block-indentation, see [C06_flow_continuation_at_block_indentation_accepted].) *)
Theorem C06_flow_line_left_of_block_indentation_rejected : forall F (s : sc strin),
  let c := nth 0 (si_chars (sc_in s)) 0 in
  sc_stream_start s = true -> (0 < F)%nat ->
  sc_flow_level s <> 0 ->
  not_skipped c -> c <> 0 ->
  (m_col (sc_mark s) <> 0 \/ (c <> 37 /\ c <> 45 /\ c <> 46)) ->
  (Z.of_N (m_col (sc_mark s)) < sc_indent s)%Z ->
  fetch_next_token str_ops F s = Err 102 (sc_mark s).
Proof. exact flow_line_left_of_block_indentation_rejected. Qed.
Print Assumptions C06_flow_line_left_of_block_indentation_rejected.

(* ================================================================================================ *)
(* S7: content after a document-end marker                                                            *)
(* ================================================================================================ *)
(* ANY state at column 0 whose input continues "..." blank [ws] [c] with [c] content (no comment, no line break, not the
   end of input), with a well-formed indentation stack (SInv.inv2) and no required pending key: site 101 ("invalid
   content after document end marker") at the content character *)
Theorem C06_content_after_document_end_rejected : forall F (s : sc strin) b ws c rest k0 r0,
  sc_stream_start s = true ->
  si_chars (sc_in s) = 46 :: 46 :: 46 :: b :: ws ++ c :: rest -> (b = 32 \/ b = 9) -> blank_run SkipYes ws -> is_content_start c ->
  m_col (sc_mark s) = 0 ->
  sorted_from (sc_indent s) (sc_indents s) = true ->
  sc_sks s = k0 :: r0 -> (forall k, In k (sc_sks s) -> sk_required k = false) ->
  (S (length ws) < F)%nat ->
  fetch_next_token str_ops F s = Err 101 (adv (N.of_nat (S (length ws))) (adv 3 (sc_mark s))).
Proof. exact content_after_document_end_rejected. Qed.
Print Assumptions C06_content_after_document_end_rejected.

(* as a statement about texts: every text that starts with such a line *)
Theorem C06_content_after_document_end_text_rejected : forall b ws c rest,
  (b = 32 \/ b = 9) -> blank_run SkipYes ws -> is_content_start c ->
  snd (run_str (46 :: 46 :: 46 :: b :: ws ++ c :: rest)) <> PDone.
Proof. exact content_after_document_end_text_rejected. Qed.
Print Assumptions C06_content_after_document_end_text_rejected.

(* ================================================================================================ *)
(* S8: a quoted scalar that is still open at the end of the input                                     *)
(* ================================================================================================ *)
(* ANY state about to scan a single- (double-) quoted scalar whose remaining input holds no further quote character of that kind,
   whatever else it holds (line breaks, document markers, escapes, NUL): the scan ends in an ERROR (end of input, site
   71; or earlier 70, 72, 73, 30-32) -- never in a token, a panic or exhausted fuel *)
Theorem C06_open_quoted_scalar_rejected : forall F single (s : sc strin) body,
  si_chars (sc_in s) = qchar single :: body -> qfree single body -> (length body < F)%nat ->
  exists e m, scan_flow_scalar str_ops F single s = Err e m.
Proof. exact open_quoted_scalar_rejected. Qed.
Print Assumptions C06_open_quoted_scalar_rejected.

(* the same from [fetch_next_token], for any started state standing on the opening quote *)
Theorem C06_open_quoted_scalar_fetch_rejected : forall F single (s : sc strin) body,
  sc_stream_start s = true ->
  si_chars (sc_in s) = qchar single :: body -> qfree single body -> (length body < F)%nat ->
  sorted_from (sc_indent s) (sc_indents s) = true ->
  (sc_flow_level s <> 0 \/ forall k, In k (sc_sks s) -> sk_required k = false) ->
  exists e m, fetch_next_token str_ops F s = Err e m.
Proof. exact open_quoted_scalar_next_rejected. Qed.
Print Assumptions C06_open_quoted_scalar_fetch_rejected.

(* and for whole texts: EVERY text made of an opening quote and any characters other than that quote is rejected *)
Theorem C06_open_quoted_text_rejected : forall single body,
  qfree single body -> snd (run_str (qchar single :: body)) <> PDone.
Proof. exact open_quoted_text_rejected. Qed.
Print Assumptions C06_open_quoted_text_rejected.

(* ================================================================================================ *)
(* S8b: a quoted implicit key spanning lines (block context)                                          *)
(* ================================================================================================ *)
(* [flow_scalar_tail] is what scan_flow_scalar does once its loop stopped at the closing quote ([scan_flow_scalar_tail]).
   ANY state in block context on the closing quote of a scalar that began on an EARLIER line, followed by blanks and ':'
   (so the scalar would be an implicit key): site 74 at the ':' *)
Theorem C06_scan_flow_scalar_tail : forall F single,
  scan_flow_scalar str_ops F single
  = bind mark (fun start => bind (skip_non_blank str_ops) (fun _ =>
      bind (flow_go F single start F [] false 0 []) (fun str => flow_scalar_tail F single start str))).
Proof. exact scan_flow_scalar_tail. Qed.
Print Assumptions C06_scan_flow_scalar_tail.

Theorem C06_multiline_quoted_key_rejected : forall F single start str (s : sc strin) q ws rest,
  si_chars (sc_in s) = q :: ws ++ 58 :: rest -> blank_run SkipYes ws ->
  sc_flow_level s = 0 -> m_line start <> m_line (sc_mark s) -> (length ws < F)%nat ->
  flow_scalar_tail F single start str s = Err 74 (adv (N.of_nat (length ws)) (adv 1 (sc_mark s))).
Proof. exact multiline_quoted_key_rejected. Qed.
Print Assumptions C06_multiline_quoted_key_rejected.

(* ================================================================================================ *)
(* S9: an implicit key of a flow-sequence pair that spans lines (/repo ad74b3e) or is longer than      *)
(*     1024 characters (/repo 57aa316)                                                                 *)
(* ================================================================================================ *)
(* ANY state at the ':' of "key: value": the innermost flow level is a flow sequence outside an explicit "? key" pair (top
   of implicit_flow_mapping_states Possible or Inside) and the key candidate began on an earlier line OR more than
   SIMPLE_KEY_MAX (1024) characters before the ':': site 98 ("illegal placement of ':' indicator") at the ':' --
   independent of any flow mapping opened and closed earlier (the state is kept per level; before ad74b3e one sticky flag
   made the check vanish once any '{' had been seen) and independent of the flow level (before 57aa316 the length limit
   only existed in block context: [ kkk...(1025): v ] was accepted).  [no_tab_behind_colon]: in block context the
   character behind ':' is no tab (that is site 97); in flow context it is not even looked at (/repo b87c12b). *)
Theorem C06_flow_pair_key_limit_rejected : forall F (s : sc strin) k r top rest,
  sc_sks s = k :: r -> sk_possible k = true ->
  sc_ifms s = top :: rest -> (top = ImPossible \/ top = ImInside) ->
  (m_line (sk_mark k) < m_line (sc_mark s) \/ m_index (sk_mark k) + SIMPLE_KEY_MAX < m_index (sc_mark s)) ->
  no_tab_behind_colon s ->
  sc_tokens_parsed s <= sk_token_number k ->
  (N.to_nat (sk_token_number k - sc_tokens_parsed s) <= length (sc_tokens s))%nat ->
  fetch_value str_ops F s = Err 98 (sc_mark s).
Proof. exact flow_pair_key_limit_rejected. Qed.
Print Assumptions C06_flow_pair_key_limit_rejected.

Theorem C06_multiline_flow_pair_key_rejected : forall F (s : sc strin) k r top rest,
  sc_sks s = k :: r -> sk_possible k = true ->
  sc_ifms s = top :: rest -> (top = ImPossible \/ top = ImInside) ->
  m_line (sk_mark k) < m_line (sc_mark s) ->
  no_tab_behind_colon s ->
  sc_tokens_parsed s <= sk_token_number k ->
  (N.to_nat (sk_token_number k - sc_tokens_parsed s) <= length (sc_tokens s))%nat ->
  fetch_value str_ops F s = Err 98 (sc_mark s).
Proof. exact multiline_flow_pair_key_rejected. Qed.
Print Assumptions C06_multiline_flow_pair_key_rejected.

Theorem C06_long_flow_pair_key_rejected : forall F (s : sc strin) k r top rest,
  sc_sks s = k :: r -> sk_possible k = true ->
  sc_ifms s = top :: rest -> (top = ImPossible \/ top = ImInside) ->
  m_index (sk_mark k) + 1024 < m_index (sc_mark s) ->
  no_tab_behind_colon s ->
  sc_tokens_parsed s <= sk_token_number k ->
  (N.to_nat (sk_token_number k - sc_tokens_parsed s) <= length (sc_tokens s))%nat ->
  fetch_value str_ops F s = Err 98 (sc_mark s).
Proof. exact long_flow_pair_key_rejected. Qed.
Print Assumptions C06_long_flow_pair_key_rejected.

(* ================================================================================================ *)
(* S10: a flow collection closed by the bracket of the other kind (/repo 88700d3)                      *)
(* ================================================================================================ *)
(* ANY scanner state with a non-empty implicit_flow_mapping_states stack (one entry per open '[' or '{'): the check that
   fetch_flow_collection_end runs first lets a closer pass iff it is of the kind of the innermost open collection ... *)
Theorem C06_check_flow_closer_spec : forall (s : sc strin) seq top rest,
  sc_ifms s = top :: rest ->
  check_flow_closer seq s
  = if Bool.eqb (is_mapping_level top) (negb seq) then Ok (tt, s)
    else Err (if is_mapping_level top then 47 else 48) (sc_mark s).
Proof. exact check_flow_closer_spec. Qed.
Print Assumptions C06_check_flow_closer_spec.

(* ... so ']' on an open '{' is site 47 ("while parsing a flow mapping, did not find expected ',' or '}'") and '}' on an open
   '[' (whatever the state of its implicit pair) is site 48 ("while parsing a flow sequence, expected ',' or ']'"), a SCAN
   error at the closer: nothing is popped, no token is queued.  (Before 88700d3 the scanner popped the level and left the
   mismatch to the parser, which missed it behind an implicit pair: "[ : } ]" was accepted.) *)
Theorem C06_mismatched_flow_closer_rejected : forall F (s : sc strin) (seq : bool) top rest,
  sc_ifms s = top :: rest -> is_mapping_level top = seq ->
  fetch_flow_collection_end str_ops F seq s = Err (if seq then 47 else 48) (sc_mark s).
Proof. exact mismatched_flow_closer_rejected. Qed.
Print Assumptions C06_mismatched_flow_closer_rejected.

(* from [fetch_next_token]: ANY started state in flow context standing on the closer (not left of the block indentation:
   that is S6), with a well-formed indentation stack *)
Theorem C06_mismatched_flow_closer_fetch_rejected : forall F (s : sc strin) (seq : bool) top rest,
  sc_stream_start s = true -> (0 < F)%nat ->
  nth 0 (si_chars (sc_in s)) 0 = (if seq then 93 else 125) ->
  sc_ifms s = top :: rest -> is_mapping_level top = seq ->
  sc_flow_level s <> 0 ->
  sorted_from (sc_indent s) (sc_indents s) = true ->
  (sc_indent s <= Z.of_N (m_col (sc_mark s)))%Z ->
  fetch_next_token str_ops F s = Err (if seq then 47 else 48) (sc_mark s).
Proof. exact mismatched_flow_closer_fetch_rejected. Qed.
Print Assumptions C06_mismatched_flow_closer_fetch_rejected.

(* ================================================================================================ *)
(* S11: block context: ':' separated from its value by tabs only                                       *)
(* ================================================================================================ *)
(* ANY state in block context at a ':' followed by one or more tabs (no space) and then '-' or a word character: site 97
   ("':' must be followed by a valid YAML whitespace") at that character.  /repo b87c12b removed this test in FLOW context
   only ({"a":<TAB>1} is accepted now); in block context the implementation's rule stands. *)
Theorem C06_tab_after_colon_in_block_rejected : forall F (s : sc strin) k r ts c rest,
  sc_sks s = k :: r -> sc_flow_level s = 0 ->
  si_chars (sc_in s) = 58 :: 9 :: ts ++ c :: rest -> Forall (fun x => x = 9) ts ->
  (c = 45 \/ is_alpha c = true) -> c <> 32 -> c <> 9 -> c <> 35 ->
  (S (length ts) < F)%nat ->
  fetch_value str_ops F s = Err 97 (adv (N.of_nat (S (length ts))) (adv 1 (sc_mark s))).
Proof. exact tab_after_colon_in_block_rejected. Qed.
Print Assumptions C06_tab_after_colon_in_block_rejected.

(* ================================================================================================ *)
(* T: text-level families -- a fixed first part, then ANY continuation of the stated shape             *)
(* ================================================================================================ *)
(* The state-level theorems S5, S7, S8 composed with [C06_reachable_fetch_error_rejected]: the reachability hypothesis is
   discharged by evaluating the token iterator on the fixed first part (the rest of the input stays symbolic). *)
(* k: QUOTE ...  -- the value of a block mapping opens a quoted scalar that is never closed *)
Theorem C06_open_quote_in_mapping_value_rejected : forall single body,
  qfree single body -> snd (run_str ([107; 58; 32] ++ qchar single :: body)) <> PDone.
Proof. exact open_quote_in_mapping_value_rejected. Qed.
Print Assumptions C06_open_quote_in_mapping_value_rejected.

(* - QUOTE ...  -- the same as entry of a block sequence *)
Theorem C06_open_quote_in_sequence_entry_rejected : forall single body,
  qfree single body -> snd (run_str ([45; 32] ++ qchar single :: body)) <> PDone.
Proof. exact open_quote_in_sequence_entry_rejected. Qed.
Print Assumptions C06_open_quote_in_sequence_entry_rejected.

(* a: NL TAB blanks content ...  -- a tab as indentation of the first nested line of a block mapping *)
Theorem C06_tab_indentation_text_rejected : forall ws c rest,
  blank_run SkipYes ws -> is_content_start c ->
  snd (run_str ([97; 58; 10; 9] ++ ws ++ c :: rest)) <> PDone.
Proof. exact tab_indentation_text_rejected. Qed.
Print Assumptions C06_tab_indentation_text_rejected.

(* a NL ... blank blanks content ...  -- content behind the document-end marker that follows a root scalar *)
Theorem C06_content_after_document_end_behind_scalar_rejected : forall b ws c rest,
  (b = 32 \/ b = 9) -> blank_run SkipYes ws -> is_content_start c ->
  snd (run_str ([97; 10; 46; 46; 46] ++ b :: ws ++ c :: rest)) <> PDone.
Proof. exact content_after_document_end_behind_scalar_rejected. Qed.
Print Assumptions C06_content_after_document_end_behind_scalar_rejected.

(* ---- a fixed first part that leads the scanner into an error, then ANY continuation: the tool ... ---- *)
Theorem C06_text_prefix_rejected : forall pre n e m,
  (n < 20)%nat ->
  (forall rest F', exists s, reach (2 * length pre + 10 + F') n (init_sc {| si_chars := pre ++ rest; si_look := 0 |}) s
                             /\ next_token str_ops (2 * length pre + 10 + F') s = Err e m) ->
  forall rest, snd (run_str (pre ++ rest)) <> PDone.
Proof. exact text_prefix_rejected. Qed.
Print Assumptions C06_text_prefix_rejected.

Theorem C06_text_prefix_scan_error_rejected : forall pre e m,
  (forall rest F' G', snd (scan_all str_ops (2 * length pre + 10 + F') (4 * (2 * length pre + 10) + 20 + G')
                             (init_sc {| si_chars := pre ++ rest; si_look := 0 |}) []) = SError e m) ->
  forall rest, snd (run_str (pre ++ rest)) <> PDone.
Proof. exact text_prefix_scan_error_rejected. Qed.
Print Assumptions C06_text_prefix_scan_error_rejected.

(* ... a flow collection closed by the bracket of the other kind (S10 at text level), in each state of
   implicit_flow_mapping_states -- [wrong_closer_prefixes]: "[}" "{]" "[ a }" "{ a ]" "[ a: b }" "[ ? a }" "[ : }" "{ a: b ]"
   "[ [ a }" "[ { a ]" "[a, b}" "{a: 1]" -- whatever follows the wrong closer ... *)
Theorem C06_wrong_closer_text_rejected :
  forall pre e m rest, In (pre, e, m) wrong_closer_prefixes -> snd (run_str (pre ++ rest)) <> PDone.
Proof. exact wrong_closer_text_rejected. Qed.
Print Assumptions C06_wrong_closer_text_rejected.

(* ... as value of a block mapping "k: [ a }" and as entry of a block sequence "- { a ]" (the error arises several tokens
   into the stream) ... *)
Theorem C06_wrong_closer_in_block_value_rejected : forall rest,
  snd (run_str ([107;58;32;91;32;97;32;125] ++ rest)) <> PDone
  /\ snd (run_str ([45;32;123;32;97;32;93] ++ rest)) <> PDone.
Proof. exact wrong_closer_in_block_value_rejected. Qed.
Print Assumptions C06_wrong_closer_in_block_value_rejected.

(* ... 256 nested block sequences "- - - ... " / explicit keys "? ? ? ... " on one line (S4's limit at text level, /repo
   99c201b), whatever follows; 255 levels are accepted *)
Theorem C06_deep_block_nesting_text_rejected : forall rest,
  snd (run_str (dashes 256 ++ rest)) <> PDone /\ snd (run_str (question_marks 256 ++ rest)) <> PDone.
Proof. exact deep_block_nesting_text_rejected. Qed.
Print Assumptions C06_deep_block_nesting_text_rejected.

Theorem C06_block_nesting_255_accepted : snd (run_str (dashes 255 ++ [97; 10])) = PDone.
Proof. exact block_nesting_255_accepted. Qed.
Print Assumptions C06_block_nesting_255_accepted.

(* ---- the family of /repo 57aa316 (S9 at text level; Proofs/RejectFlow.v): EVERY text "[ " k ": " ... whose key k is a word
        of more than 1024 lower-case letters is rejected -- the scan fails with site 98 at the ':' -- whatever follows.  The
        word is symbolic: the proof runs the scanner model over it by induction (the chunk loop of scan_plain_scalar). ---- *)
Theorem C06_long_flow_pair_key_family_rejected : forall k rest,
  lower_word k -> (1024 < length k)%nat -> snd (run_str ([91; 32] ++ k ++ 58 :: 32 :: rest)) <> PDone.
Proof. exact long_flow_pair_key_family_rejected. Qed.
Print Assumptions C06_long_flow_pair_key_family_rejected.

Theorem C06_long_flow_pair_key_scan_error : forall c w rest,
  lower c -> Forall lower w -> (1024 <= length w)%nat ->
  let l := [91; 32] ++ (c :: w) ++ 58 :: 32 :: rest in
  next_token str_ops (scan_fuel l) (after_stream_start l)
  = Err 98 {| m_index := 2 + N.of_nat (S (length w)); m_line := 1; m_col := 2 + N.of_nat (S (length w)) |}.
Proof. exact long_flow_pair_key_scan_error. Qed.
Print Assumptions C06_long_flow_pair_key_scan_error.

(* ---- flat flow sequences of words, the number of words and every word symbolic (Proofs/RejectFlow.v: induction over the
        words in ROUNDS of the iterator's refill; each word by induction over the chunk loop): EVERY text
        "[" w1 ", " w2 ", " ... wn "}" ...  is rejected -- the '}' is scan error 48 ... ---- *)
Theorem C06_flat_sequence_wrong_closer_rejected : forall c1 w1 ws rest,
  lower c1 -> Forall lower w1 -> Forall lower_cw ws ->
  snd (run_str (91 :: c1 :: w1 ++ flat_tail ws ++ 125 :: rest)) <> PDone.
Proof. exact flat_sequence_wrong_closer_rejected. Qed.
Print Assumptions C06_flat_sequence_wrong_closer_rejected.

(* ================================================================================================ *)
(* A: the state-level theorems S9 / S10 for EVERY state the scanner reaches on ANY text                 *)
(* ================================================================================================ *)
(* [fetch_point l s1]: in the scan of the text [l], the iterator delivered some tokens, ran some rounds of a refill and is
   about to fetch in state [s1].  For such states the structural hypotheses of S9 / S10 (non-empty
   implicit_flow_mapping_states, well-formed indentation stack, key candidate pointing into the queue, stream started) follow
   from two invariants proved elsewhere for all reachable states (C15's DocScan.SkInv; the J / SInv' invariant of the no-panic
   proof of the string back-end) -- Proofs/RejectReach.v.  Only the facts of the situation itself remain. *)
Theorem C06_wrong_closer_anywhere_rejected : forall l s1 (seq : bool),
  fetch_point l s1 ->
  sc_flow_level s1 <> 0 ->
  nth 0 (si_chars (sc_in s1)) 0 = (if seq then 93 else 125) ->
  is_mapping_level (hd ImPossible (sc_ifms s1)) = seq ->
  (sc_indent s1 <= Z.of_N (m_col (sc_mark s1)))%Z ->
  snd (run_str l) <> PDone.
Proof. exact wrong_closer_anywhere_rejected. Qed.
Print Assumptions C06_wrong_closer_anywhere_rejected.

Theorem C06_flow_pair_key_limit_anywhere_rejected : forall l s1 key r b rest,
  fetch_point l s1 ->
  sc_flow_level s1 <> 0 ->
  si_chars (sc_in s1) = 58 :: b :: rest -> is_blank_or_breakz b = true ->
  sc_sks s1 = key :: r -> sk_possible key = true ->
  (hd ImMapping (sc_ifms s1) = ImPossible \/ hd ImMapping (sc_ifms s1) = ImInside) ->
  (m_line (sk_mark key) < m_line (sc_mark s1) \/ m_index (sk_mark key) + SIMPLE_KEY_MAX < m_index (sc_mark s1)) ->
  (sc_indent s1 <= Z.of_N (m_col (sc_mark s1)))%Z ->
  snd (run_str l) <> PDone.
Proof. exact flow_pair_key_limit_anywhere_rejected. Qed.
Print Assumptions C06_flow_pair_key_limit_anywhere_rejected.

(* a failing fetch at any fetch point rejects the text (the composition theorems above, packaged) *)
Theorem C06_fetch_point_error_rejected : forall l s1 e m,
  fetch_point l s1 -> fetch_next_token str_ops (scan_fuel l) s1 = Err e m -> snd (run_str l) <> PDone.
Proof. exact fetch_point_error_rejected. Qed.
Print Assumptions C06_fetch_point_error_rejected.

(* not vacuous: in the scan of "[ a }" NL the state at the '}' is a fetch point in flow context with the sequence on top *)
Theorem C06_wrong_closer_fetch_point_exists :
  exists s1, fetch_point wrong_closer_example s1 /\ sc_flow_level s1 <> 0 /\ nth 0 (si_chars (sc_in s1)) 0 = 125
             /\ is_mapping_level (hd ImPossible (sc_ifms s1)) = false
             /\ (sc_indent s1 <= Z.of_N (m_col (sc_mark s1)))%Z.
Proof. exact wrong_closer_fetch_point. Qed.
Print Assumptions C06_wrong_closer_fetch_point_exists.

(* ================================================================================================ *)
(* The full property and its status                                                                    *)
(* ================================================================================================ *)
(* The full property as a closed statement: [damaged] (Proofs/RejectProofs.v) composes a renderer of well-formed one-line
   flow documents ([render_flow] on [wf_ok] trees: lower-case words, quoted words, sequences, mappings, empty explicit
   keys) with four damage operators (stray closer, dropped closer, swapped closer, second root node); [damaged_long_key]
   is the operator of the finding repaired by /repo 57aa316 (a flow-sequence pair whose key is longer than 1024 characters);
   [damaged_known] is the operator of the one finding that is still open (a flow continuation line at the column of the
   enclosing block key).  Every such text is ill-formed by construction.
   NOT proved; refuted below ([C06_full_refuted]) by [damaged_known] alone.  The general form, for any specification
   [ill_formed] of ill-formed character streams (the damage operators of vlib/p_c06.py composed with its generator), is
   [C06_full_for]. *)
Definition C06_full : Prop :=
  forall s, damaged s \/ damaged_long_key s \/ damaged_known s -> snd (run_str s) <> PDone.

(* the bracket / second-root fragment alone: OPEN -- neither proved nor refuted.  Missing for a proof: the scanner half for
   all rendered trees (the tokens of [render_flow f] are the brackets of [f]); the parser half is
   [C06_accepted_implies_balanced]. *)
Definition C06_full_flow_fragment : Prop := forall s, damaged s -> snd (run_str s) <> PDone.

(* the long-key fragment: PROVED -- every text of the operator of the finding repaired by /repo 57aa316 is rejected *)
Theorem C06_full_long_key_fragment : forall s, damaged_long_key s -> snd (run_str s) <> PDone.
Proof. exact damaged_long_key_rejected. Qed.
Print Assumptions C06_full_long_key_fragment.

(* the swapped-closer operator on every FLAT sequence of words (any number, any lengths): PROVED -- a first fragment of
   [C06_full_flow_fragment] in which the rendered tree is symbolic *)
Theorem C06_full_swap_flat_fragment : forall ws,
  ws <> [] -> Forall lower_word ws ->
  let f := WSeq (map WWord ws) in
  damaged (removelast (render_flow f) ++ [other_closer (last (render_flow f) 0); 10])
  /\ snd (run_str (removelast (render_flow f) ++ [other_closer (last (render_flow f) 0); 10])) <> PDone.
Proof. exact swap_closer_flat_sequence_rejected. Qed.
Print Assumptions C06_full_swap_flat_fragment.

(* the proved part, for EVERY text: it is rejected as soon as its scan fails or its token stream is unbalanced *)
Theorem C06_full_partial : forall s,
  (exists e m, snd (scan_of s) = SError e m) \/ (exists n, snd (scan_of s) = SPanic n)
  \/ flow_balanced (fst (scan_of s)) [] = false ->
  snd (run_str s) <> PDone.
Proof. exact text_rejected_if_scan_fails_or_unbalanced. Qed.
Print Assumptions C06_full_partial.

Theorem C06_full_refuted : ~ C06_full.
Proof. exact C06_full_damaged_refuted. Qed.
Print Assumptions C06_full_refuted.

(* the text that is ill-formed by YAML 1.2.2 (productions quoted in known_findings_c06.jsonl) and still accepted *)
Theorem C06_flow_continuation_at_block_indentation_accepted :
  damaged_known flow_continuation_text /\ snd (run_str flow_continuation_text) = PDone.
Proof. exact (conj flow_continuation_is_damaged flow_continuation_at_block_indentation_accepted). Qed.
Print Assumptions C06_flow_continuation_at_block_indentation_accepted.

Theorem C06_full_for_refuted : forall ill_formed : list N -> Prop,
  ill_formed flow_continuation_text -> ~ C06_full_for ill_formed.
Proof. exact C06_full_for_refuted_by_known. Qed.
Print Assumptions C06_full_for_refuted.

(* the witness recorded earlier as accepted, "[ k^1025: v ]" (an element of [damaged_long_key]): rejected since /repo 57aa316
   with the site and position the implementation reports; a key of exactly 1024 characters, and a 1025-character key of a
   flow MAPPING (YAML 1.2.2 [147]: no limit), stay accepted -- the repair does not reject too much *)
Theorem C06_long_flow_pair_key_text_rejected :
  damaged_long_key long_flow_pair_key_text
  /\ snd (run_str long_flow_pair_key_text) = PScanErr 98 {| m_index := 1027; m_line := 1; m_col := 1027 |}
  /\ snd (run_str longest_flow_pair_key_text) = PDone
  /\ snd (run_str long_flow_mapping_key_text) = PDone.
Proof. exact (conj long_flow_pair_key_is_damaged (conj long_flow_pair_key_text_rejected (conj longest_flow_pair_key_accepted long_flow_mapping_key_accepted))). Qed.
Print Assumptions C06_long_flow_pair_key_text_rejected.

(* two more texts recorded earlier as accepted, now rejected (regression witnesses of /repo c5ad60c and ad74b3e), with the
   verdict, site and position the implementation reports; and the legal "[ ? ]" is accepted *)
Theorem C06_stray_closer_rejected :
  snd (run_str stray_closer_text) = PParseErr 3 {| m_index := 6; m_line := 1; m_col := 6 |}.
Proof. exact stray_closer_rejected. Qed.
Print Assumptions C06_stray_closer_rejected.

Theorem C06_empty_explicit_key_accepted : snd (run_str empty_explicit_key_text) = PDone.
Proof. exact empty_explicit_key_accepted. Qed.
Print Assumptions C06_empty_explicit_key_accepted.

Theorem C06_multiline_flow_pair_key_behind_flow_mapping_rejected :
  snd (run_str multiline_flow_pair_key_text) = PScanErr 98 {| m_index := 15; m_line := 3; m_col := 3 |}
  /\ snd (run_str multiline_flow_pair_key_other_document_text) = PScanErr 98 {| m_index := 13; m_line := 4; m_col := 2 |}.
Proof. exact (conj multiline_flow_pair_key_text_rejected multiline_flow_pair_key_other_document_rejected). Qed.
Print Assumptions C06_multiline_flow_pair_key_behind_flow_mapping_rejected.

(* ================================================================================================ *)
(* Examples: one text per damage class through the whole model pipeline (scanner + parser); the verdict,  *)
(* site and position are the ones the implementation reports for the same text (correspondence run).   *)
(* ================================================================================================ *)
(* implementation: while scanning a quoted scalar, found unexpected end of stream *)
Example rejects_open_single_quote :
  snd (run_str [97;58;32;39;98;10])
  = PScanErr 71 {| m_index := 3; m_line := 1; m_col := 3 |}.
Proof. vm_compute. reflexivity. Qed.

(* implementation: while scanning a quoted scalar, found unexpected end of stream *)
Example rejects_open_double_quote_at_end :
  snd (run_str [45;32;34;97;98;99])
  = PScanErr 71 {| m_index := 2; m_line := 1; m_col := 2 |}.
Proof. vm_compute. reflexivity. Qed.

(* implementation: while parsing a flow sequence, expected ',' or ']' *)
Example rejects_open_flow_sequence :
  snd (run_str [91;97;44;32;98;10])
  = PParseErr 7 {| m_index := 6; m_line := 2; m_col := 0 |}.
Proof. vm_compute. reflexivity. Qed.

(* implementation: while parsing a node, did not find expected node content *)
Example rejects_open_flow_mapping :
  snd (run_str [107;58;32;123;97;58;32;49;44;10])
  = PParseErr 11 {| m_index := 10; m_line := 2; m_col := 0 |}.
Proof. vm_compute. reflexivity. Qed.

(* implementation: while parsing a flow sequence, expected ',' or ']'  (a scan error since /repo 88700d3) *)
Example rejects_mismatched_closer_seq :
  snd (run_str [91;97;44;32;98;125;10])
  = PScanErr 48 {| m_index := 5; m_line := 1; m_col := 5 |}.
Proof. vm_compute. reflexivity. Qed.

(* implementation: while parsing a flow mapping, did not find expected ',' or '}'  (a scan error since /repo 88700d3) *)
Example rejects_mismatched_closer_map :
  snd (run_str [123;97;58;32;49;93;10])
  = PScanErr 47 {| m_index := 5; m_line := 1; m_col := 5 |}.
Proof. vm_compute. reflexivity. Qed.

(* implementation: while parsing a block mapping, did not find expected key *)
Example rejects_stray_closer :
  snd (run_str [107;58;32;91;97;93;93;10])
  = PParseErr 5 {| m_index := 6; m_line := 1; m_col := 6 |}.
Proof. vm_compute. reflexivity. Qed.

(* implementation: tabs disallowed within this context (block indentation) *)
Example rejects_tab_indentation :
  snd (run_str [97;58;10;9;98;58;32;49;10])
  = PScanErr 41 {| m_index := 4; m_line := 2; m_col := 1 |}.
Proof. vm_compute. reflexivity. Qed.

(* implementation: while parsing a block mapping, did not find expected key *)
Example rejects_misindented_key :
  snd (run_str [97;58;10;32;32;98;58;32;39;120;39;10;32;99;58;32;49;10])
  = PParseErr 5 {| m_index := 13; m_line := 3; m_col := 1 |}.
Proof. vm_compute. reflexivity. Qed.

(* implementation: invalid indentation *)
Example rejects_flow_continuation_left_of_block :
  snd (run_str [107;58;10;32;32;106;58;32;91;97;44;10;32;98;93;10])
  = PScanErr 102 {| m_index := 13; m_line := 3; m_col := 1 |}.
Proof. vm_compute. reflexivity. Qed.

(* implementation: invalid indentation in flow construct *)
Example rejects_flow_continuation_plain_at_block :
  snd (run_str [107;58;32;91;97;44;10;98;93;10])
  = PScanErr 75 {| m_index := 7; m_line := 2; m_col := 0 |}.
Proof. vm_compute. reflexivity. Qed.

(* implementation: invalid trailing content after double-quoted scalar *)
Example rejects_multiline_quoted_key :
  snd (run_str [34;97;10;32;32;98;34;58;32;49;10])
  = PScanErr 74 {| m_index := 7; m_line := 2; m_col := 4 |}.
Proof. vm_compute. reflexivity. Qed.

(* implementation: illegal placement of ':' indicator *)
Example rejects_multiline_flow_pair_key :
  snd (run_str [91;32;34;97;10;32;98;34;58;32;118;32;93;10])
  = PScanErr 98 {| m_index := 8; m_line := 2; m_col := 3 |}.
Proof. vm_compute. reflexivity. Qed.

(* implementation: did not find expected <document start> *)
Example rejects_second_root_scalar :
  snd (run_str [39;97;39;10;39;98;39;10])
  = PParseErr 3 {| m_index := 4; m_line := 2; m_col := 0 |}.
Proof. vm_compute. reflexivity. Qed.

(* implementation: did not find expected <document start> *)
Example rejects_second_root_flow :
  snd (run_str [91;97;93;10;91;98;93;10])
  = PParseErr 3 {| m_index := 4; m_line := 2; m_col := 0 |}.
Proof. vm_compute. reflexivity. Qed.

(* implementation: mapping values are not allowed in this context *)
Example rejects_mapping_after_root_scalar :
  snd (run_str [97;10;98;58;32;49;10])
  = PScanErr 99 {| m_index := 3; m_line := 2; m_col := 1 |}.
Proof. vm_compute. reflexivity. Qed.

(* implementation: while parsing a quoted scalar, found unknown escape character *)
Example rejects_unknown_escape :
  snd (run_str [34;92;113;34;10])
  = PScanErr 31 {| m_index := 0; m_line := 1; m_col := 0 |}.
Proof. vm_compute. reflexivity. Qed.

(* implementation: while parsing a quoted scalar, did not find expected hexadecimal number *)
Example rejects_truncated_escape :
  snd (run_str [34;92;120;52;34;10])
  = PScanErr 30 {| m_index := 0; m_line := 1; m_col := 0 |}.
Proof. vm_compute. reflexivity. Qed.

(* implementation: while parsing a quoted scalar, found invalid Unicode character escape code *)
Example rejects_surrogate_escape :
  snd (run_str [34;92;117;68;56;48;48;34;10])
  = PScanErr 32 {| m_index := 0; m_line := 1; m_col := 0 |}.
Proof. vm_compute. reflexivity. Qed.

(* implementation: while parsing node, found unknown anchor *)
Example rejects_alias_without_anchor :
  snd (run_str [42;97;10])
  = PParseErr 10 {| m_index := 0; m_line := 1; m_col := 0 |}.
Proof. vm_compute. reflexivity. Qed.

(* implementation: while parsing node, found unknown anchor *)
Example rejects_alias_to_previous_document :
  snd (run_str [38;97;32;120;10;45;45;45;10;42;97;10])
  = PParseErr 10 {| m_index := 9; m_line := 3; m_col := 0 |}.
Proof. vm_compute. reflexivity. Qed.

(* implementation: while parsing node, found unknown anchor *)
Example rejects_alias_before_anchor :
  snd (run_str [45;32;42;97;10;45;32;38;97;32;120;10])
  = PParseErr 10 {| m_index := 2; m_line := 1; m_col := 2 |}.
Proof. vm_compute. reflexivity. Qed.

(* implementation: the handle wasn't declared *)
Example rejects_undeclared_handle :
  snd (run_str [33;117;33;120;32;97;10])
  = PParseErr 20 {| m_index := 0; m_line := 1; m_col := 0 |}.
Proof. vm_compute. reflexivity. Qed.

(* implementation: the handle wasn't declared *)
Example rejects_handle_of_previous_document :
  snd (run_str [37;84;65;71;32;33;101;33;32;116;97;103;58;101;44;10;45;45;45;32;33;101;33;120;32;97;10;46;46;46;10;45;45;45;32;33;101;33;120;32;98;10])
  = PParseErr 20 {| m_index := 35; m_line := 4; m_col := 4 |}.
Proof. vm_compute. reflexivity. Qed.

(* implementation: duplicate version directive *)
Example rejects_repeated_yaml_directive :
  snd (run_str [37;89;65;77;76;32;49;46;50;10;37;89;65;77;76;32;49;46;50;10;45;45;45;32;97;10])
  = PParseErr 2 {| m_index := 10; m_line := 2; m_col := 0 |}.
Proof. vm_compute. reflexivity. Qed.

(* implementation: did not find expected <document start> *)
Example rejects_directive_at_end_of_stream :
  snd (run_str [97;10;46;46;46;10;37;89;65;77;76;32;49;46;50;10])
  = PParseErr 3 {| m_index := 16; m_line := 4; m_col := 0 |}.
Proof. vm_compute. reflexivity. Qed.

(* implementation: missing explicit document end marker before directive *)
Example rejects_directive_without_document_end :
  snd (run_str [39;97;39;10;37;89;65;77;76;32;49;46;50;10;45;45;45;32;98;10])
  = PParseErr 4 {| m_index := 4; m_line := 2; m_col := 0 |}.
Proof. vm_compute. reflexivity. Qed.

(* implementation: did not find expected <document start> *)
Example rejects_directive_then_content :
  snd (run_str [37;89;65;77;76;32;49;46;50;10;107;58;32;118;10])
  = PParseErr 3 {| m_index := 10; m_line := 2; m_col := 0 |}.
Proof. vm_compute. reflexivity. Qed.

(* implementation: invalid content after document end marker *)
Example rejects_content_after_document_end :
  snd (run_str [97;10;46;46;46;32;98;10])
  = PScanErr 101 {| m_index := 6; m_line := 2; m_col := 4 |}.
Proof. vm_compute. reflexivity. Qed.

(* the hypotheses of the state-level theorem S5 are satisfiable: the scanner state of "a:" NL TAB "b: 1" at the start of
   line 2 (inside the block mapping at indentation 0, looking for a line nested in column >= 1 ... here indentation 1
   of the one-column indent behind ':'); the theorem gives the verdict of [rejects_tab_indentation] above *)
Example tab_indentation_hypotheses_satisfiable :
  let s : sc strin := {|
    sc_in := {| si_chars := [9;98;58;32;49;10]; si_look := 2 |}; sc_mark := {| m_index := 3; m_line := 2; m_col := 0 |};
    sc_tokens := []; sc_stream_start := true; sc_stream_end := false; sc_adjacent := 0; sc_ska := true;
    sc_sks := [{| sk_possible := false; sk_required := false; sk_token_number := 0; sk_mark := mk0 |}];
    sc_indent := 1%Z; sc_indents := [{| in_indent := 0%Z; in_needs_block_end := false |}; {| in_indent := (-1)%Z; in_needs_block_end := true |}];
    sc_flow_level := 0; sc_tokens_parsed := 4; sc_token_available := false; sc_lws := true; sc_ifms := [] |} in
  si_chars (sc_in s) = 9 :: [] ++ 98 :: [58;32;49;10] /\ blank_run SkipYes [] /\ is_content_start 98
  /\ sc_indents s <> [] /\ sc_lws s = true /\ (Z.of_N (m_col (sc_mark s)) < sc_indent s)%Z
  /\ skip_to_next_token str_ops 5 s = Err 41 {| m_index := 4; m_line := 2; m_col := 1 |}.
Proof.
  cbv zeta. repeat split; try discriminate; try constructor.
Qed.

(* the hypotheses of S8 at text level: an opening double quote followed by text with escapes, line breaks and a document
   marker but no further double quote *)
Example open_quoted_text_instance :
  snd (run_str (34 :: [97;92;110;10;45;45;45;32;39;98;39;10])) <> PDone.
Proof. apply (C06_open_quoted_text_rejected false). unfold qfree, qchar. cbn. intuition discriminate. Qed.

(* implementation: ':' must be followed by a valid YAML whitespace  (block context; S11) *)
Example rejects_tab_after_colon_in_block :
  snd (run_str [97;58;9;98;10])
  = PScanErr 97 {| m_index := 3; m_line := 1; m_col := 3 |}.
Proof. vm_compute. reflexivity. Qed.

(* ... and since /repo b87c12b the same separation is accepted in flow context *)
Example accepts_tab_after_colon_in_flow : snd (run_str [123;97;58;9;98;125;10]) = PDone.
Proof. vm_compute. reflexivity. Qed.

(* implementation: recursion limit exceeded  (S4; 256 x "- " then "a") *)
Example rejects_deep_block_nesting :
  snd (run_str (dashes 256 ++ [97;10])) = PScanErr 46 {| m_index := 511; m_line := 1; m_col := 511 |}.
Proof. vm_compute. reflexivity. Qed.

(* the hypotheses of S10 are satisfiable: the scanner state of "[ a }" at the '}' (one flow sequence open, state Possible),
   with the verdict of [C06_mismatched_flow_closer_fetch_rejected] *)
Example mismatched_closer_hypotheses_satisfiable :
  let s : sc strin := {|
    sc_in := {| si_chars := [125;10]; si_look := 128 |}; sc_mark := {| m_index := 4; m_line := 1; m_col := 4 |};
    sc_tokens := []; sc_stream_start := true; sc_stream_end := false; sc_adjacent := 0; sc_ska := false;
    sc_sks := [{| sk_possible := true; sk_required := false; sk_token_number := 2; sk_mark := {| m_index := 2; m_line := 1; m_col := 2 |} |};
               {| sk_possible := true; sk_required := false; sk_token_number := 1; sk_mark := {| m_index := 0; m_line := 1; m_col := 0 |} |}];
    sc_indent := (-1)%Z; sc_indents := []; sc_flow_level := 1; sc_tokens_parsed := 1;
    sc_token_available := false; sc_lws := false; sc_ifms := [ImPossible] |} in
  sc_ifms s = ImPossible :: [] /\ is_mapping_level ImPossible = false /\ sc_flow_level s <> 0
  /\ sorted_from (sc_indent s) (sc_indents s) = true /\ (sc_indent s <= Z.of_N (m_col (sc_mark s)))%Z
  /\ fetch_next_token str_ops 5 s = Err 48 {| m_index := 4; m_line := 1; m_col := 4 |}.
Proof. cbv zeta. repeat split; try discriminate. Qed.

(* instances of the text-level families: "[ a } ]" and "[ k^2000: v ]" *)
Example wrong_closer_text_instance : snd (run_str ([91;32;97;32;125] ++ [32;93;10])) <> PDone.
Proof. apply (C06_wrong_closer_text_rejected _ 48 {| m_index := 4; m_line := 1; m_col := 4 |}). cbn. tauto. Qed.

Example long_flow_pair_key_family_instance :
  snd (run_str ([91;32] ++ repeat 107 2000 ++ 58 :: 32 :: [118;32;93;10])) <> PDone.
Proof.
  apply C06_long_flow_pair_key_family_rejected.
  - apply lower_word_repeat; [cbv; discriminate | cbv; discriminate | apply Nat.ltb_lt; vm_compute; reflexivity].
  - rewrite repeat_length. apply Nat.ltb_lt. vm_compute. reflexivity.
Qed.

(* an instance of the flat-sequence family: "[ab, c, def}" NL *)
Example flat_sequence_wrong_closer_instance :
  snd (run_str (91 :: 97 :: [98] ++ flat_tail [(99, []); (100, [101; 102])] ++ 125 :: [10])) <> PDone.
Proof.
  apply C06_flat_sequence_wrong_closer_rejected.
  - cbv; split; discriminate.
  - repeat constructor; cbv; discriminate.
  - repeat constructor; cbv; discriminate.
Qed.

(* ================================================================================================ *)
(* T: damaged BLOCK documents at text level (Proofs/RejectBlockText.v): the well-formed part is run through the scanner   *)
(* with the C03 block-text machinery (Proofs/ScanBlockProofs.v), the failing step is a state-level theorem from above    *)
(* ================================================================================================ *)
(* ANY scanner state behind "key:" or behind "-" at the end of its line, whatever block collections [cols] are open
   (ScanBlockProofs.at_below -- the states in which C03's scan of a block document stands at every nested line), whose next
   line starts with a tab, any blanks and then content: the token iterator fails with site 41 *)
Theorem C06_tab_indentation_below_parent_rejected : forall F (s : sc strin) ws c rest cols,
  ScanBlockProofs.at_below s (10 :: 9 :: ws ++ c :: rest) cols -> blank_run SkipYes ws -> is_content_start c ->
  (length ws + 3 <= F)%nat ->
  exists m, next_token str_ops F s = Err 41 m.
Proof. exact RejectBlockText.tab_at_below. Qed.
Print Assumptions C06_tab_indentation_below_parent_rejected.

(* EVERY text  key ":" NL TAB blanks content anything  -- the key any word of the block text sub-language (at most 1024
   characters): scan error 41, rejected.  Generalises [C06_tab_indentation_text_rejected] (key "a") *)
Theorem C06_tab_indentation_below_key_text_rejected : forall k ws c rest,
  FlowText.key_ok k = true -> blank_run SkipYes ws -> is_content_start c ->
  (exists m, snd (Drivers.scan_str (k ++ 58 :: 10 :: 9 :: ws ++ c :: rest)) = SError 41 m)
  /\ snd (run_str (k ++ 58 :: 10 :: 9 :: ws ++ c :: rest)) <> PDone.
Proof. exact RejectBlockText.tab_below_key_rejected. Qed.
Print Assumptions C06_tab_indentation_below_key_text_rejected.

(* EVERY text  "-" NL TAB blanks content anything *)
Theorem C06_tab_indentation_below_entry_text_rejected : forall ws c rest,
  blank_run SkipYes ws -> is_content_start c ->
  (exists m, snd (Drivers.scan_str (45 :: 10 :: 9 :: ws ++ c :: rest)) = SError 41 m)
  /\ snd (run_str (45 :: 10 :: 9 :: ws ++ c :: rest)) <> PDone.
Proof. exact RejectBlockText.tab_below_dash_rejected. Qed.
Print Assumptions C06_tab_indentation_below_entry_text_rejected.

(* instances: "key:" NL TAB " j: v" NL and "-" NL TAB "x" NL, with the position the pipeline reports *)
Example tab_below_key_instance :
  FlowText.key_ok [107;101;121] = true /\ blank_run SkipYes [32] /\ is_content_start 106
  /\ snd (run_str ([107;101;121] ++ 58 :: 10 :: 9 :: [32] ++ 106 :: [58;32;118;10]))
     = PScanErr 41 {| m_index := 7; m_line := 2; m_col := 2 |}.
Proof. split; [reflexivity|]. split; [repeat constructor|]. split; [cbv; repeat split; discriminate|]. vm_compute. reflexivity. Qed.

Example tab_below_entry_instance :
  snd (run_str (45 :: 10 :: 9 :: [] ++ 120 :: [10])) = PScanErr 41 {| m_index := 3; m_line := 2; m_col := 1 |}.
Proof. vm_compute. reflexivity. Qed.

(* the well-formed part SYMBOLIC: EVERY document [n] of the block text sub-language (Spec/BlockText.v: nested block sequences
   and mappings of one-word scalars, any placement and indentation widths, nesting depth <= 255 -- the class of
   [C03_block_text_tokens]), followed by one more line "key:" at column 0 whose nested line is indented by a TAB (then any
   blanks, content, anything): scan error 41, rejected.  For a mapping root this is the document with one more pair, the tab
   standing where the indentation of the pair's value belongs. *)
Theorem C06_tab_indentation_after_block_document_rejected : forall n k ws c rest,
  BlockText.bwf_root n = true -> (BlockText.bdepth n <= 255)%nat ->
  FlowText.key_ok k = true -> blank_run SkipYes ws -> is_content_start c ->
  (exists m, snd (Drivers.scan_str (BlockText.bdoc_text n ++ k ++ 58 :: 10 :: 9 :: ws ++ c :: rest)) = SError 41 m)
  /\ snd (run_str (BlockText.bdoc_text n ++ k ++ 58 :: 10 :: 9 :: ws ++ c :: rest)) <> PDone.
Proof. exact RejectBlockText.tab_below_key_after_document_rejected. Qed.
Print Assumptions C06_tab_indentation_after_block_document_rejected.

(* instance: "a:" NL "  - b" NL "  - c: d" NL   then   "k:" NL TAB "j: v" NL *)
Example tab_after_block_document_instance :
  let n := BlockText.BM None [([97], BlockText.BS (Some 1%nat) [BlockText.BW [98]; BlockText.BM None [([99], BlockText.BW [100])]])] in
  BlockText.bwf_root n = true /\ (BlockText.bdepth n <= 255)%nat
  /\ BlockText.bdoc_text n = [97;58;10; 32;32;45;32;98;10; 32;32;45;32;99;58;32;100;10]
  /\ snd (run_str (BlockText.bdoc_text n)) = PDone
  /\ snd (run_str (BlockText.bdoc_text n ++ [107] ++ 58 :: 10 :: 9 :: [] ++ 106 :: [58;32;118;10]))
     = PScanErr 41 {| m_index := 22; m_line := 5; m_col := 1 |}.
Proof. cbv zeta. split; [reflexivity|]. split; [cbn; repeat constructor|]. split; [reflexivity|]. split; vm_compute; reflexivity. Qed.
