(* C06 -- Ill-formed YAML is rejected with an error, never silently accepted.
   Only statements, each closed by [exact] of a lemma of Proofs/RejectProofs.v, with Print Assumptions; Examples show
   that the hypotheses are satisfiable and tie the parser-level sites to whole texts through the model pipeline.

   Layers.  (R1-R7) the PARSER model on ARBITRARY remaining token streams ([toks_ahead p] = one-token cache ++ tokens the
   scanner will still deliver), (S1-S3) the SCANNER model over the character-level input [str_ops].
   The full property -- every ill-formed character stream is rejected by the pipeline -- is [C06_full]; it is stated,
   NOT proved, and in fact refuted for the faithful model (and the code) by four accepted ill-formed texts
   ([C06_full_refuted], [C06_full_for_refuted]; known_findings_c06.jsonl).  What is proved are the rejection mechanisms listed below. *)
From Coq Require Import List NArith ZArith Bool.
Import ListNotations.
Require Import Parser SBase SPrim SDir SScalar SFetch Pipe C02base C02run DocReset RejectProofs.
Open Scope N_scope.

(* ================================================================================================ *)
(* R1 / R2: a flow collection that is still open at the end of the stream (or of the document, or of    *)
(* the enclosing block), or that meets a closing bracket of the other kind                             *)
(* ================================================================================================ *)
(* From every state inside a flow sequence (k = true) or flow mapping (k = false), whatever the state stack and
   the rest of the token stream: if the next token is StreamEnd / DocumentStart / DocumentEnd / a directive / BlockEnd /
   a block collection start / a block entry, or the closer of the OTHER kind, then the run ends -- after at most two
   empty-scalar / MappingEnd events -- with a parse error (site 6, 7 or 11) AT THAT TOKEN; it never reaches PDone. *)
Theorem C06_open_flow_rejected : forall p k sp tk r,
  flow_family (p_state p) = Some k -> toks_ahead p = (sp, tk) :: r -> bad_in_flow k tk = true ->
  forall fuel se acc, exists s, flow_err_site s /\ run_end (3 + fuel) p se acc = PParseErr s (sp_start sp).
Proof. exact open_flow_rejected. Qed.
Print Assumptions C06_open_flow_rejected.

(* the same directly behind the opening bracket [t0] *)
Theorem C06_open_flow_first_rejected : forall p (seq : bool) t0 sp tk r,
  p_state p = (if seq then SFlowSequenceFirstEntry else SFlowMappingFirstKey) ->
  toks_ahead p = t0 :: (sp, tk) :: r -> bad_in_flow seq tk = true ->
  state_machine p = Parser.Err (PErr 11 (sp_start sp)).
Proof. exact open_flow_first_rejected. Qed.
Print Assumptions C06_open_flow_first_rejected.

(* R2, per state: "}" where "," or "]" is expected, "]" where "," or "}" is expected *)
Theorem C06_mapping_end_in_flow_sequence_rejected : forall p sp r,
  p_state p = SFlowSequenceEntry -> toks_ahead p = (sp, TFlowMappingEnd) :: r ->
  state_machine p = Parser.Err (PErr 7 (sp_start sp)).
Proof. exact flow_seq_entry_mapping_end. Qed.
Print Assumptions C06_mapping_end_in_flow_sequence_rejected.

Theorem C06_mapping_end_behind_sequence_start_rejected : forall p t0 sp r,
  p_state p = SFlowSequenceFirstEntry -> toks_ahead p = t0 :: (sp, TFlowMappingEnd) :: r ->
  state_machine p = Parser.Err (PErr 11 (sp_start sp)).
Proof. exact flow_seq_first_entry_mapping_end. Qed.
Print Assumptions C06_mapping_end_behind_sequence_start_rejected.

Theorem C06_sequence_end_in_flow_mapping_rejected : forall p sp r,
  p_state p = SFlowMappingKey -> toks_ahead p = (sp, TFlowSequenceEnd) :: r ->
  state_machine p = Parser.Err (PErr 6 (sp_start sp)).
Proof. exact flow_map_key_sequence_end. Qed.
Print Assumptions C06_sequence_end_in_flow_mapping_rejected.

Theorem C06_sequence_end_behind_mapping_start_rejected : forall p t0 sp r,
  p_state p = SFlowMappingFirstKey -> toks_ahead p = t0 :: (sp, TFlowSequenceEnd) :: r ->
  state_machine p = Parser.Err (PErr 11 (sp_start sp)).
Proof. exact flow_map_first_key_sequence_end. Qed.
Print Assumptions C06_sequence_end_behind_mapping_start_rejected.

(* The clean global form "a run that ends in PDone read a token stream with balanced, matching flow brackets" is
   FALSE for the faithful model: [flow_sequence_entry_mapping_key] consumes the FlowSequenceEnd behind an empty
   explicit key, so the tokens of "[ ? ] ]" are accepted. *)
Theorem C06_accepted_implies_balanced_refuted : ~ accepted_implies_balanced.
Proof. exact accepted_implies_balanced_refuted. Qed.
Print Assumptions C06_accepted_implies_balanced_refuted.

(* What IS true globally, for EVERY token list, scanner ending and fuel (a second invariant through all 21 parser states,
   Proofs/RejectProofs.v): an accepted stream obeys [bal'] = [flow_balanced] with that one defect built in (inside a flow
   sequence a Key token directly followed by FlowSequenceEnd swallows the closer) ... *)
Theorem C06_accepted_implies_balanced_modulo_swallowed_closer : forall toks keep se fuel,
  snd (parse_all fuel (init_parser toks keep) se []) = PDone -> bal' toks [] = true.
Proof. exact accepted_implies_balanced_modulo_swallowed_closer. Qed.
Print Assumptions C06_accepted_implies_balanced_modulo_swallowed_closer.

(* ... so every accepted stream without a Key token directly followed by FlowSequenceEnd has balanced, properly
   matched flow brackets up to StreamEnd: no flow collection open at the end, no closer of the wrong kind, no stray
   closer -- whatever else the stream contains *)
Theorem C06_accepted_implies_balanced_without_swallowed_closer : forall toks keep se fuel,
  no_key_then_closer toks = true ->
  snd (parse_all fuel (init_parser toks keep) se []) = PDone -> flow_balanced toks [] = true.
Proof. exact accepted_implies_balanced_without_swallowed_closer. Qed.
Print Assumptions C06_accepted_implies_balanced_without_swallowed_closer.

(* the one-step form: from any state satisfying C02's invariant, goodness of the successor implies goodness of [p] *)
Theorem C06_step_keeps_bracket_invariant : forall p g,
  C02base.Inv p g -> first_ok p -> p_state p <> SEnd -> bpost (Good p) (state_machine p).
Proof. exact state_machine_bal. Qed.
Print Assumptions C06_step_keeps_bracket_invariant.

(* ================================================================================================ *)
(* R3: a second root node; a directive without document end marker                                     *)
(* ================================================================================================ *)
(* In state DocumentEnd (the root node is complete) any token that can only be more content -- everything except
   DocumentEnd, DocumentStart, StreamEnd and directives -- yields the DocumentEnd event and then, on the following
   document-start step, error site 3 ("did not find expected <document start>") at that token. *)
Theorem C06_second_root_rejected : forall p sp tk r,
  p_state p = SDocumentEnd -> toks_ahead p = (sp, tk) :: r -> content_tok tk = true ->
  exists sp' p', state_machine p = Parser.Ok ((EDocumentEnd, sp'), p')
                 /\ state_machine p' = Parser.Err (PErr 3 (sp_start sp)).
Proof. exact second_root_rejected. Qed.
Print Assumptions C06_second_root_rejected.

Theorem C06_second_root_run_rejected : forall p sp tk r fuel se acc,
  p_state p = SDocumentEnd -> toks_ahead p = (sp, tk) :: r -> content_tok tk = true ->
  run_end (2 + fuel) p se acc = PParseErr 3 (sp_start sp).
Proof. exact second_root_run_rejected. Qed.
Print Assumptions C06_second_root_run_rejected.

(* a directive there is site 4 ("missing explicit document end marker before directive") *)
Theorem C06_directive_without_document_end_rejected : forall p sp tk r,
  p_state p = SDocumentEnd -> toks_ahead p = (sp, tk) :: r -> is_directive_tok tk = true ->
  state_machine p = Parser.Err (PErr 4 (sp_start sp)).
Proof. exact directive_without_document_end_rejected. Qed.
Print Assumptions C06_directive_without_document_end_rejected.

(* ================================================================================================ *)
(* R4: alias without (preceding) anchor                                                               *)
(* ================================================================================================ *)
Theorem C06_alias_without_anchor_rejected : forall p sp n r b i,
  toks_ahead p = (sp, TAlias n) :: r -> assoc n (p_anchors p) = None -> p_states p <> [] ->
  parse_node p b i = Parser.Err (PErr 10 (sp_start sp)).
Proof. exact alias_without_anchor_rejected. Qed.
Print Assumptions C06_alias_without_anchor_rejected.

Theorem C06_root_alias_without_anchor_rejected : forall p sp n r,
  (p_state p = SBlockNode \/ p_state p = SDocumentContent) ->
  toks_ahead p = (sp, TAlias n) :: r -> assoc n (p_anchors p) = None -> p_states p <> [] ->
  state_machine p = Parser.Err (PErr 10 (sp_start sp)).
Proof. exact root_alias_without_anchor_rejected. Qed.
Print Assumptions C06_root_alias_without_anchor_rejected.

(* every successful DocumentEnd step empties the anchor table (DocReset), so an alias at the start of the NEXT document
   -- behind "---" or, after "...", bare -- fails whatever the previous documents anchored *)
Theorem C06_alias_to_previous_document_rejected : forall p ev p',
  document_end p = Parser.Ok (ev, p') ->
  (forall sp0 sp n r, toks_ahead p' = (sp0, TDocumentStart) :: (sp, TAlias n) :: r ->
     exists ev2 p2, state_machine p' = Parser.Ok (ev2, p2) /\ state_machine p2 = Parser.Err (PErr 10 (sp_start sp)))
  /\ (forall sp n r, p_state p' = SImplicitDocumentStart -> toks_ahead p' = (sp, TAlias n) :: r ->
     exists ev2 p2, state_machine p' = Parser.Ok (ev2, p2) /\ state_machine p2 = Parser.Err (PErr 10 (sp_start sp))).
Proof. exact alias_to_previous_document_rejected. Qed.
Print Assumptions C06_alias_to_previous_document_rejected.

(* ================================================================================================ *)
(* R5: named tag handle that was never declared                                                        *)
(* ================================================================================================ *)
Theorem C06_undeclared_handle_rejected : forall p m h s,
  is_named_handle h = true -> h <> [bang; bang] -> assoc h (p_tags p) = None ->
  resolve_tag p m h s = Parser.Err (PErr 20 m).
Proof. exact undeclared_handle_rejected. Qed.
Print Assumptions C06_undeclared_handle_rejected.

Theorem C06_node_with_undeclared_handle_rejected : forall p sp h s r b i,
  toks_ahead p = (sp, TTag h s) :: r ->
  is_named_handle h = true -> h <> [bang; bang] -> assoc h (p_tags p) = None ->
  parse_node p b i = Parser.Err (PErr 20 (sp_start sp)).
Proof. exact node_with_undeclared_handle_rejected. Qed.
Print Assumptions C06_node_with_undeclared_handle_rejected.

Theorem C06_anchored_node_with_undeclared_handle_rejected : forall p sp0 a sp h s r b i,
  toks_ahead p = (sp0, TAnchor a) :: (sp, TTag h s) :: r ->
  is_named_handle h = true -> h <> [bang; bang] -> assoc h (p_tags p) = None ->
  parse_node p b i = Parser.Err (PErr 20 (sp_start sp0)).
Proof. exact anchored_node_with_undeclared_handle_rejected. Qed.
Print Assumptions C06_anchored_node_with_undeclared_handle_rejected.

(* ================================================================================================ *)
(* R6: repeated %YAML directive                                                                        *)
(* ================================================================================================ *)
Theorem C06_repeated_version_directive_rejected : forall fuel p sp1 a b sp2 c d r tags,
  toks_ahead p = (sp1, TVersionDirective a b) :: (sp2, TVersionDirective c d) :: r ->
  process_directives (S (S fuel)) p false tags = Parser.Err (PErr 2 (sp_start sp2)).
Proof. exact repeated_version_directive_rejected. Qed.
Print Assumptions C06_repeated_version_directive_rejected.

(* with any number of %TAG directives between the two (then the error may also be the duplicate-handle one, 21) *)
Theorem C06_version_seen_then_version_rejected : forall ds fuel p tags sp a b r,
  Forall (fun t => match snd t with TTagDirective _ _ => True | _ => False end) ds ->
  toks_ahead p = ds ++ (sp, TVersionDirective a b) :: r -> (length ds < fuel)%nat ->
  match process_directives fuel p true tags with
  | Parser.Err (PErr s m) => (s = 2%N /\ m = sp_start sp) \/ s = 21%N
  | _ => False
  end.
Proof. exact version_seen_then_version_rejected. Qed.
Print Assumptions C06_version_seen_then_version_rejected.

Theorem C06_document_with_two_versions_rejected : forall p sp1 a b sp2 c d r,
  (p_state p = SImplicitDocumentStart \/ p_state p = SDocumentStart) ->
  toks_ahead p = (sp1, TVersionDirective a b) :: (sp2, TVersionDirective c d) :: r ->
  state_machine p = Parser.Err (PErr 2 (sp_start sp2)).
Proof. exact document_with_two_versions_rejected. Qed.
Print Assumptions C06_document_with_two_versions_rejected.

(* ================================================================================================ *)
(* R7: directives that are not followed by "---"                                                      *)
(* ================================================================================================ *)
(* any run [ds] of directive tokens followed by a token that is neither a directive nor DocumentStart (content, "...",
   the end of the stream): site 3 at that token, unless a directive of the run is itself in error (2, 21) *)
Theorem C06_directives_without_document_start_rejected : forall p ds sp tk r,
  Forall (fun t => is_directive_tok (snd t) = true) ds ->
  is_directive_tok tk = false -> tk <> TDocumentStart ->
  toks_ahead p = ds ++ (sp, tk) :: r ->
  match explicit_document_start p with
  | Parser.Err (PErr s m) => (s = 3%N /\ m = sp_start sp) \/ s = 2%N \/ s = 21%N
  | _ => False
  end.
Proof. exact directives_without_document_start_rejected. Qed.
Print Assumptions C06_directives_without_document_start_rejected.

Theorem C06_directives_at_end_of_stream_rejected : forall p ds sp r,
  Forall (fun t => is_directive_tok (snd t) = true) ds ->
  toks_ahead p = ds ++ (sp, TStreamEnd) :: r ->
  match explicit_document_start p with
  | Parser.Err (PErr s m) => (s = 3%N /\ m = sp_start sp) \/ s = 2%N \/ s = 21%N
  | _ => False
  end.
Proof. exact directives_at_end_of_stream_rejected. Qed.
Print Assumptions C06_directives_at_end_of_stream_rejected.

(* and a document start that sees a directive does go through [explicit_document_start] *)
Theorem C06_document_start_with_directive : forall p sp tk r impl,
  is_directive_tok tk = true -> toks_ahead p = (sp, tk) :: r ->
  exists q, toks_ahead q = (sp, tk) :: r /\ document_start p impl = explicit_document_start q.
Proof. exact document_start_with_directive. Qed.
Print Assumptions C06_document_start_with_directive.

(* ================================================================================================ *)
(* S1: escapes in double-quoted scalars ([resolve_escape]: backslash at offset 0, escape character at 1) *)
(* ================================================================================================ *)
(* EVERY code point that is neither in the generated single-character escape table nor x / u / U *)
Theorem C06_unknown_escape_rejected : forall start (s : sc strin),
  let e := nth 1 (si_chars (sc_in s)) 0 in
  ~ In e (map fst escape_table) -> ~ In e (map fst code_length_table) ->
  resolve_escape str_ops start s = Err 31 start.
Proof. exact unknown_escape_rejected. Qed.
Print Assumptions C06_unknown_escape_rejected.

(* x / u / U with a non-hex character (or the end of the input: code point 0) among the 2 / 4 / 8 required digits *)
Theorem C06_hex_escape_bad_digit_rejected : forall start (s : sc strin) n,
  In (nth 1 (si_chars (sc_in s)) 0, n) code_length_table ->
  (exists j, (j < n)%nat /\ is_hex (nth (2 + j) (si_chars (sc_in s)) 0) = false) ->
  resolve_escape str_ops start s = Err 30 start.
Proof. exact hex_escape_bad_digit_rejected. Qed.
Print Assumptions C06_hex_escape_bad_digit_rejected.

(* all digits present, but the number is no Unicode scalar value (surrogate, above 10FFFF) *)
Theorem C06_hex_escape_non_scalar_rejected : forall start (s : sc strin) n,
  In (nth 1 (si_chars (sc_in s)) 0, n) code_length_table ->
  let ds := firstn n (skipn 2 (si_chars (sc_in s))) in
  length ds = n -> forallb is_hex ds = true -> is_scalar_value (hex_number ds) = false ->
  resolve_escape str_ops start s = Err 32 start.
Proof. exact hex_escape_non_scalar_rejected. Qed.
Print Assumptions C06_hex_escape_non_scalar_rejected.

(* ================================================================================================ *)
(* S2: implicit keys longer than SIMPLE_KEY_MAX characters or spanning lines (block context)           *)
(* ================================================================================================ *)
(* What the model (like the code) guarantees: a possible key candidate is STALE iff the scanner is in BLOCK context
   (flow level 0) and the candidate began on an earlier line or more than 1024 characters ago; a stale REQUIRED
   candidate is an error (site 44), all other stale candidates are invalidated, nothing else changes; in flow
   context nothing is ever invalidated (see the refutation below). *)
Theorem C06_key_longer_than_limit_is_stale : forall (s : sc strin) k,
  sk_possible k = true -> sc_flow_level s = 0 -> m_index (sk_mark k) + 1024 < m_index (sc_mark s) ->
  stale_key s k = true.
Proof. exact key_longer_than_limit_is_stale. Qed.
Print Assumptions C06_key_longer_than_limit_is_stale.

Theorem C06_key_on_earlier_line_is_stale : forall (s : sc strin) k,
  sk_possible k = true -> sc_flow_level s = 0 -> m_line (sk_mark k) < m_line (sc_mark s) ->
  stale_key s k = true.
Proof. exact key_on_earlier_line_is_stale. Qed.
Print Assumptions C06_key_on_earlier_line_is_stale.

Theorem C06_stale_required_key_rejected : forall (s : sc strin),
  (exists k, In k (sc_sks s) /\ stale_key s k = true /\ sk_required k = true) ->
  stale_simple_keys s = Err 44 (sc_mark s).
Proof. exact stale_required_key_rejected. Qed.
Print Assumptions C06_stale_required_key_rejected.

Theorem C06_stale_keys_invalidated : forall (s : sc strin),
  (forall k, In k (sc_sks s) -> stale_key s k = true -> sk_required k = false) ->
  exists s', stale_simple_keys s = Ok (tt, s')
    /\ sc_mark s' = sc_mark s /\ sc_tokens s' = sc_tokens s /\ sc_flow_level s' = sc_flow_level s
    /\ length (sc_sks s') = length (sc_sks s)
    /\ forall i k, nth_error (sc_sks s) i = Some k ->
         exists k', nth_error (sc_sks s') i = Some k'
           /\ (stale_key s k = true -> sk_possible k' = false)
           /\ (stale_key s k = false -> k' = k).
Proof. exact stale_keys_invalidated. Qed.
Print Assumptions C06_stale_keys_invalidated.

(* ... and what invalidation leads to at the ':' : no key candidate, no new key allowed here -> site 99
   ("mapping values are not allowed in this context") *)
Theorem C06_value_after_invalidated_key_rejected : forall F (s : sc strin) k r,
  sc_sks s = k :: r -> sk_possible k = false -> sc_flow_level s = 0 -> sc_ifms s = [] -> sc_ska s = false ->
  nth 0 (tl (si_chars (sc_in s))) 0 <> 9 ->
  fetch_value str_ops F s = Err 99 (sc_mark s).
Proof. exact value_after_invalidated_key_rejected. Qed.
Print Assumptions C06_value_after_invalidated_key_rejected.

(* ================================================================================================ *)
(* S3: flow nesting limit                                                                             *)
(* ================================================================================================ *)
Theorem C06_flow_level_limit_rejected : forall (s : sc strin),
  sc_flow_level s = FLOW_LEVEL_MAX -> increase_flow_level s = Err 45 (sc_mark s).
Proof. exact flow_level_limit_rejected. Qed.
Print Assumptions C06_flow_level_limit_rejected.

Theorem C06_flow_level_below_limit_increases : forall (s : sc strin),
  sc_flow_level s <> FLOW_LEVEL_MAX ->
  exists s', increase_flow_level s = Ok (tt, s') /\ sc_flow_level s' = sc_flow_level s + 1.
Proof. exact flow_level_below_limit_increases. Qed.
Print Assumptions C06_flow_level_below_limit_increases.

(* ================================================================================================ *)
(* The full property and its status                                                                    *)
(* ================================================================================================ *)
(* The full property as a closed statement: [damaged] (Proofs/RejectProofs.v) composes a renderer of well-formed one-line
   flow documents ([render_flow] on [wf_ok] trees: lower-case words, quoted words, sequences, mappings, empty explicit
   keys) with four damage operators (stray closer, dropped closer, swapped closer, second root node).  Every
   [damaged] text is ill-formed by construction.  NOT proved; refuted below ([C06_full_refuted]).  The general
   form, for any specification [ill_formed] of ill-formed character streams (the damage operators of
   vlib/p_c06.py composed with its generator), is [C06_full_for]. *)
Definition C06_full : Prop := forall s, damaged s -> snd (run_str s) <> PDone.

Definition C06_full_for (ill_formed : list N -> Prop) : Prop :=
  forall s, ill_formed s -> snd (run_str s) <> PDone.

Theorem C06_full_refuted : ~ C06_full.
Proof. exact C06_full_flow_fragment_refuted. Qed.
Print Assumptions C06_full_refuted.

(* four texts that are ill-formed by YAML 1.2.2 (productions quoted in known_findings_c06.jsonl) and accepted *)
Definition stray_closer_text : list N := [91;32;63;32;93;32;93].                               (* [ ? ] ]            *)
Definition long_flow_pair_key_text : list N := [91;32] ++ repeat 107 1025 ++ [58;32;118;32;93;10].  (* [ k^1025: v ]  *)
Definition flow_continuation_text : list N := [107;58;32;91;97;44;10;39;98;39;93;10].         (* k: [a,  NL 'b']   *)
Definition multiline_flow_pair_key_text : list N :=                                             (* - {} NL - [ DQ a NL b DQ: v ] *)
  [45;32;123;125;10;45;32;91;32;34;97;10;32;98;34;58;32;118;32;93;10].

Theorem C06_stray_closer_accepted : snd (run_str stray_closer_text) = PDone.
Proof. vm_compute. reflexivity. Qed.
Print Assumptions C06_stray_closer_accepted.

Theorem C06_long_flow_pair_key_accepted : snd (run_str long_flow_pair_key_text) = PDone.
Proof. vm_compute. reflexivity. Qed.
Print Assumptions C06_long_flow_pair_key_accepted.

Theorem C06_flow_continuation_at_block_indentation_accepted : snd (run_str flow_continuation_text) = PDone.
Proof. vm_compute. reflexivity. Qed.
Print Assumptions C06_flow_continuation_at_block_indentation_accepted.

Theorem C06_multiline_flow_pair_key_accepted : snd (run_str multiline_flow_pair_key_text) = PDone.
Proof. vm_compute. reflexivity. Qed.
Print Assumptions C06_multiline_flow_pair_key_accepted.

(* without the earlier flow mapping the very same pair is rejected (site 98): the acceptance is a stale-flag effect *)
Theorem C06_multiline_flow_pair_key_rejected_without_mapping :
  snd (run_str [45;32;91;32;34;97;10;32;98;34;58;32;118;32;93;10])
  = PScanErr 98 {| m_index := 10; m_line := 2; m_col := 3 |}.
Proof. vm_compute. reflexivity. Qed.
Print Assumptions C06_multiline_flow_pair_key_rejected_without_mapping.

Theorem C06_full_for_refuted : forall ill_formed,
  ill_formed stray_closer_text \/ ill_formed long_flow_pair_key_text
  \/ ill_formed flow_continuation_text \/ ill_formed multiline_flow_pair_key_text ->
  ~ C06_full_for ill_formed.
Proof.
  intros ill H HF. destruct H as [H|[H|[H|H]]]; apply (HF _ H).
  - exact C06_stray_closer_accepted.
  - exact C06_long_flow_pair_key_accepted.
  - exact C06_flow_continuation_at_block_indentation_accepted.
  - exact C06_multiline_flow_pair_key_accepted.
Qed.
Print Assumptions C06_full_for_refuted.

(* ================================================================================================ *)
(* Examples: one text per damage class through the whole model pipeline (scanner + parser); the verdict,  *)
(* site and position are the ones the implementation reports for the same text (correspondence run).   *)
(* ================================================================================================ *)
(* implementation: while scanning a quoted scalar, found unexpected end of stream *)
Example rejects_open_single_quote :
  snd (run_str [97;58;32;39;98;10])
  = PScanErr 71 {| m_index := 3; m_line := 1; m_col := 3 |}.
Proof. vm_compute. reflexivity. Qed.

(* implementation: while scanning a quoted scalar, found unexpected end of stream *)
Example rejects_open_double_quote_at_end :
  snd (run_str [45;32;34;97;98;99])
  = PScanErr 71 {| m_index := 2; m_line := 1; m_col := 2 |}.
Proof. vm_compute. reflexivity. Qed.

(* implementation: while parsing a flow sequence, expected ',' or ']' *)
Example rejects_open_flow_sequence :
  snd (run_str [91;97;44;32;98;10])
  = PParseErr 7 {| m_index := 6; m_line := 2; m_col := 0 |}.
Proof. vm_compute. reflexivity. Qed.

(* implementation: while parsing a node, did not find expected node content *)
Example rejects_open_flow_mapping :
  snd (run_str [107;58;32;123;97;58;32;49;44;10])
  = PParseErr 11 {| m_index := 10; m_line := 2; m_col := 0 |}.
Proof. vm_compute. reflexivity. Qed.

(* implementation: while parsing a flow sequence, expected ',' or ']' *)
Example rejects_mismatched_closer_seq :
  snd (run_str [91;97;44;32;98;125;10])
  = PParseErr 7 {| m_index := 5; m_line := 1; m_col := 5 |}.
Proof. vm_compute. reflexivity. Qed.

(* implementation: while parsing a flow mapping, did not find expected ',' or '}' *)
Example rejects_mismatched_closer_map :
  snd (run_str [123;97;58;32;49;93;10])
  = PParseErr 6 {| m_index := 5; m_line := 1; m_col := 5 |}.
Proof. vm_compute. reflexivity. Qed.

(* implementation: while parsing a block mapping, did not find expected key *)
Example rejects_stray_closer :
  snd (run_str [107;58;32;91;97;93;93;10])
  = PParseErr 5 {| m_index := 6; m_line := 1; m_col := 6 |}.
Proof. vm_compute. reflexivity. Qed.

(* implementation: tabs disallowed within this context (block indentation) *)
Example rejects_tab_indentation :
  snd (run_str [97;58;10;9;98;58;32;49;10])
  = PScanErr 41 {| m_index := 4; m_line := 2; m_col := 1 |}.
Proof. vm_compute. reflexivity. Qed.

(* implementation: while parsing a block mapping, did not find expected key *)
Example rejects_misindented_key :
  snd (run_str [97;58;10;32;32;98;58;32;39;120;39;10;32;99;58;32;49;10])
  = PParseErr 5 {| m_index := 13; m_line := 3; m_col := 1 |}.
Proof. vm_compute. reflexivity. Qed.

(* implementation: invalid indentation *)
Example rejects_flow_continuation_left_of_block :
  snd (run_str [107;58;10;32;32;106;58;32;91;97;44;10;32;98;93;10])
  = PScanErr 102 {| m_index := 13; m_line := 3; m_col := 1 |}.
Proof. vm_compute. reflexivity. Qed.

(* implementation: invalid indentation in flow construct *)
Example rejects_flow_continuation_plain_at_block :
  snd (run_str [107;58;32;91;97;44;10;98;93;10])
  = PScanErr 75 {| m_index := 7; m_line := 2; m_col := 0 |}.
Proof. vm_compute. reflexivity. Qed.

(* implementation: invalid trailing content after double-quoted scalar *)
Example rejects_multiline_quoted_key :
  snd (run_str [34;97;10;32;32;98;34;58;32;49;10])
  = PScanErr 74 {| m_index := 7; m_line := 2; m_col := 4 |}.
Proof. vm_compute. reflexivity. Qed.

(* implementation: illegal placement of ':' indicator *)
Example rejects_multiline_flow_pair_key :
  snd (run_str [91;32;34;97;10;32;98;34;58;32;118;32;93;10])
  = PScanErr 98 {| m_index := 8; m_line := 2; m_col := 3 |}.
Proof. vm_compute. reflexivity. Qed.

(* implementation: did not find expected <document start> *)
Example rejects_second_root_scalar :
  snd (run_str [39;97;39;10;39;98;39;10])
  = PParseErr 3 {| m_index := 4; m_line := 2; m_col := 0 |}.
Proof. vm_compute. reflexivity. Qed.

(* implementation: did not find expected <document start> *)
Example rejects_second_root_flow :
  snd (run_str [91;97;93;10;91;98;93;10])
  = PParseErr 3 {| m_index := 4; m_line := 2; m_col := 0 |}.
Proof. vm_compute. reflexivity. Qed.

(* implementation: mapping values are not allowed in this context *)
Example rejects_mapping_after_root_scalar :
  snd (run_str [97;10;98;58;32;49;10])
  = PScanErr 99 {| m_index := 3; m_line := 2; m_col := 1 |}.
Proof. vm_compute. reflexivity. Qed.

(* implementation: while parsing a quoted scalar, found unknown escape character *)
Example rejects_unknown_escape :
  snd (run_str [34;92;113;34;10])
  = PScanErr 31 {| m_index := 0; m_line := 1; m_col := 0 |}.
Proof. vm_compute. reflexivity. Qed.

(* implementation: while parsing a quoted scalar, did not find expected hexadecimal number *)
Example rejects_truncated_escape :
  snd (run_str [34;92;120;52;34;10])
  = PScanErr 30 {| m_index := 0; m_line := 1; m_col := 0 |}.
Proof. vm_compute. reflexivity. Qed.

(* implementation: while parsing a quoted scalar, found invalid Unicode character escape code *)
Example rejects_surrogate_escape :
  snd (run_str [34;92;117;68;56;48;48;34;10])
  = PScanErr 32 {| m_index := 0; m_line := 1; m_col := 0 |}.
Proof. vm_compute. reflexivity. Qed.

(* implementation: while parsing node, found unknown anchor *)
Example rejects_alias_without_anchor :
  snd (run_str [42;97;10])
  = PParseErr 10 {| m_index := 0; m_line := 1; m_col := 0 |}.
Proof. vm_compute. reflexivity. Qed.

(* implementation: while parsing node, found unknown anchor *)
Example rejects_alias_to_previous_document :
  snd (run_str [38;97;32;120;10;45;45;45;10;42;97;10])
  = PParseErr 10 {| m_index := 9; m_line := 3; m_col := 0 |}.
Proof. vm_compute. reflexivity. Qed.

(* implementation: while parsing node, found unknown anchor *)
Example rejects_alias_before_anchor :
  snd (run_str [45;32;42;97;10;45;32;38;97;32;120;10])
  = PParseErr 10 {| m_index := 2; m_line := 1; m_col := 2 |}.
Proof. vm_compute. reflexivity. Qed.

(* implementation: the handle wasn't declared *)
Example rejects_undeclared_handle :
  snd (run_str [33;117;33;120;32;97;10])
  = PParseErr 20 {| m_index := 0; m_line := 1; m_col := 0 |}.
Proof. vm_compute. reflexivity. Qed.

(* implementation: the handle wasn't declared *)
Example rejects_handle_of_previous_document :
  snd (run_str [37;84;65;71;32;33;101;33;32;116;97;103;58;101;44;10;45;45;45;32;33;101;33;120;32;97;10;46;46;46;10;45;45;45;32;33;101;33;120;32;98;10])
  = PParseErr 20 {| m_index := 35; m_line := 4; m_col := 4 |}.
Proof. vm_compute. reflexivity. Qed.

(* implementation: duplicate version directive *)
Example rejects_repeated_yaml_directive :
  snd (run_str [37;89;65;77;76;32;49;46;50;10;37;89;65;77;76;32;49;46;50;10;45;45;45;32;97;10])
  = PParseErr 2 {| m_index := 10; m_line := 2; m_col := 0 |}.
Proof. vm_compute. reflexivity. Qed.

(* implementation: did not find expected <document start> *)
Example rejects_directive_at_end_of_stream :
  snd (run_str [97;10;46;46;46;10;37;89;65;77;76;32;49;46;50;10])
  = PParseErr 3 {| m_index := 16; m_line := 4; m_col := 0 |}.
Proof. vm_compute. reflexivity. Qed.

(* implementation: missing explicit document end marker before directive *)
Example rejects_directive_without_document_end :
  snd (run_str [39;97;39;10;37;89;65;77;76;32;49;46;50;10;45;45;45;32;98;10])
  = PParseErr 4 {| m_index := 4; m_line := 2; m_col := 0 |}.
Proof. vm_compute. reflexivity. Qed.

(* implementation: did not find expected <document start> *)
Example rejects_directive_then_content :
  snd (run_str [37;89;65;77;76;32;49;46;50;10;107;58;32;118;10])
  = PParseErr 3 {| m_index := 10; m_line := 2; m_col := 0 |}.
Proof. vm_compute. reflexivity. Qed.

(* implementation: invalid content after document end marker *)
Example rejects_content_after_document_end :
  snd (run_str [97;10;46;46;46;32;98;10])
  = PScanErr 101 {| m_index := 6; m_line := 2; m_col := 4 |}.
Proof. vm_compute. reflexivity. Qed.
