(* C02 — Events always form a well-nested YAML event sentence.
   Only statements, each closed by [exact] of a lemma proved elsewhere, with Print Assumptions. *)
From Coq Require Import List NArith Bool.
Import ListNotations.
Require Import Parser SBase SFetch Pipe Grammar C02base C02tail C02run C02anchors C02anchorsRun ParseNode ParseNodeTie SBuf C02text.

(* One step of the pull parser, from any state satisfying the stack/grammar invariant and for any
   remaining token stream: it never panics, the event it yields is accepted by the grammar acceptor,
   and the invariant holds again. *)
Theorem C02_step : forall p g, Inv p g -> p_state p <> SEnd -> post g (state_machine p).
Proof. exact state_machine_post. Qed.
Print Assumptions C02_step.

(* Whole runs, for EVERY token list (not only scanner outputs), every scanner ending, any fuel:
   the events delivered are accepted by the acceptor (a sentence prefix); a run that ends without
   error ends in the accepting state (a whole sentence); the parser itself never panics. *)
Theorem C02_run : forall toks keep se fuel,
  let r := parse_all fuel (init_parser toks keep) se [] in
  (exists g, grun GInit (evs_of (fst r)) = Some g /\ (snd r = PDone -> g = GEnd))
  /\ end_ok se (snd r).
Proof. exact parser_run_wellformed. Qed.
Print Assumptions C02_run.

(* Anchor ids: in every run, for every token list, the ids carried by scalar / sequence-start / mapping-start
   events are 1, 2, 3, ... in order of appearance (so positive and never shared by two nodes), and every alias
   carries an id that was handed out earlier in the stream ([arun] is the executable check of exactly that). *)
Theorem C02_anchor_ids : forall toks keep se fuel,
  exists n, arun 0 (evs_of (fst (parse_all fuel (init_parser toks keep) se []))) = Some n.
Proof. exact parser_run_anchors. Qed.
Print Assumptions C02_anchor_ids.

Example C02_arun_rejects_reuse : arun 0 [EScalar [] Plain 1 None; EScalar [] Plain 1 None] = None.
Proof. reflexivity. Qed.
Example C02_arun_rejects_forward_alias : arun 0 [EAlias 1; EScalar [] Plain 1 None] = None.
Proof. reflexivity. Qed.

(* TIE BY TRANSLATION.  The node dispatcher of the model is the one of the source: Gen/ParseNode.v is regenerated on
   every run from the node-content `match` of Parser::parse_node (token kind, guard -> event kind, next state), and for
   every parser state and token the model's node_content does exactly what that table says.  An edit of an arm of the
   Rust match (pattern, guard, event or follow-up state) changes the generated table and breaks this obligation. *)
Theorem C02_node_dispatcher_is_source : forall (p : parser) (aid : N) (tg : option tag) (block indentless : bool),
  node_content p aid tg block indentless =
  (do (t, p') <- peek p;
   run_nact (node_dispatch (kind_of (snd t)) block indentless (has_props aid tg)) p' (fst t) (snd t) aid tg).
Proof. exact tbl_node_content. Qed.
Print Assumptions C02_node_dispatcher_is_source.

(* TEXT LEVEL.  For EVERY text the events of the whole model pipeline form a sentence prefix accepted by the acceptor - a whole
   sentence (GEnd) when the run ends without error - and their anchor ids are 1, 2, 3, ... with every alias pointing back;
   over the string input and over the buffered input of every capacity >= 8 (C10: run_buf cap x = run_str x). *)
Theorem C02_text_run : forall (x : list N),
  (exists g, grun GInit (evs_of (fst (run_str x))) = Some g /\ (snd (run_str x) = PDone -> g = GEnd))
  /\ (exists n, arun 0 (evs_of (fst (run_str x))) = Some n).
Proof. exact text_run_wellformed. Qed.
Print Assumptions C02_text_run.

Theorem C02_text_run_buffered : forall (cap : nat) (x : list N), (8 <= cap)%nat ->
  (exists g, grun GInit (evs_of (fst (run_buf cap x))) = Some g /\ (snd (run_buf cap x) = PDone -> g = GEnd))
  /\ (exists n, arun 0 (evs_of (fst (run_buf cap x))) = Some n).
Proof. exact text_run_wellformed_buffered. Qed.
Print Assumptions C02_text_run_buffered.
