(* C11 — Nesting depth cannot crash the process.

   Full statement (NOT expressible over the model: bytes of stack per activation and the 8 MiB limit of a
   thread are run-time facts of the compiled code; they are measured by the child-process sweep of
   vlib/p_c11.py, which observes the exit status of one process per scenario):

     Definition C11_full : Prop :=
       forall (shape : {"- ", "k:", "? ", "[", "{a:", alternating}) (depth : 1 .. 10^5)
              (api : {iterator, Parser::load, Yaml::load_from_str + drop, YamlEmitter::dump}),
         outcome (run api (input shape depth)) = Success \/ exists e, outcome (...) = ErrorValue e
       /\ exists B, forall input, stack_bytes (run api input) <= B.        -- B independent of the depth

   What IS proved here, for all inputs, is the part a model can carry — every theorem is named [_partial]:
   recursion depth and heap-stack length as functions of the nesting depth, the flow-depth limit, and the
   REFUTATION of any bound on block nesting in the current code ([_refuted]).  Together with the measured
   frame sizes this explains the recorded finding (known_findings_c11.jsonl): the three recursive consumers
   recurse once per nesting level and nothing limits block nesting.

   Model: Model/Parser.v (pull parser), Model/Depth.v (push loader load_node/load_sequence/load_mapping,
   structural tree traversal, witness family), Model/Loader.v (tree), Model/SPrim.v (increase_flow_level),
   Gen/Consts.v (FLOW_LEVEL_MAX, generated from the declared type of Scanner::flow_level).
   Only statements, each closed by [exact] of a lemma of Proofs/DepthProofs.v. *)
From Coq Require Import List NArith Bool.
Import ListNotations.
Require Import Parser SFetch Pipe Drivers Grammar Resolver Loader C02run Depth DepthProofs.
Require SBase SPrim Consts.
Local Open Scope nat_scope.

(* (a) The pull parser (iterator API) is not recursive: [state_machine] is a non-recursive definition whose
   continuation is the heap stack [p_states].  For EVERY token list and every state reachable from the
   initial one: the heap stack holds at most one entry per collection currently open in the events
   delivered so far, plus one for the document — and it really is the nesting that it stores: at least
   (open - 2) / 2 entries.  Depth costs heap, not call stack. *)
Theorem C11_pull_parser_heap_stack_partial : forall toks keep p evs,
  reach (init_parser toks keep) p evs ->
  length (p_states p) <= open_depth evs + 1 /\ open_depth evs <= 2 * length (p_states p) + 2.
Proof. exact pull_stack_bounded_by_open_depth. Qed.
Print Assumptions C11_pull_parser_heap_stack_partial.

(* (b1) The push interface Parser::load (load_node -> load_sequence / load_mapping -> load_node): whenever
   load_node returns — any fuel, any event list — it has consumed a well-nested prefix, and the deepest chain
   of live load_node activations was its entry depth plus the nesting depth of that prefix: one activation
   (of load_node and of load_sequence / load_mapping) per nesting level. *)
Theorem C11_push_loader_recursion_partial : forall fuel d evs r m,
  pl_node fuel d evs = PlDone r m ->
  exists used, evs = used ++ r /\ open_depth used = 0 /\ m = d + max_nesting used.
Proof. exact push_loader_recursion_depth. Qed.
Print Assumptions C11_push_loader_recursion_partial.

(* (b2) Any traversal of the loaded tree that visits children through a recursive call — the derived
   Drop / Clone / PartialEq / Hash of saphyr::Yaml, YamlEmitter::emit_node — reaches a recursion depth of
   exactly its entry depth plus the depth of the tree. *)
Theorem C11_tree_recursion_partial : forall y d, ywalk d y = d + ydepth y.
Proof. exact walk_depth_is_tree_depth. Qed.
Print Assumptions C11_tree_recursion_partial.

(* (c) Flow nesting is limited: the only function of the scanner model that raises flow_level is
   increase_flow_level; from a level within the limit it either succeeds with a level still within the
   limit, or — exactly at FLOW_LEVEL_MAX — fails with error site 45 ("recursion limit exceeded").  Hence
   flow collections nest at most FLOW_LEVEL_MAX = 255 deep and deeper input is an error VALUE. *)
Theorem C11_flow_level_bounded_partial : forall (I : Type) (s : SBase.sc I),
  (SBase.sc_flow_level s <= Consts.FLOW_LEVEL_MAX)%N ->
  match SPrim.increase_flow_level s with
  | SBase.Ok (_, s') =>
      (SBase.sc_flow_level s < Consts.FLOW_LEVEL_MAX)%N /\
      SBase.sc_flow_level s' = (SBase.sc_flow_level s + 1)%N /\
      (SBase.sc_flow_level s' <= Consts.FLOW_LEVEL_MAX)%N
  | SBase.Err site m => site = 45%N /\ m = SBase.sc_mark s /\ SBase.sc_flow_level s = Consts.FLOW_LEVEL_MAX
  | _ => False
  end.
Proof. exact (@increase_flow_level_spec). Qed.
Print Assumptions C11_flow_level_bounded_partial.

Theorem C11_flow_level_limit_is_an_error_partial : forall (I : Type) (s : SBase.sc I),
  SBase.sc_flow_level s = Consts.FLOW_LEVEL_MAX ->
  SPrim.increase_flow_level s = SBase.Err 45 (SBase.sc_mark s).
Proof. exact (@increase_flow_level_at_limit). Qed.
Print Assumptions C11_flow_level_limit_is_an_error_partial.

(* (d) Block nesting is NOT limited.  For every d the token stream
         StreamStart (BlockSequenceStart BlockEntry)^d Scalar BlockEnd^d StreamEnd
   — what the scanner delivers for the 2d+1 bytes  "- " * d ++ "a"  (compared with the real scanner on every
   run of the check) — has 3d+3 tokens, is accepted by the parser model, and its events nest d deep. *)
Theorem C11_block_family_accepted : forall d keep se,
  length (seq_tokens_flat d) = 3 * d + 3
  /\ parse_tokens (seq_tokens_flat d) se keep = (evsp (seq_events d), PDone)
  /\ max_nesting (seq_events d) = d.
Proof. exact block_family_accepted. Qed.
Print Assumptions C11_block_family_accepted.

(* so "the parser accepts nothing nested deeper than B" is false for every B *)
Theorem C11_block_unbounded_refuted : forall B, ~ block_nesting_bounded B.
Proof. exact block_nesting_unbounded. Qed.
Print Assumptions C11_block_unbounded_refuted.

(* ... and therefore no bound exists for the recursion of the push loader, nor for the depth of the tree
   the loader builds (hence for drop / clone / eq / hash / emit): for every B there is an accepted input on
   which load_document nests more than B activations and whose loaded tree is walked deeper than B. *)
Theorem C11_recursion_unbounded_refuted :
  forall B, exists toks evs fuel rest m y,
    parse_tokens toks SEnded false = (evsp evs, PDone)
    /\ pl_document fuel (tl evs) = PlDone rest m /\ B < m
    /\ load_events evs l0 = LOk {| l_docs := [y]; l_stack := []; l_keys := []; l_anchors := [] |}
    /\ B < ywalk 1 y.
Proof. exact recursion_unbounded. Qed.
Print Assumptions C11_recursion_unbounded_refuted.

(* (e) The flow limit can be BYPASSED (second recorded finding).  For every d >= 1 the token stream of
         "[ ? ] , " * (d-1) ++ "[ ? ] " ++ "]" * d
   — 5d+1 tokens; the scanner's flow level along it (+1 at a flow collection start, -1 at a flow collection
   end) never exceeds 1, so increase_flow_level never fails — is accepted by the parser model and its events
   nest d+1 deep: flow_sequence_entry_mapping_key consumes the "]" that ends the empty key "?", the parser
   stays inside the sequence and the next "[" opens a sequence INSIDE it. *)
Theorem C11_flow_limit_bypass_family : forall d keep se,
  1 <= d ->
  length (qflow_tokens d) = 5 * d + 1
  /\ tok_flow_max (qflow_tokens d) = 1
  /\ parse_tokens (qflow_tokens d) se keep = (evsp (qflow_events d), PDone)
  /\ max_nesting (qflow_events d) = d + 1.
Proof. exact flow_limit_bypass. Qed.
Print Assumptions C11_flow_limit_bypass_family.

(* so "a token stream whose flow level stays within L is nested at most L+1 deep" is false for every L >= 1,
   in particular for L = FLOW_LEVEL_MAX: theorem (c) does not bound the nesting of flow collections *)
Theorem C11_flow_limit_bounds_nesting_refuted : forall L, 1 <= L -> ~ flow_limit_bounds_nesting L.
Proof. exact flow_limit_does_not_bound_nesting. Qed.
Print Assumptions C11_flow_limit_bounds_nesting_refuted.

(* ---- non-vacuity / anchoring examples ---- *)
(* the limit the theorems speak about is the one of the code: u8 *)
Example C11_flow_limit_is_255 : Consts.FLOW_LEVEL_MAX = 255%N.
Proof. reflexivity. Qed.
(* the witness family, concretely: "- - a" *)
Example C11_family_2 :
  map snd (seq_tokens_flat 2)
  = [TStreamStart; TBlockSequenceStart; TBlockEntry; TBlockSequenceStart; TBlockEntry; TScalar Plain [97%N];
     TBlockEnd; TBlockEnd; TStreamEnd].
Proof. reflexivity. Qed.
Example C11_family_2_events :
  evs_of (fst (parse_tokens (seq_tokens_flat 2) SEnded false))
  = [EStreamStart; EDocumentStart false; ESequenceStart 0%N None; ESequenceStart 0%N None;
     EScalar [97%N] Plain 0%N None; ESequenceEnd; ESequenceEnd; EDocumentEnd; EStreamEnd].
Proof. vm_compute. reflexivity. Qed.
(* the hypothesis of (a) is satisfiable beyond the initial state *)
Example C11_reach_nonempty :
  exists p, reach (init_parser (seq_tokens_flat 1) false) p [EStreamStart; EDocumentStart false; ESequenceStart 0%N None]
            /\ length (p_states p) = 1.
Proof.
  destruct (run_steps 3 (init_parser (seq_tokens_flat 1) false) []) as [[p evs]|] eqn:E; vm_compute in E; [|discriminate].
  inversion E; subst. eexists. split.
  - eapply (run_steps_reach _ 3); [apply reach_init|]. vm_compute. reflexivity.
  - reflexivity.
Qed.
(* the push loader model does succeed on well-formed events, and does fail on others *)
Example C11_push_loader_runs :
  pl_document 20 [EDocumentStart false; EMappingStart 0%N None; EScalar [97%N] Plain 0%N None;
                  ESequenceStart 0%N None; ESequenceEnd; EMappingEnd; EDocumentEnd]
  = PlDone [] 2.
Proof. reflexivity. Qed.
Example C11_push_loader_rejects : pl_node 20 1 [ESequenceStart 0%N None; EMappingEnd] = PlUnreachable.
Proof. reflexivity. Qed.
(* depth measures are not constant *)
Example C11_depth_measures :
  max_nesting (seq_events 3) = 3 /\ ydepth (YSeq [YMap [(YBad, YSeq [YBad])]]) = 3 /\ ydepth (YSeq []) = 0.
Proof. repeat split; reflexivity. Qed.
(* the bypass family, concretely (d = 3): the text, what the SCANNER MODEL makes of it, its flow level, and the
   three nested sequences the parser model delivers *)
Example C11_bypass_3_text :      (* the code points of  [ ? ] , [ ? ] , [ ? ] ]]]  *)
  qflow_text 3 = [91; 32; 63; 32; 93; 32; 44; 32; 91; 32; 63; 32; 93; 32; 44; 32; 91; 32; 63; 32; 93; 32; 93; 93; 93]%N.
Proof. reflexivity. Qed.
Example C11_bypass_3_scanned :
  map snd (fst (scan_str (qflow_text 3))) = map snd (qflow_tokens 3) /\ snd (scan_str (qflow_text 3)) = SEnded.
Proof. vm_compute. split; reflexivity. Qed.
Example C11_bypass_3_flow_level : tok_flow_max (qflow_tokens 3) = 1.
Proof. reflexivity. Qed.
Example C11_bypass_3_events :
  evs_of (fst (parse_tokens (qflow_tokens 3) SEnded false))
  = [EStreamStart; EDocumentStart false;
     ESequenceStart 0%N None; EMappingStart 0%N None; null_ev; null_ev; EMappingEnd;
       ESequenceStart 0%N None; EMappingStart 0%N None; null_ev; null_ev; EMappingEnd;
         ESequenceStart 0%N None; EMappingStart 0%N None; null_ev; null_ev; EMappingEnd;
         ESequenceEnd;
       ESequenceEnd;
     ESequenceEnd; EDocumentEnd; EStreamEnd]
  /\ snd (parse_tokens (qflow_tokens 3) SEnded false) = PDone
  /\ max_nesting (evs_of (fst (parse_tokens (qflow_tokens 3) SEnded false))) = 4.
Proof. vm_compute. repeat split; reflexivity. Qed.
(* beyond the limit of the code: 300 nested sequences at flow level 1 *)
Example C11_bypass_300 :
  tok_flow_max (qflow_tokens 300) = 1
  /\ snd (parse_tokens (qflow_tokens 300) SEnded false) = PDone
  /\ N.to_nat Consts.FLOW_LEVEL_MAX < max_nesting (evs_of (fst (parse_tokens (qflow_tokens 300) SEnded false))).
Proof. vm_compute. repeat split; apply PeanoNat.Nat.leb_le; vm_compute; reflexivity. Qed.
