(* C11 — Nesting depth cannot crash the process.

   Full statement (NOT expressible over the model: bytes of stack per activation and the 8 MiB limit of a
   thread are run-time facts of the compiled code; they are measured by the child-process sweep of
   vlib/p_c11.py, which observes the exit status of one process per scenario):

     Definition C11_full : Prop :=
       forall (shape : {"- ", "k:", "? ", "[", "{a:", alternating}) (depth : 1 .. 10^5)
              (api : {iterator, Parser::load, Yaml::load_from_str + drop, YamlEmitter::dump}),
         outcome (run api (input shape depth)) = Success \/ exists e, outcome (...) = ErrorValue e
       /\ exists B, forall input, stack_bytes (run api input) <= B.        -- B independent of the depth

   What IS proved here, for all inputs, is the part a model can carry — positive statements are named [_partial]:
   (a) the pull parser keeps its continuation on the heap; (b) recursion depth of the push loader and of tree
   traversals = nesting depth; (c) the scanner's flow-level limit; (g) for EVERY token stream the parser nests at
   most twice as deep as the tokens; (h) for EVERY input the flow level of the scanned token stream is within the
   limit; (i) both composed: for EVERY text the nesting is at most 2 * (255 + block collection starts + synthetic
   FlowMappingStart tokens), so the recursion of (b) is bounded by that; (j) the same as an executable oracle.
   And the REFUTATION of any bound in the current code ([_refuted]): (d) block nesting, (e) the remaining flow-limit
   bypass — exactly the two kinds of token (i) charges.  (f): the bypass repaired by c5ad60c is rejected.
   Together with the measured frame sizes this explains the recorded findings (known_findings_c11.jsonl): the three
   recursive consumers recurse once per nesting level, nothing limits block nesting and the flow limit does not see
   the mappings of bare ':' indicators.

   Model: Model/Parser.v (pull parser), Model/SBase/SPrim/SDir/SScalar/SFetch.v (scanner), Model/Depth.v (push loader
   load_node/load_sequence/load_mapping, structural tree traversal, token nesting, flow level of a token stream,
   witness families, oracle), Model/Loader.v (tree), Gen/Consts.v (FLOW_LEVEL_MAX, generated from the declared type
   of Scanner::flow_level).  Proofs: Proofs/DepthProofs.v (a)-(f), DepthTok.v + DepthTokRun.v (g), DepthScan.v (h),
   DepthText.v (i), (j).  Only statements here, each closed by [exact] of a lemma. *)
From Coq Require Import List NArith Bool.
Import ListNotations.
Require Import Parser SFetch Pipe Drivers Grammar Resolver Loader C02run Depth DepthProofs DepthTok DepthTokRun DepthScan DepthTree DepthText.
Require SBase SPrim SBuf Consts.
Local Open Scope nat_scope.

(* (a) The pull parser (iterator API) is not recursive: [state_machine] is a non-recursive definition whose
   continuation is the heap stack [p_states].  For EVERY token list and every state reachable from the
   initial one: the heap stack holds at most one entry per collection currently open in the events
   delivered so far, plus one for the document — and it really is the nesting that it stores: at least
   (open - 2) / 2 entries.  Depth costs heap, not call stack. *)
Theorem C11_pull_parser_heap_stack_partial : forall toks keep p evs,
  reach (init_parser toks keep) p evs ->
  length (p_states p) <= open_depth evs + 1 /\ open_depth evs <= 2 * length (p_states p) + 2.
Proof. exact pull_stack_bounded_by_open_depth. Qed.
Print Assumptions C11_pull_parser_heap_stack_partial.

(* (b1) The push interface Parser::load (load_node -> load_sequence / load_mapping -> load_node): whenever
   load_node returns — any fuel, any event list — it has consumed a well-nested prefix, and the deepest chain
   of live load_node activations was its entry depth plus the nesting depth of that prefix: one activation
   (of load_node and of load_sequence / load_mapping) per nesting level. *)
Theorem C11_push_loader_recursion_partial : forall fuel d evs r m,
  pl_node fuel d evs = PlDone r m ->
  exists used, evs = used ++ r /\ open_depth used = 0 /\ m = d + max_nesting used.
Proof. exact push_loader_recursion_depth. Qed.
Print Assumptions C11_push_loader_recursion_partial.

(* (b2) Any traversal of the loaded tree that visits children through a recursive call — the derived
   Drop / Clone / PartialEq / Hash of saphyr::Yaml, YamlEmitter::emit_node — reaches a recursion depth of
   exactly its entry depth plus the depth of the tree. *)
Theorem C11_tree_recursion_partial : forall y d, ywalk d y = d + ydepth y.
Proof. exact walk_depth_is_tree_depth. Qed.
Print Assumptions C11_tree_recursion_partial.

(* (c) Flow nesting is limited: the only function of the scanner model that raises flow_level is
   increase_flow_level; from a level within the limit it either succeeds with a level still within the
   limit, or — exactly at FLOW_LEVEL_MAX — fails with error site 45 ("recursion limit exceeded"): the 256th nested
   '[' or '{' is an error VALUE.  (What this does and does not bound: (e), (h), (i).) *)
Theorem C11_flow_level_bounded_partial : forall (I : Type) (s : SBase.sc I),
  (SBase.sc_flow_level s <= Consts.FLOW_LEVEL_MAX)%N ->
  match SPrim.increase_flow_level s with
  | SBase.Ok (_, s') =>
      (SBase.sc_flow_level s < Consts.FLOW_LEVEL_MAX)%N /\
      SBase.sc_flow_level s' = (SBase.sc_flow_level s + 1)%N /\
      (SBase.sc_flow_level s' <= Consts.FLOW_LEVEL_MAX)%N
  | SBase.Err site m => site = 45%N /\ m = SBase.sc_mark s /\ SBase.sc_flow_level s = Consts.FLOW_LEVEL_MAX
  | _ => False
  end.
Proof. exact (@increase_flow_level_spec). Qed.
Print Assumptions C11_flow_level_bounded_partial.

Theorem C11_flow_level_limit_is_an_error_partial : forall (I : Type) (s : SBase.sc I),
  SBase.sc_flow_level s = Consts.FLOW_LEVEL_MAX ->
  SPrim.increase_flow_level s = SBase.Err 45 (SBase.sc_mark s).
Proof. exact (@increase_flow_level_at_limit). Qed.
Print Assumptions C11_flow_level_limit_is_an_error_partial.

(* (d) Block nesting is NOT limited.  For every d the token stream
         StreamStart (BlockSequenceStart BlockEntry)^d Scalar BlockEnd^d StreamEnd
   — what the scanner delivers for the 2d+1 bytes  "- " * d ++ "a"  (compared with the real scanner on every
   run of the check) — has 3d+3 tokens, is accepted by the parser model, and its events nest d deep. *)
Theorem C11_block_family_accepted : forall d keep se,
  length (seq_tokens_flat d) = 3 * d + 3
  /\ parse_tokens (seq_tokens_flat d) se keep = (evsp (seq_events d), PDone)
  /\ max_nesting (seq_events d) = d.
Proof. exact block_family_accepted. Qed.
Print Assumptions C11_block_family_accepted.

(* so "the parser accepts nothing nested deeper than B" is false for every B *)
Theorem C11_block_unbounded_refuted : forall B, ~ block_nesting_bounded B.
Proof. exact block_nesting_unbounded. Qed.
Print Assumptions C11_block_unbounded_refuted.

(* ... and therefore no bound exists for the recursion of the push loader, nor for the depth of the tree
   the loader builds (hence for drop / clone / eq / hash / emit): for every B there is an accepted input on
   which load_document nests more than B activations and whose loaded tree is walked deeper than B. *)
Theorem C11_recursion_unbounded_refuted :
  forall B, exists toks evs fuel rest m y,
    parse_tokens toks SEnded false = (evsp evs, PDone)
    /\ pl_document fuel (tl evs) = PlDone rest m /\ B < m
    /\ load_events evs l0 = LOk {| l_docs := [y]; l_stack := []; l_keys := []; l_anchors := [] |}
    /\ B < ywalk 1 y.
Proof. exact recursion_unbounded. Qed.
Print Assumptions C11_recursion_unbounded_refuted.

(* (e) The flow limit can still be BYPASSED (recorded finding, class C11-flow-limit-bypass).  For every d >= 1 the
   token stream of
         "[" ++ " :" * d ++ " " ++ "}" * d ++ "]"
   — 3d+4 tokens: the else-branch of fetch_value pushes one SYNTHETIC (empty-span) FlowMappingStart per bare ':'
   without touching flow_level, so the scanner's flow level along the stream ([tok_flow_max]: +1 at a '[' or '{'
   token, -1 at a flow collection end) never exceeds 1 and increase_flow_level never fails — is ACCEPTED by the
   parser model and its events nest d+1 deep (the sequence and d mappings). *)
Theorem C11_flow_limit_bypass_family : forall d keep se,
  1 <= d ->
  length (cflow_tokens d) = 3 * d + 4
  /\ tok_flow_max (cflow_tokens d) = 1
  /\ parse_tokens (cflow_tokens d) se keep = (evsp (cflow_events d), PDone)
  /\ max_nesting (cflow_events d) = d + 1.
Proof. exact flow_limit_bypass. Qed.
Print Assumptions C11_flow_limit_bypass_family.

(* so "a token stream whose flow level stays within L is nested at most L+1 deep" is false for every L >= 1,
   in particular for L = FLOW_LEVEL_MAX: theorem (c) alone does not bound the nesting of flow collections *)
Theorem C11_flow_limit_bounds_nesting_refuted : forall L, 1 <= L -> ~ flow_limit_bounds_nesting L.
Proof. exact flow_limit_does_not_bound_nesting. Qed.
Print Assumptions C11_flow_limit_bounds_nesting_refuted.

(* (f) The FIRST bypass family is gone (repaired by c5ad60c; was theorem C11_flow_limit_bypass_family before).  For
   every d >= 1 the token stream of
         "[ ? ] , " * (d-1) ++ "[ ? ] " ++ "]" * d
   — 5d+1 tokens, flow level 1 — is REJECTED by the parser model: flow_sequence_entry_mapping_key no longer consumes
   the "]" that ends the empty key, the first "[ ? ]" is a complete document (nine events, nesting 2) and the "," or
   "]" behind it is parse error site 3 ("did not find expected <document start>"): an error VALUE at every depth. *)
Theorem C11_qflow_family_rejected : forall d keep se,
  1 <= d ->
  length (qflow_tokens d) = 5 * d + 1
  /\ tok_flow_max (qflow_tokens d) = 1
  /\ parse_tokens (qflow_tokens d) se keep = (evsp qflow_prefix_events, PParseErr 3 mk00)
  /\ max_nesting qflow_prefix_events = 2.
Proof. exact qflow_rejected. Qed.
Print Assumptions C11_qflow_family_rejected.

(* (g) What IS bounded, for EVERY token stream (accepted or not, any fuel): the pull parser opens a collection only for a
   collection-start token (BlockSequenceStart, BlockMappingStart, FlowSequenceStart, FlowMappingStart — synthetic or not)
   plus at most one "free" collection directly inside it (the indentless sequence of a block mapping, the single-pair
   mapping of a flow sequence entry), and it consumes a collection-end token (BlockEnd, FlowSequenceEnd,
   FlowMappingEnd) only by closing the collection it ends.  So in every reachable state the collections open in the
   events delivered so far number at most twice the nesting of the token stream ([tok_nest_max]: +1 at a start token,
   -1 at an end token).  This is the statement the repaired defect (family (f): a FlowSequenceEnd consumed without
   closing anything) violated; the factor 2 is reached ("[ ? [ ? [ ? a ] ] ]", example below). *)
Theorem C11_open_collections_bounded_by_token_nesting_partial : forall toks keep p evs,
  reach (init_parser toks keep) p evs -> open_depth evs <= 2 * tok_nest_max toks.
Proof. exact open_depth_bounded_by_token_nesting. Qed.
Print Assumptions C11_open_collections_bounded_by_token_nesting_partial.

(* ... hence the nesting depth of the events of a whole run — which is the recursion depth of Parser::load, of the
   destructor and of the emitter by (b1), (b2) — is at most twice the nesting of the tokens *)
Theorem C11_nesting_bounded_by_token_nesting_partial : forall toks keep se fuel,
  max_nesting (evs_of (fst (parse_all fuel (init_parser toks keep) se []))) <= 2 * tok_nest_max toks.
Proof. exact nesting_bounded_by_token_nesting. Qed.
Print Assumptions C11_nesting_bounded_by_token_nesting_partial.

(* (h) The scanner, for EVERY input (any Input back-end [ops], any fuel), however the scan ends: along the token stream
   it delivers, the '[' / '{' tokens not yet matched by a ']' / '}' token never outnumber flow_level, and flow_level
   never exceeds FLOW_LEVEL_MAX (invariant [G] of Proofs/DepthScan.v, over every function of the scanner model).
   "Flow nesting is bounded" as a statement about text: [tok_flow_max] of what the scanner makes of it is <= 255. *)
Theorem C11_scanner_flow_level_bounded_partial : forall (I : Type) (ops : SBase.InputOps I) (F fuel : nat) (i : I),
  tok_flow_max (fst (scan_all ops F fuel (SBase.init_sc i) [])) <= N.to_nat Consts.FLOW_LEVEL_MAX.
Proof. exact (@scan_flow_level_bounded). Qed.
Print Assumptions C11_scanner_flow_level_bounded_partial.

(* ... and the '[' / '{' tokens ARE counted by [tok_flow_max]: whenever fetch_flow_collection_start returns, it has
   pushed (last in the queue) a token of the indicator's kind whose span is not empty — so [real_flow_open] holds for
   it — and has raised flow_level by one.  (The synthetic FlowMappingStart of fetch_value has an empty span by
   construction: span_empty.) *)
Theorem C11_flow_indicator_tokens_are_counted_partial :
  forall (I : Type) (ops : SBase.InputOps I) (F : nat) (seq : bool) (s : SBase.sc I) u s',
  fetch_flow_collection_start ops F seq s = SBase.Ok (u, s') ->
  exists mid t, SBase.sc_tokens s' = mid ++ [t] /\ real_flow_open t = true
                /\ snd t = (if seq then TFlowSequenceStart else TFlowMappingStart)
                /\ SBase.sc_flow_level s' = (SBase.sc_flow_level s + 1)%N.
Proof. exact (@fetch_flow_collection_start_counted). Qed.
Print Assumptions C11_flow_indicator_tokens_are_counted_partial.

(* (i) Both together, for EVERY text through the whole model pipeline [run_str] (accepted or not): the events nest at
   most twice as deep as FLOW_LEVEL_MAX plus the number of collection-start tokens that the flow level does not
   count — block collection starts and the synthetic FlowMappingStart tokens of implicit pairs.  These two kinds of
   token are exactly the two recorded classes of finding (block nesting (d), bypass family (e)): nothing else can
   nest without limit. *)
Theorem C11_text_nesting_bounded_partial : forall text,
  max_nesting (evs_of (fst (run_str text)))
  <= 2 * (N.to_nat Consts.FLOW_LEVEL_MAX + other_openers (fst (scan_str text))).
Proof. exact run_str_nesting_bounded. Qed.
Print Assumptions C11_text_nesting_bounded_partial.

(* the same over the buffered input back-end of ANY capacity (the scanner theorem (h) holds for every back-end) *)
Theorem C11_text_nesting_bounded_buffered_partial : forall cap text,
  max_nesting (evs_of (fst (SBuf.run_buf cap text)))
  <= 2 * (N.to_nat Consts.FLOW_LEVEL_MAX + other_openers (fst (scan_buf cap text))).
Proof. exact run_buf_nesting_bounded. Qed.
Print Assumptions C11_text_nesting_bounded_buffered_partial.

Theorem C11_pure_flow_text_nesting_bounded_partial : forall text,
  other_openers (fst (scan_str text)) = 0 ->
  max_nesting (evs_of (fst (run_str text))) <= 2 * N.to_nat Consts.FLOW_LEVEL_MAX.
Proof. exact pure_flow_text_nesting_bounded. Qed.
Print Assumptions C11_pure_flow_text_nesting_bounded_partial.

(* ... and with (b1): whenever load_document (Parser::load) returns on the events of a run, the deepest chain of
   load_node activations is at most 1 + twice the nesting of the tokens — for a text: at most
   1 + 2 * (255 + uncounted collection starts) *)
Theorem C11_push_loader_recursion_bounded_by_tokens_partial : forall toks keep se fuel fuel' rest m,
  pl_document fuel' (tl (evs_of (fst (parse_all fuel (init_parser toks keep) se [])))) = PlDone rest m ->
  m <= 1 + 2 * tok_nest_max toks.
Proof. exact push_loader_recursion_bounded_by_tokens. Qed.
Print Assumptions C11_push_loader_recursion_bounded_by_tokens_partial.

Theorem C11_push_loader_recursion_bounded_for_text_partial : forall text fuel' rest m,
  pl_document fuel' (tl (evs_of (fst (run_str text)))) = PlDone rest m ->
  m <= 1 + 2 * (N.to_nat Consts.FLOW_LEVEL_MAX + other_openers (fst (scan_str text))).
Proof. exact push_loader_recursion_bounded_for_text. Qed.
Print Assumptions C11_push_loader_recursion_bounded_for_text_partial.

(* ... and with (b2), for the LOADED tree (drop, clone, eq, hash, emit): every event sentence the grammar accepts and
   that holds no alias loads — without panic — to documents that are no deeper than the events nest; so for every
   accepted alias-free text a recursive traversal entered at depth d reaches at most d + 2 * (255 + uncounted starts).
   (An alias copies the completed anchored node into the tree: with aliases the tree can be deeper than the events
   nest — example C11_alias_deepens_the_tree below; not covered.) *)
Theorem C11_loaded_tree_depth_bounded_partial : forall evs,
  grun GInit evs = Some GEnd -> alias_free_events evs = true ->
  exists ld, load_events evs l0 = LOk ld
             /\ Forall (fun y => ydepth y <= max_nesting evs /\ forall d, ywalk d y <= d + max_nesting evs) (l_docs ld).
Proof. exact loaded_tree_depth_bounded. Qed.
Print Assumptions C11_loaded_tree_depth_bounded_partial.

Theorem C11_loaded_tree_walk_bounded_for_text_partial : forall text,
  snd (run_str text) = PDone -> alias_free_events (evs_of (fst (run_str text))) = true ->
  exists ld, load_events (evs_of (fst (run_str text))) l0 = LOk ld
             /\ Forall (fun y => forall d, ywalk d y <= d + 2 * (N.to_nat Consts.FLOW_LEVEL_MAX + other_openers (fst (scan_str text))))
                        (l_docs ld).
Proof. exact loaded_tree_walk_bounded_for_text. Qed.
Print Assumptions C11_loaded_tree_walk_bounded_for_text_partial.

(* (j) The three inequalities of (h), (g), (i) as ONE executable oracle [c11_oracle] (Model/Depth.v) — extracted and run
   by vlib/p_c11.py on the IMPLEMENTATION's tokens and events; on the model it can never fail: *)
Theorem C11_oracle_holds_on_model : forall text,
  c11_oracle (fst (scan_str text)) (evs_of (fst (run_str text))) = (true, true, true).
Proof. exact oracle_holds_on_model. Qed.
Print Assumptions C11_oracle_holds_on_model.

(* ---- non-vacuity / anchoring examples ---- *)
(* the limit the theorems speak about is the one of the code: u8 *)
Example C11_flow_limit_is_255 : Consts.FLOW_LEVEL_MAX = 255%N.
Proof. reflexivity. Qed.
(* the witness family, concretely: "- - a" *)
Example C11_family_2 :
  map snd (seq_tokens_flat 2)
  = [TStreamStart; TBlockSequenceStart; TBlockEntry; TBlockSequenceStart; TBlockEntry; TScalar Plain [97%N];
     TBlockEnd; TBlockEnd; TStreamEnd].
Proof. reflexivity. Qed.
Example C11_family_2_events :
  evs_of (fst (parse_tokens (seq_tokens_flat 2) SEnded false))
  = [EStreamStart; EDocumentStart false; ESequenceStart 0%N None; ESequenceStart 0%N None;
     EScalar [97%N] Plain 0%N None; ESequenceEnd; ESequenceEnd; EDocumentEnd; EStreamEnd].
Proof. vm_compute. reflexivity. Qed.
(* the hypothesis of (a) is satisfiable beyond the initial state *)
Example C11_reach_nonempty :
  exists p, reach (init_parser (seq_tokens_flat 1) false) p [EStreamStart; EDocumentStart false; ESequenceStart 0%N None]
            /\ length (p_states p) = 1.
Proof.
  destruct (run_steps 3 (init_parser (seq_tokens_flat 1) false) []) as [[p evs]|] eqn:E; vm_compute in E; [|discriminate].
  inversion E; subst. eexists. split.
  - eapply (run_steps_reach _ 3); [apply reach_init|]. vm_compute. reflexivity.
  - reflexivity.
Qed.
(* the push loader model does succeed on well-formed events, and does fail on others *)
Example C11_push_loader_runs :
  pl_document 20 [EDocumentStart false; EMappingStart 0%N None; EScalar [97%N] Plain 0%N None;
                  ESequenceStart 0%N None; ESequenceEnd; EMappingEnd; EDocumentEnd]
  = PlDone [] 2.
Proof. reflexivity. Qed.
Example C11_push_loader_rejects : pl_node 20 1 [ESequenceStart 0%N None; EMappingEnd] = PlUnreachable.
Proof. reflexivity. Qed.
(* depth measures are not constant *)
Example C11_depth_measures :
  max_nesting (seq_events 3) = 3 /\ ydepth (YSeq [YMap [(YBad, YSeq [YBad])]]) = 3 /\ ydepth (YSeq []) = 0.
Proof. repeat split; reflexivity. Qed.
(* the bypass family, concretely (d = 3): the text, what the SCANNER MODEL makes of it (synthetic FlowMappingStart
   tokens have empty spans, the '[' has not), its flow level, and the nested mappings the parser model delivers *)
Example C11_bypass_3_text :      (* the code points of  [ : : : }}}]  *)
  cflow_text 3 = [91; 32; 58; 32; 58; 32; 58; 32; 125; 125; 125; 93]%N.
Proof. reflexivity. Qed.
Example C11_bypass_3_scanned :
  map snd (fst (scan_str (cflow_text 3))) = map snd (cflow_tokens 3) /\ snd (scan_str (cflow_text 3)) = SEnded
  /\ map real_flow_open (fst (scan_str (cflow_text 3))) = map real_flow_open (cflow_tokens 3)
  /\ tok_flow_max (fst (scan_str (cflow_text 3))) = 1.
Proof. vm_compute. repeat split; reflexivity. Qed.
Example C11_bypass_3_events :
  evs_of (fst (parse_tokens (cflow_tokens 3) SEnded false))
  = [EStreamStart; EDocumentStart false; ESequenceStart 0%N None;
       EMappingStart 0%N None; null_ev;
         EMappingStart 0%N None; null_ev;
           EMappingStart 0%N None; null_ev; null_ev; EMappingEnd;
         EMappingEnd;
       EMappingEnd;
     ESequenceEnd; EDocumentEnd; EStreamEnd]
  /\ snd (parse_tokens (cflow_tokens 3) SEnded false) = PDone
  /\ max_nesting (evs_of (fst (parse_tokens (cflow_tokens 3) SEnded false))) = 4.
Proof. vm_compute. repeat split; reflexivity. Qed.
(* beyond the limit of the code: 300 nested mappings at flow level 1 *)
Example C11_bypass_300 :
  tok_flow_max (cflow_tokens 300) = 1
  /\ snd (parse_tokens (cflow_tokens 300) SEnded false) = PDone
  /\ N.to_nat Consts.FLOW_LEVEL_MAX < max_nesting (evs_of (fst (parse_tokens (cflow_tokens 300) SEnded false))).
Proof. vm_compute. repeat split; apply PeanoNat.Nat.leb_le; vm_compute; reflexivity. Qed.
(* the flow level of real '{' and '[' is counted: "{a: [b, {c: d}]}" reaches level 3 *)
Example C11_flow_level_counts_real_indicators :
  tok_flow_max (fst (scan_str [123; 97; 58; 32; 91; 98; 44; 32; 123; 99; 58; 32; 100; 125; 93; 125]%N)) = 3.
Proof. vm_compute. reflexivity. Qed.
(* the repaired family, concretely (d = 3): text, scanner model, parser model *)
Example C11_qflow_3_text :      (* the code points of  [ ? ] , [ ? ] , [ ? ] ]]]  *)
  qflow_text 3 = [91; 32; 63; 32; 93; 32; 44; 32; 91; 32; 63; 32; 93; 32; 44; 32; 91; 32; 63; 32; 93; 32; 93; 93; 93]%N.
Proof. reflexivity. Qed.
Example C11_qflow_3_scanned :
  map snd (fst (scan_str (qflow_text 3))) = map snd (qflow_tokens 3) /\ snd (scan_str (qflow_text 3)) = SEnded.
Proof. vm_compute. split; reflexivity. Qed.
Example C11_qflow_3_rejected :
  evs_of (fst (run_str (qflow_text 3))) = qflow_prefix_events
  /\ (exists m, snd (run_str (qflow_text 3)) = PParseErr 3 m /\ m_index m = 6%N).
Proof. vm_compute. split; [reflexivity|]. eexists. split; reflexivity. Qed.
(* the factor 2 of (g) is reached: "[ ? [ ? [ ? a ] ] ]" — three '[' tokens, six collections open at the scalar *)
Example C11_factor_two_is_tight :
  let text := [91; 32; 63; 32; 91; 32; 63; 32; 91; 32; 63; 32; 97; 32; 93; 32; 93; 32; 93]%N in
  tok_nest_max (fst (scan_str text)) = 3 /\ other_openers (fst (scan_str text)) = 0
  /\ max_nesting (evs_of (fst (run_str text))) = 6 /\ snd (run_str text) = PDone.
Proof. vm_compute. repeat split; reflexivity. Qed.
(* what (i) charges to the two recorded classes: d block collection starts in "- " * d ++ "a", d synthetic
   FlowMappingStart tokens in "[ : : ... }}}]" *)
Example C11_other_openers_of_the_families :
  other_openers (seq_tokens_flat 5) = 5 /\ other_openers (cflow_tokens 5) = 5 /\ other_openers (qflow_tokens 5) = 0
  /\ tok_nest_max (seq_tokens_flat 5) = 5 /\ tok_nest_max (cflow_tokens 5) = 6 /\ tok_nest_max (qflow_tokens 5) = 1.
Proof. vm_compute. repeat split; reflexivity. Qed.
(* the scanner model does reject the 256th '[' (so the bound of (h) is the limit of the code, not an artefact) *)
Example C11_flow_limit_reached :
  tok_flow_max (fst (scan_str (repeat 91%N 255))) = 255
  /\ (exists m, snd (scan_str (repeat 91%N 256)) = SError 45 m).
Proof. vm_compute. split; [reflexivity|eexists; reflexivity]. Qed.
(* the oracle is not trivially true: on the token stream of the repaired family with the events the OLD parser delivered
   for it (three nested sequences, see the fixed entry of known_findings_c11.jsonl) verdict (g) is false *)
Example C11_oracle_rejects_the_old_behaviour :
  c11_oracle (qflow_tokens 3)
    [EStreamStart; EDocumentStart false;
     ESequenceStart 0%N None; EMappingStart 0%N None; null_ev; null_ev; EMappingEnd;
       ESequenceStart 0%N None; EMappingStart 0%N None; null_ev; null_ev; EMappingEnd;
         ESequenceStart 0%N None; EMappingStart 0%N None; null_ev; null_ev; EMappingEnd;
         ESequenceEnd; ESequenceEnd; ESequenceEnd; EDocumentEnd; EStreamEnd]
  = (true, false, true).
Proof. vm_compute. reflexivity. Qed.
(* the hypothesis of the recursion bound is satisfiable and the bound is not far off: "[ ? [ ? [ ? a ] ] ]" *)
Example C11_push_loader_on_text :
  let text := [91; 32; 63; 32; 91; 32; 63; 32; 91; 32; 63; 32; 97; 32; 93; 32; 93; 32; 93]%N in
  pl_document 100 (tl (evs_of (fst (run_str text)))) = PlDone [EStreamEnd] 7.
Proof. vm_compute. reflexivity. Qed.
(* aliases are outside (b2)'s bound: "- &a [x]" / "- &b [*a]" / "- &c [*b]" nests 2 deep and loads to a tree of depth 4 *)
Example C11_alias_deepens_the_tree :
  let text := [45; 32; 38; 97; 32; 91; 120; 93; 10;  45; 32; 38; 98; 32; 91; 42; 97; 93; 10;  45; 32; 38; 99; 32; 91; 42; 98; 93; 10]%N in
  snd (run_str text) = PDone /\ max_nesting (evs_of (fst (run_str text))) = 2
  /\ alias_free_events (evs_of (fst (run_str text))) = false
  /\ match load_events (evs_of (fst (run_str text))) l0 with LOk ld => map ydepth (l_docs ld) = [4] | LPanic _ => False end.
Proof. vm_compute. repeat split; reflexivity. Qed.
(* ... and the hypotheses of the tree bound are satisfiable *)
Example C11_tree_bound_applies :
  let text := [91; 32; 63; 32; 91; 32; 63; 32; 91; 32; 63; 32; 97; 32; 93; 32; 93; 32; 93]%N in
  snd (run_str text) = PDone /\ alias_free_events (evs_of (fst (run_str text))) = true
  /\ match load_events (evs_of (fst (run_str text))) l0 with LOk ld => map ydepth (l_docs ld) = [6] | LPanic _ => False end.
Proof. vm_compute. repeat split; reflexivity. Qed.
