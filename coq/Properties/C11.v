(* C11 — Nesting depth cannot crash the process.

   Full statement (NOT expressible over the model: bytes of stack per activation and the 8 MiB limit of a
   thread are run-time facts of the compiled code; they are measured by the child-process sweep of
   vlib/p_c11.py, which observes the exit status of one process per scenario):

     Definition C11_full : Prop :=
       forall (shape : {"- ", "k:", "? ", "[", "{a:", alternating}) (depth : 1 .. 10^5)
              (api : {iterator, Parser::load, Yaml::load_from_str + drop, YamlEmitter::dump}),
         outcome (run api (input shape depth)) = Success \/ exists e, outcome (...) = ErrorValue e
       /\ exists B, forall input, stack_bytes (run api input) <= B.        -- B independent of the depth

   What IS proved here, for ALL inputs, is the part a model can carry, and since /repo 99c201b (block nesting limited),
   597a354 (one implicit mapping per flow-sequence entry) and 88700d3 (a closer must match its level) it is the whole
   model-level content of the property:

     HEADLINE (k)  C11_text_nesting_bounded: for EVERY text the events of the whole model pipeline nest at most
                   NEST_BOUND = 2 * (BLOCK_NESTING_MAX + 3 * FLOW_LEVEL_MAX + 1) deep — a CONSTANT, stated with the limits
                   the translator generates from the Rust source (Gen/Consts.v) — and therefore (b1), (b2) the recursion of
                   Parser::load is at most 1 + NEST_BOUND activations for every text, and drop / clone / eq / hash / emit of
                   what an accepted alias-free text loads to recurse at most d + NEST_BOUND deep.

   The pieces: (a) the pull parser keeps its continuation on the heap; (b) recursion depth of the push loader and of tree
   traversals = nesting depth; (c) the scanner's flow-level limit, (c') its block-nesting limit; (g) for EVERY token stream
   the parser nests at most twice as deep as the tokens; (h) for EVERY input the flow level of the scanned token stream is
   within the limit; (h') NEW for EVERY input the nesting of the WHOLE scanned token stream — block collection starts,
   '[' / '{', synthetic FlowMappingStart tokens — is within NEST_TOK_BOUND (invariant J of Proofs/DepthNest.v over every
   function of the scanner model); (i) the finer bound 2 * (255 + block starts + synthetic starts); (j) all of it as an
   executable oracle.  (d) is a REMARK about the parser alone; (f): the bypass repaired by c5ad60c is rejected.

   Model: Model/Parser.v (pull parser), Model/SBase/SPrim/SDir/SScalar/SFetch.v (scanner), Model/Depth.v (push loader
   load_node/load_sequence/load_mapping, structural tree traversal, token nesting, flow level of a token stream,
   witness families, bounds, oracle), Model/Loader.v (tree), Gen/Consts.v (FLOW_LEVEL_MAX, BLOCK_NESTING_MAX: generated).
   Proofs: Proofs/DepthProofs.v (a)-(f), DepthTok.v + DepthTokRun.v (g), DepthScan.v (h), DepthNest.v (c') (h'),
   DepthText.v (i), (j), (k).  Only statements here, each closed by [exact] of a lemma. *)
From Coq Require Import List NArith Bool.
Import ListNotations.
Require Import Parser SFetch Pipe Drivers Grammar Resolver Loader C02run Depth DepthProofs DepthTok DepthTokRun DepthScan DepthNest DepthTree DepthAlias DepthText.
Require SBase SPrim SBuf Consts.
Local Open Scope nat_scope.

(* (a) The pull parser (iterator API) is not recursive: [state_machine] is a non-recursive definition whose
   continuation is the heap stack [p_states].  For EVERY token list and every state reachable from the
   initial one: the heap stack holds at most one entry per collection currently open in the events
   delivered so far, plus one for the document — and it really is the nesting that it stores: at least
   (open - 2) / 2 entries.  Depth costs heap, not call stack. *)
Theorem C11_pull_parser_heap_stack_partial : forall toks keep p evs,
  reach (init_parser toks keep) p evs ->
  length (p_states p) <= open_depth evs + 1 /\ open_depth evs <= 2 * length (p_states p) + 2.
Proof. exact pull_stack_bounded_by_open_depth. Qed.
Print Assumptions C11_pull_parser_heap_stack_partial.

(* (b1) The push interface Parser::load (load_node -> load_sequence / load_mapping -> load_node): whenever
   load_node returns — any fuel, any event list — it has consumed a well-nested prefix, and the deepest chain
   of live load_node activations was its entry depth plus the nesting depth of that prefix: one activation
   (of load_node and of load_sequence / load_mapping) per nesting level. *)
Theorem C11_push_loader_recursion_partial : forall fuel d evs r m,
  pl_node fuel d evs = PlDone r m ->
  exists used, evs = used ++ r /\ open_depth used = 0 /\ m = d + max_nesting used.
Proof. exact push_loader_recursion_depth. Qed.
Print Assumptions C11_push_loader_recursion_partial.

(* (b2) Any traversal of the loaded tree that visits children through a recursive call — the derived
   Drop / Clone / PartialEq / Hash of saphyr::Yaml, YamlEmitter::emit_node — reaches a recursion depth of
   exactly its entry depth plus the depth of the tree. *)
Theorem C11_tree_recursion_partial : forall y d, ywalk d y = d + ydepth y.
Proof. exact walk_depth_is_tree_depth. Qed.
Print Assumptions C11_tree_recursion_partial.

(* (c) Flow nesting is limited: the only function of the scanner model that raises flow_level is
   increase_flow_level; from a level within the limit it either succeeds with a level still within the
   limit, or — exactly at FLOW_LEVEL_MAX — fails with error site 45 ("recursion limit exceeded"): the 256th nested
   '[' or '{' is an error VALUE.  (What this does and does not bound: (e), (h), (i).) *)
Theorem C11_flow_level_bounded_partial : forall (I : Type) (s : SBase.sc I),
  (SBase.sc_flow_level s <= Consts.FLOW_LEVEL_MAX)%N ->
  match SPrim.increase_flow_level s with
  | SBase.Ok (_, s') =>
      (SBase.sc_flow_level s < Consts.FLOW_LEVEL_MAX)%N /\
      SBase.sc_flow_level s' = (SBase.sc_flow_level s + 1)%N /\
      (SBase.sc_flow_level s' <= Consts.FLOW_LEVEL_MAX)%N
  | SBase.Err site m => site = 45%N /\ m = SBase.sc_mark s /\ SBase.sc_flow_level s = Consts.FLOW_LEVEL_MAX
  | _ => False
  end.
Proof. exact (@increase_flow_level_spec). Qed.
Print Assumptions C11_flow_level_bounded_partial.

Theorem C11_flow_level_limit_is_an_error_partial : forall (I : Type) (s : SBase.sc I),
  SBase.sc_flow_level s = Consts.FLOW_LEVEL_MAX ->
  SPrim.increase_flow_level s = SBase.Err 45 (SBase.sc_mark s).
Proof. exact (@increase_flow_level_at_limit). Qed.
Print Assumptions C11_flow_level_limit_is_an_error_partial.

(* (c') Block nesting is limited the same way (/repo 99c201b): the only function of the scanner model that pushes a block
   entry on the indent stack is roll_indent.  With BLOCK_NESTING_MAX entries on the stack, a block collection that needs
   one more level (flow level 0, column beyond the current indent, no non-block entry on top to replace) is scan error
   site 46 ("recursion limit exceeded") at the current mark — the 256th nested "- " / "? " / "k:" is an error VALUE — *)
Theorem C11_block_nesting_limit_is_an_error_partial :
  forall (I : Type) col number tk mk (s : SBase.sc I),
  SBase.sc_flow_level s = 0%N -> BinInt.Z.lt (SBase.sc_indent s) (BinInt.Z.of_N col) ->
  (Consts.BLOCK_NESTING_MAX <= N.of_nat (length (SBase.sc_indents s)))%N ->
  match SBase.sc_indents s with i :: _ => SBase.in_needs_block_end i = true | [] => True end ->
  SPrim.roll_indent col number tk mk s = SBase.Err 46 (SBase.sc_mark s).
Proof. exact (@roll_indent_at_limit). Qed.
Print Assumptions C11_block_nesting_limit_is_an_error_partial.

(* ... and whenever roll_indent returns normally, the indent stack holds at most BLOCK_NESTING_MAX block entries
   ([nb] counts the entries that owe a BlockEnd token), at most one more than before *)
Theorem C11_block_indents_bounded_partial :
  forall (I : Type) col number tk mk (s : SBase.sc I) u s',
  SPrim.roll_indent col number tk mk s = SBase.Ok (u, s') -> nb (SBase.sc_indents s) <= N.to_nat Consts.BLOCK_NESTING_MAX ->
  nb (SBase.sc_indents s') <= N.to_nat Consts.BLOCK_NESTING_MAX /\ nb (SBase.sc_indents s') <= S (nb (SBase.sc_indents s)).
Proof. exact (@roll_indent_within_limit). Qed.
Print Assumptions C11_block_indents_bounded_partial.

(* (d) REMARK — the PARSER alone has no nesting limit of its own: for every d the token stream
         StreamStart (BlockSequenceStart BlockEntry)^d Scalar BlockEnd^d StreamEnd
   (3d+3 tokens) is accepted by the parser model and its events nest d deep.  Up to d = BLOCK_NESTING_MAX this is what the
   scanner delivers for  "- " * d ++ "a"  (compared with the real scanner on every run of the check); for larger d the
   scanner can no longer deliver these tokens (/repo 99c201b: roll_indent fails with site 46, examples below), so this is
   a statement about the parser alone, not about reachable behaviour: the limit lives in the scanner — theorems (c), (c'),
   (h), (h'), (i).  (The refutation theorems built on this family and on the bare-':' family of the old scanner —
   C11_block_unbounded_refuted, C11_recursion_unbounded_refuted, C11_flow_limit_bypass_family,
   C11_flow_limit_bounds_nesting_refuted — described the two recorded findings, which /repo 99c201b, 597a354 and 88700d3
   repaired; they are deleted.) *)
Theorem C11_parser_alone_has_no_nesting_limit_remark : forall d keep se,
  length (seq_tokens_flat d) = 3 * d + 3
  /\ parse_tokens (seq_tokens_flat d) se keep = (evsp (seq_events d), PDone)
  /\ max_nesting (seq_events d) = d.
Proof. exact block_family_accepted. Qed.
Print Assumptions C11_parser_alone_has_no_nesting_limit_remark.

(* (f) The FIRST bypass family is gone (repaired by c5ad60c; was theorem C11_flow_limit_bypass_family before).  For
   every d >= 1 the token stream of
         "[ ? ] , " * (d-1) ++ "[ ? ] " ++ "]" * d
   — 5d+1 tokens, flow level 1 — is REJECTED by the parser model: flow_sequence_entry_mapping_key no longer consumes
   the "]" that ends the empty key, the first "[ ? ]" is a complete document (nine events, nesting 2) and the "," or
   "]" behind it is parse error site 3 ("did not find expected <document start>"): an error VALUE at every depth. *)
Theorem C11_qflow_family_rejected : forall d keep se,
  1 <= d ->
  length (qflow_tokens d) = 5 * d + 1
  /\ tok_flow_max (qflow_tokens d) = 1
  /\ parse_tokens (qflow_tokens d) se keep = (evsp qflow_prefix_events, PParseErr 3 mk00)
  /\ max_nesting qflow_prefix_events = 2.
Proof. exact qflow_rejected. Qed.
Print Assumptions C11_qflow_family_rejected.

(* (g) What IS bounded, for EVERY token stream (accepted or not, any fuel): the pull parser opens a collection only for a
   collection-start token (BlockSequenceStart, BlockMappingStart, FlowSequenceStart, FlowMappingStart — synthetic or not)
   plus at most one "free" collection directly inside it (the indentless sequence of a block mapping, the single-pair
   mapping of a flow sequence entry), and it consumes a collection-end token (BlockEnd, FlowSequenceEnd,
   FlowMappingEnd) only by closing the collection it ends.  So in every reachable state the collections open in the
   events delivered so far number at most twice the nesting of the token stream ([tok_nest_max]: +1 at a start token,
   -1 at an end token).  This is the statement the repaired defect (family (f): a FlowSequenceEnd consumed without
   closing anything) violated; the factor 2 is reached ("[ ? [ ? [ ? a ] ] ]", example below). *)
Theorem C11_open_collections_bounded_by_token_nesting_partial : forall toks keep p evs,
  reach (init_parser toks keep) p evs -> open_depth evs <= 2 * tok_nest_max toks.
Proof. exact open_depth_bounded_by_token_nesting. Qed.
Print Assumptions C11_open_collections_bounded_by_token_nesting_partial.

(* ... hence the nesting depth of the events of a whole run — which is the recursion depth of Parser::load, of the
   destructor and of the emitter by (b1), (b2) — is at most twice the nesting of the tokens *)
Theorem C11_nesting_bounded_by_token_nesting_partial : forall toks keep se fuel,
  max_nesting (evs_of (fst (parse_all fuel (init_parser toks keep) se []))) <= 2 * tok_nest_max toks.
Proof. exact nesting_bounded_by_token_nesting. Qed.
Print Assumptions C11_nesting_bounded_by_token_nesting_partial.

(* (h) The scanner, for EVERY input (any Input back-end [ops], any fuel), however the scan ends: along the token stream
   it delivers, the '[' / '{' tokens not yet matched by a ']' / '}' token never outnumber flow_level, and flow_level
   never exceeds FLOW_LEVEL_MAX (invariant [G] of Proofs/DepthScan.v, over every function of the scanner model).
   "Flow nesting is bounded" as a statement about text: [tok_flow_max] of what the scanner makes of it is <= 255. *)
Theorem C11_scanner_flow_level_bounded_partial : forall (I : Type) (ops : SBase.InputOps I) (F fuel : nat) (i : I),
  tok_flow_max (fst (scan_all ops F fuel (SBase.init_sc i) [])) <= N.to_nat Consts.FLOW_LEVEL_MAX.
Proof. exact (@scan_flow_level_bounded). Qed.
Print Assumptions C11_scanner_flow_level_bounded_partial.

(* ... and the '[' / '{' tokens ARE counted by [tok_flow_max]: whenever fetch_flow_collection_start returns, it has
   pushed (last in the queue) a token of the indicator's kind whose span is not empty — so [real_flow_open] holds for
   it — and has raised flow_level by one.  (The synthetic FlowMappingStart of fetch_value has an empty span by
   construction: span_empty.) *)
Theorem C11_flow_indicator_tokens_are_counted_partial :
  forall (I : Type) (ops : SBase.InputOps I) (F : nat) (seq : bool) (s : SBase.sc I) u s',
  fetch_flow_collection_start ops F seq s = SBase.Ok (u, s') ->
  exists mid t, SBase.sc_tokens s' = mid ++ [t] /\ real_flow_open t = true
                /\ snd t = (if seq then TFlowSequenceStart else TFlowMappingStart)
                /\ SBase.sc_flow_level s' = (SBase.sc_flow_level s + 1)%N.
Proof. exact (@fetch_flow_collection_start_counted). Qed.
Print Assumptions C11_flow_indicator_tokens_are_counted_partial.

(* (h') NEW — the scanner, for EVERY input (any Input back-end [ops], any fuel), however the scan ends: along the token
   stream it delivers, the collection-start tokens of ALL kinds (BlockSequenceStart, BlockMappingStart, FlowSequenceStart,
   FlowMappingStart — from a '{' or synthetic) not yet matched by an end token never number more than
       NEST_TOK_BOUND = BLOCK_NESTING_MAX + 3 * FLOW_LEVEL_MAX + 1.
   Invariant [J] of Proofs/DepthNest.v over every function of the scanner model: open starts <= block entries of
   sc_indents (<= BLOCK_NESTING_MAX by (c')) + flow_level (<= FLOW_LEVEL_MAX by (c)) + ImInside entries of sc_ifms (one per
   flow level at most: /repo 597a354 pushes the synthetic FlowMappingStart only on the ImPossible -> ImInside transition,
   88700d3 pops an entry only for its own closer); the remaining FLOW_LEVEL_MAX + 1 is the allowance for start tokens that
   fetch_value / roll_indent INSERT in front of already queued tokens, at the saved position of a simple key: one per
   simple key (one key per flow level + 1, C15's skeleton invariant), spent when the key is used. *)
Theorem C11_scanner_token_nesting_bounded : forall (I : Type) (ops : SBase.InputOps I) (F fuel : nat) (i : I),
  tok_nest_max (fst (scan_all ops F fuel (SBase.init_sc i) [])) <= NEST_TOK_BOUND.
Proof. exact (@scan_token_nesting_bounded). Qed.
Print Assumptions C11_scanner_token_nesting_bounded.

(* NOT proved — the TIGHT constant of (h').  The allowance FLOW_LEVEL_MAX + 1 of (h') is an artefact of the proof: the key
   of flow level j can only insert a FlowMappingStart while sc_ifms[j] is ImPossible, i.e. while that level does not yet
   count an ImInside entry, so per flow level "ImInside or a key that may still insert" is at most 1; a proof needs the
   key stack and sc_ifms aligned level by level in (J2).  The value BLOCK_NESTING_MAX + 2 * FLOW_LEVEL_MAX = 765 is
   reached (example C11_token_nesting_765_is_reached) and is the largest value the check has ever seen on the real
   scanner (coverage: oracle.deepest_token_nesting). *)
Definition C11_token_nesting_tight : Prop :=
  forall (I : Type) (ops : SBase.InputOps I) (F fuel : nat) (i : I),
  tok_nest_max (fst (scan_all ops F fuel (SBase.init_sc i) []))
  <= N.to_nat Consts.BLOCK_NESTING_MAX + 2 * N.to_nat Consts.FLOW_LEVEL_MAX.

(* (k) HEADLINE — (g) o (h'), for EVERY text through the whole model pipeline (accepted or not): the events nest at most
   NEST_BOUND deep, a constant that follows the limits of the Rust source through Gen/Consts.v *)
Theorem C11_text_nesting_bounded : forall text,
  max_nesting (evs_of (fst (run_str text)))
  <= 2 * (N.to_nat Consts.BLOCK_NESTING_MAX + 3 * N.to_nat Consts.FLOW_LEVEL_MAX + 1).
Proof. exact run_str_nesting_const. Qed.
Print Assumptions C11_text_nesting_bounded.

(* the same over the buffered input back-end of ANY capacity *)
Theorem C11_text_nesting_bounded_buffered : forall cap text,
  max_nesting (evs_of (fst (SBuf.run_buf cap text)))
  <= 2 * (N.to_nat Consts.BLOCK_NESTING_MAX + 3 * N.to_nat Consts.FLOW_LEVEL_MAX + 1).
Proof. exact run_buf_nesting_const. Qed.
Print Assumptions C11_text_nesting_bounded_buffered.

(* ... with (b1): whenever load_document (Parser::load) returns on the events of ANY text, the deepest chain of live
   load_node activations was at most 1 + NEST_BOUND — the recursion of the push interface is bounded by a constant *)
Theorem C11_push_loader_recursion_bounded : forall text fuel' rest m,
  pl_document fuel' (tl (evs_of (fst (run_str text)))) = PlDone rest m -> m <= 1 + NEST_BOUND.
Proof. exact push_loader_recursion_const. Qed.
Print Assumptions C11_push_loader_recursion_bounded.

Theorem C11_push_loader_recursion_bounded_buffered : forall cap text fuel' rest m,
  pl_document fuel' (tl (evs_of (fst (SBuf.run_buf cap text)))) = PlDone rest m -> m <= 1 + NEST_BOUND.
Proof. exact push_loader_recursion_const_buffered. Qed.
Print Assumptions C11_push_loader_recursion_bounded_buffered.

(* ... with (b2), for the LOADED tree of every accepted alias-free text: every document is at most NEST_BOUND deep and a
   recursive traversal (drop, clone, eq, hash, emit) entered at depth d reaches at most d + NEST_BOUND.  (With aliases the
   tree can be deeper than the events nest — example C11_alias_deepens_the_tree; not covered.) *)
Theorem C11_loaded_tree_walk_bounded : forall text,
  snd (run_str text) = PDone -> alias_free_events (evs_of (fst (run_str text))) = true ->
  exists ld, load_events (evs_of (fst (run_str text))) l0 = LOk ld
             /\ Forall (fun y => ydepth y <= NEST_BOUND /\ forall d, ywalk d y <= d + NEST_BOUND) (l_docs ld).
Proof. exact loaded_tree_walk_const. Qed.
Print Assumptions C11_loaded_tree_walk_bounded.

(* (l) ALIASES — what no nesting limit bounds (recorded finding C11-alias-chain-tree-depth).  An alias inserts a COPY of the
   completed anchored node, so the loaded tree can be deeper than the events nest.  The alias-chain family
         "- &a0 [a]" / "- &a1 [*a0]" / ... / "- &a(n-1) [*a(n-2)]"
   as an event sentence [alias_events n] (3n + 6 events, what the model pipeline makes of the text: example below): accepted
   by the grammar, event nesting 2 for EVERY n — and the loader model builds one document n + 1 deep (by induction on n), so
   Clone (inside the loader), Drop and the emitter recurse n + 1 deep on it. *)
Theorem C11_alias_chain_family : forall n, 1 <= n ->
  grun GInit (alias_events n) = Some GEnd
  /\ max_nesting (alias_events n) = 2
  /\ exists y anchors,
       load_events (alias_events n) l0 = LOk {| l_docs := [y]; l_stack := []; l_keys := []; l_anchors := anchors |}
       /\ ydepth y = n + 1 /\ forall d, ywalk d y = d + (n + 1).
Proof. exact alias_family. Qed.
Print Assumptions C11_alias_chain_family.

(* so "the documents of an accepted sentence are at most (nesting of the events) + c deep" is false for every c: the bounds
   (k) on the events say nothing about the tree once aliases are present *)
Theorem C11_tree_depth_not_bounded_by_nesting_refuted : forall c, ~ tree_depth_bounded_by_nesting c.
Proof. exact tree_depth_not_bounded_by_nesting. Qed.
Print Assumptions C11_tree_depth_not_bounded_by_nesting_refuted.

(* ... and the bound that DOES hold with aliases, for every accepted sentence: no document is deeper than the sentence has
   collection-start events (every level of a chain in the tree is, or is a copy of, a node built for a different
   SequenceStart / MappingStart event: an alias can only refer to a node completed before it).  Linear in the size of the
   input — which is the finding — and reached by the family (n + 1 collection starts, depth n + 1). *)
Theorem C11_loaded_tree_depth_bounded_by_collection_starts : forall evs,
  grun GInit evs = Some GEnd ->
  exists ld, load_events evs l0 = LOk ld
             /\ Forall (fun y => ydepth y <= coll_starts evs /\ forall d, ywalk d y <= d + coll_starts evs) (l_docs ld).
Proof. exact loaded_tree_depth_le_collection_starts. Qed.
Print Assumptions C11_loaded_tree_depth_bounded_by_collection_starts.

Theorem C11_loaded_tree_depth_bounded_by_collection_starts_for_text : forall text,
  snd (run_str text) = PDone ->
  exists ld, load_events (evs_of (fst (run_str text))) l0 = LOk ld
             /\ Forall (fun y => ydepth y <= coll_starts (evs_of (fst (run_str text)))
                                 /\ forall d, ywalk d y <= d + coll_starts (evs_of (fst (run_str text)))) (l_docs ld).
Proof. exact loaded_tree_depth_le_collection_starts_for_text. Qed.
Print Assumptions C11_loaded_tree_depth_bounded_by_collection_starts_for_text.

(* (i) The finer, input-dependent bound (g) o (h), for EVERY text through [run_str] (accepted or not): the events nest at
   most twice as deep as FLOW_LEVEL_MAX plus the number of collection-start tokens that the flow level does not
   count — block collection starts and the synthetic FlowMappingStart tokens of implicit pairs (both bounded now, (h'));
   tighter than (k) for texts with few of them, e.g. 2 * 255 for pure flow texts. *)
Theorem C11_text_nesting_bounded_partial : forall text,
  max_nesting (evs_of (fst (run_str text)))
  <= 2 * (N.to_nat Consts.FLOW_LEVEL_MAX + other_openers (fst (scan_str text))).
Proof. exact run_str_nesting_bounded. Qed.
Print Assumptions C11_text_nesting_bounded_partial.

(* (the corollaries of this finer bound — buffered back-end, pure flow texts, push loader and tree walk for a text — are
   superseded by the constant bounds (k) and no longer stated; Proofs/DepthText.v still proves them)

   ... and with (b1), for ANY token stream: whenever load_document (Parser::load) returns on the events of a run, the
   deepest chain of load_node activations is at most 1 + twice the nesting of the tokens *)
Theorem C11_push_loader_recursion_bounded_by_tokens_partial : forall toks keep se fuel fuel' rest m,
  pl_document fuel' (tl (evs_of (fst (parse_all fuel (init_parser toks keep) se [])))) = PlDone rest m ->
  m <= 1 + 2 * tok_nest_max toks.
Proof. exact push_loader_recursion_bounded_by_tokens. Qed.
Print Assumptions C11_push_loader_recursion_bounded_by_tokens_partial.


(* ... and with (b2), for the LOADED tree (drop, clone, eq, hash, emit): every event sentence the grammar accepts and
   that holds no alias loads — without panic — to documents that are no deeper than the events nest; so for every
   accepted alias-free text a recursive traversal entered at depth d reaches at most d + NEST_BOUND
   (C11_loaded_tree_walk_bounded above).  With aliases the tree can be deeper than the events nest: (l). *)
Theorem C11_loaded_tree_depth_bounded_partial : forall evs,
  grun GInit evs = Some GEnd -> alias_free_events evs = true ->
  exists ld, load_events evs l0 = LOk ld
             /\ Forall (fun y => ydepth y <= max_nesting evs /\ forall d, ywalk d y <= d + max_nesting evs) (l_docs ld).
Proof. exact loaded_tree_depth_bounded. Qed.
Print Assumptions C11_loaded_tree_depth_bounded_partial.


(* (j) The five inequalities of (h), (g), (i), (h'), (k) as ONE executable oracle [c11_oracle] (Model/Depth.v) — extracted
   and run by vlib/p_c11.py on the IMPLEMENTATION's tokens and events; on the model it can never fail: *)
Theorem C11_oracle_holds_on_model : forall text,
  c11_oracle (fst (scan_str text)) (evs_of (fst (run_str text))) = (true, true, true, true, true).
Proof. exact oracle_holds_on_model. Qed.
Print Assumptions C11_oracle_holds_on_model.

(* ---- non-vacuity / anchoring examples ---- *)
(* the limit the theorems speak about is the one of the code: u8 *)
Example C11_flow_limit_is_255 : Consts.FLOW_LEVEL_MAX = 255%N.
Proof. reflexivity. Qed.
Example C11_block_limit_is_255 : Consts.BLOCK_NESTING_MAX = 255%N.
Proof. reflexivity. Qed.
(* the constants of (h') and (k) with today's limits *)
Example C11_bounds_today : NEST_TOK_BOUND = 1021 /\ NEST_BOUND = 2042
  /\ NEST_BOUND = 2 * (N.to_nat Consts.BLOCK_NESTING_MAX + 3 * N.to_nat Consts.FLOW_LEVEL_MAX + 1).
Proof. repeat split; reflexivity. Qed.
(* the witness family, concretely: "- - a" *)
Example C11_family_2 :
  map snd (seq_tokens_flat 2)
  = [TStreamStart; TBlockSequenceStart; TBlockEntry; TBlockSequenceStart; TBlockEntry; TScalar Plain [97%N];
     TBlockEnd; TBlockEnd; TStreamEnd].
Proof. reflexivity. Qed.
Example C11_family_2_events :
  evs_of (fst (parse_tokens (seq_tokens_flat 2) SEnded false))
  = [EStreamStart; EDocumentStart false; ESequenceStart 0%N None; ESequenceStart 0%N None;
     EScalar [97%N] Plain 0%N None; ESequenceEnd; ESequenceEnd; EDocumentEnd; EStreamEnd].
Proof. vm_compute. reflexivity. Qed.
(* the hypothesis of (a) is satisfiable beyond the initial state *)
Example C11_reach_nonempty :
  exists p, reach (init_parser (seq_tokens_flat 1) false) p [EStreamStart; EDocumentStart false; ESequenceStart 0%N None]
            /\ length (p_states p) = 1.
Proof.
  destruct (run_steps 3 (init_parser (seq_tokens_flat 1) false) []) as [[p evs]|] eqn:E; vm_compute in E; [|discriminate].
  inversion E; subst. eexists. split.
  - eapply (run_steps_reach _ 3); [apply reach_init|]. vm_compute. reflexivity.
  - reflexivity.
Qed.
(* the push loader model does succeed on well-formed events, and does fail on others *)
Example C11_push_loader_runs :
  pl_document 20 [EDocumentStart false; EMappingStart 0%N None; EScalar [97%N] Plain 0%N None;
                  ESequenceStart 0%N None; ESequenceEnd; EMappingEnd; EDocumentEnd]
  = PlDone [] 2.
Proof. reflexivity. Qed.
Example C11_push_loader_rejects : pl_node 20 1 [ESequenceStart 0%N None; EMappingEnd] = PlUnreachable.
Proof. reflexivity. Qed.
(* depth measures are not constant *)
Example C11_depth_measures :
  max_nesting (seq_events 3) = 3 /\ ydepth (YSeq [YMap [(YBad, YSeq [YBad])]]) = 3 /\ ydepth (YSeq []) = 0.
Proof. repeat split; reflexivity. Qed.
(* the old bypass families are rejected by the SCANNER MODEL now: "[ : : : }}}]" (colonsok, d = 3) — the '}' that meets the
   open '[' is scan error site 48 (88700d3) before a token beyond StreamStart is delivered; "[ : : : ]" (colons) — only the
   first ':' starts a mapping (597a354: ONE synthetic FlowMappingStart), the second ':' is a parse error; "[ : } , [ : } ]]"
   (cbrace) — site 48 at the first '}' *)
Example C11_bypass_3_text :      (* the code points of  [ : : : }}}]  *)
  cflow_text 3 = [91; 32; 58; 32; 58; 32; 58; 32; 125; 125; 125; 93]%N.
Proof. reflexivity. Qed.
Example C11_bypass_3_rejected :
  map snd (fst (scan_str (cflow_text 3))) = [TStreamStart]
  /\ (exists m, snd (scan_str (cflow_text 3)) = SError 48 m /\ m_index m = 8%N)
  /\ max_nesting (evs_of (fst (run_str (cflow_text 3)))) = 0.
Proof. vm_compute. split; [reflexivity|]. split; [eexists; split; reflexivity|reflexivity]. Qed.
Example C11_colons_3_rejected :      (* [ : : : ] *)
  let text := [91; 32; 58; 32; 58; 32; 58; 93]%N in
  other_openers (fst (scan_str text)) = 1
  /\ (exists m, snd (run_str text) = PParseErr 11 m /\ m_index m = 4%N)
  /\ max_nesting (evs_of (fst (run_str text))) = 2.
Proof. vm_compute. split; [reflexivity|]. split; [eexists; split; reflexivity|reflexivity]. Qed.
Example C11_cbrace_2_rejected :      (* [ : } , [ : } ]] *)
  let text := [91; 32; 58; 32; 125; 32; 44; 32; 91; 32; 58; 32; 125; 32; 93; 93]%N in
  exists m, snd (scan_str text) = SError 48 m /\ m_index m = 4%N.
Proof. vm_compute. eexists; split; reflexivity. Qed.
(* the block limit of the scanner model (99c201b): "- " * 255 ++ "a" gives the witness family of (d), the 256th "- " is
   scan error site 46 at the mark behind it — the limit of the code, not an artefact *)
Example C11_block_limit_reached :
  let text d := flat_map (fun _ => [45; 32]%N) (repeat tt d) ++ [97%N] in
  map snd (fst (scan_str (text 255))) = map snd (seq_tokens_flat 255) /\ snd (scan_str (text 255)) = SEnded
  /\ max_nesting (evs_of (fst (run_str (text 255)))) = 255
  /\ (exists m, snd (scan_str (text 256)) = SError 46 m /\ m_index m = 511%N).
Proof. vm_compute. repeat split; try reflexivity. eexists; split; reflexivity. Qed.
(* the flow level of real '{' and '[' is counted: "{a: [b, {c: d}]}" reaches level 3 *)
Example C11_flow_level_counts_real_indicators :
  tok_flow_max (fst (scan_str [123; 97; 58; 32; 91; 98; 44; 32; 123; 99; 58; 32; 100; 125; 93; 125]%N)) = 3.
Proof. vm_compute. reflexivity. Qed.
(* the repaired family, concretely (d = 3): text, scanner model, parser model *)
Example C11_qflow_3_text :      (* the code points of  [ ? ] , [ ? ] , [ ? ] ]]]  *)
  qflow_text 3 = [91; 32; 63; 32; 93; 32; 44; 32; 91; 32; 63; 32; 93; 32; 44; 32; 91; 32; 63; 32; 93; 32; 93; 93; 93]%N.
Proof. reflexivity. Qed.
Example C11_qflow_3_scanned :
  map snd (fst (scan_str (qflow_text 3))) = map snd (qflow_tokens 3) /\ snd (scan_str (qflow_text 3)) = SEnded.
Proof. vm_compute. split; reflexivity. Qed.
Example C11_qflow_3_rejected :
  evs_of (fst (run_str (qflow_text 3))) = qflow_prefix_events
  /\ (exists m, snd (run_str (qflow_text 3)) = PParseErr 3 m /\ m_index m = 6%N).
Proof. vm_compute. split; [reflexivity|]. eexists. split; reflexivity. Qed.
(* the factor 2 of (g) is reached: "[ ? [ ? [ ? a ] ] ]" — three '[' tokens, six collections open at the scalar *)
Example C11_factor_two_is_tight :
  let text := [91; 32; 63; 32; 91; 32; 63; 32; 91; 32; 63; 32; 97; 32; 93; 32; 93; 32; 93]%N in
  tok_nest_max (fst (scan_str text)) = 3 /\ other_openers (fst (scan_str text)) = 0
  /\ max_nesting (evs_of (fst (run_str text))) = 6 /\ snd (run_str text) = PDone.
Proof. vm_compute. repeat split; reflexivity. Qed.
(* what [other_openers] counts: d block collection starts in "- " * d ++ "a", none in the qflow family *)
Example C11_other_openers_of_the_families :
  other_openers (seq_tokens_flat 5) = 5 /\ other_openers (qflow_tokens 5) = 0
  /\ tok_nest_max (seq_tokens_flat 5) = 5 /\ tok_nest_max (qflow_tokens 5) = 1.
Proof. vm_compute. repeat split; reflexivity. Qed.
(* the bounds are not far off: "- " * 255 ++ "[a: " * 255 ++ "b" — 255 block sequences, 255 '[' and 255 synthetic
   FlowMappingStart tokens open at once: token nesting 765 = BLOCK_NESTING_MAX + 2 * FLOW_LEVEL_MAX (proved bound: 1021), and the
   events nest 765 deep (proved bound: 2042) *)
Example C11_token_nesting_765_is_reached :
  let text := flat_map (fun _ => [45; 32]%N) (repeat tt 255) ++ flat_map (fun _ => [91; 97; 58; 32]%N) (repeat tt 255) ++ [98%N] in
  tok_nest_max (fst (scan_str text)) = 765 /\ max_nesting (evs_of (fst (run_str text))) = 765
  /\ 765 = N.to_nat Consts.BLOCK_NESTING_MAX + 2 * N.to_nat Consts.FLOW_LEVEL_MAX.
Proof. vm_compute. repeat split; reflexivity. Qed.
(* the scanner model does reject the 256th '[' (so the bound of (h) is the limit of the code, not an artefact) *)
Example C11_flow_limit_reached :
  tok_flow_max (fst (scan_str (repeat 91%N 255))) = 255
  /\ (exists m, snd (scan_str (repeat 91%N 256)) = SError 45 m).
Proof. vm_compute. split; [reflexivity|eexists; reflexivity]. Qed.
(* the oracle is not trivially true: on the token stream of the repaired family with the events the OLD parser delivered
   for it (three nested sequences, see the fixed entry of known_findings_c11.jsonl) verdict (g) is false *)
Example C11_oracle_rejects_the_old_behaviour :
  c11_oracle (qflow_tokens 3)
    [EStreamStart; EDocumentStart false;
     ESequenceStart 0%N None; EMappingStart 0%N None; null_ev; null_ev; EMappingEnd;
       ESequenceStart 0%N None; EMappingStart 0%N None; null_ev; null_ev; EMappingEnd;
         ESequenceStart 0%N None; EMappingStart 0%N None; null_ev; null_ev; EMappingEnd;
         ESequenceEnd; ESequenceEnd; ESequenceEnd; EDocumentEnd; EStreamEnd]
  = (true, false, true, true, true).
Proof. vm_compute. reflexivity. Qed.
(* the hypothesis of the recursion bound is satisfiable and the bound is not far off: "[ ? [ ? [ ? a ] ] ]" *)
Example C11_push_loader_on_text :
  let text := [91; 32; 63; 32; 91; 32; 63; 32; 91; 32; 63; 32; 97; 32; 93; 32; 93; 32; 93]%N in
  pl_document 100 (tl (evs_of (fst (run_str text)))) = PlDone [EStreamEnd] 7.
Proof. vm_compute. reflexivity. Qed.
(* aliases are outside (b2)'s bound: "- &a [x]" / "- &b [*a]" / "- &c [*b]" nests 2 deep and loads to a tree of depth 4 *)
Example C11_alias_deepens_the_tree :
  let text := [45; 32; 38; 97; 32; 91; 120; 93; 10;  45; 32; 38; 98; 32; 91; 42; 97; 93; 10;  45; 32; 38; 99; 32; 91; 42; 98; 93; 10]%N in
  snd (run_str text) = PDone /\ max_nesting (evs_of (fst (run_str text))) = 2
  /\ alias_free_events (evs_of (fst (run_str text))) = false
  /\ match load_events (evs_of (fst (run_str text))) l0 with LOk ld => map ydepth (l_docs ld) = [4] | LPanic _ => False end.
Proof. vm_compute. repeat split; reflexivity. Qed.
(* the family of (l) IS what the model pipeline makes of the alias-chain text (n = 3): "- &a [a]" / "- &b [*a]" / "- &c [*b]" *)
Example C11_alias_chain_3_is_the_text :
  let text := [45; 32; 38; 97; 32; 91; 97; 93; 10;  45; 32; 38; 98; 32; 91; 42; 97; 93; 10;  45; 32; 38; 99; 32; 91; 42; 98; 93; 10]%N in
  evs_of (fst (run_str text)) = alias_events 3 /\ snd (run_str text) = PDone
  /\ coll_starts (alias_events 3) = 4 /\ max_nesting (alias_events 3) = 2
  /\ match load_events (alias_events 3) l0 with LOk ld => map ydepth (l_docs ld) = [4] | LPanic _ => False end.
Proof. vm_compute. repeat split; reflexivity. Qed.
(* ... and the hypotheses of the tree bound are satisfiable *)
Example C11_tree_bound_applies :
  let text := [91; 32; 63; 32; 91; 32; 63; 32; 91; 32; 63; 32; 97; 32; 93; 32; 93; 32; 93]%N in
  snd (run_str text) = PDone /\ alias_free_events (evs_of (fst (run_str text))) = true
  /\ match load_events (evs_of (fst (run_str text))) l0 with LOk ld => map ydepth (l_docs ld) = [6] | LPanic _ => False end.
Proof. vm_compute. repeat split; reflexivity. Qed.
