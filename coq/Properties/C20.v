(* C20 — Mapping lookups, equality and hashing are mutually consistent.
   Model: Model/Hashing.v (derived Eq/Hash of the four node types and of Scalar, OrderedFloat, str/Vec/LinkedHashMap
   hashing, the four as_mapping_get_impl's, LinkedHashMap::get, the Index impls).  Proofs: Proofs/HashingProofs.v.
   `fin` is the finish function of the mapping's hasher: every statement holds for every hasher. *)
From Coq Require Import List NArith ZArith Bool.
Import ListNotations.
Require Import Resolver Loader Hashing HashingProofs.
Open Scope N_scope.

(* Nodes that compare equal make a Hasher receive exactly the same calls. *)
Theorem C20_eq_implies_hash : forall a b, hyaml_eqb a b = true -> hash_stream a = hash_stream b.
Proof. exact eq_implies_hash. Qed.
Print Assumptions C20_eq_implies_hash.

(* OrderedFloat: equal floats (NaN = NaN of any payload, -0.0 = +0.0) have the same hash bits. *)
Theorem C20_float_eq_implies_hash : forall a b, ofloat_eqb a b = true -> ofloat_hash_bits a = ofloat_hash_bits b.
Proof. exact ofloat_eq_hash. Qed.
Print Assumptions C20_float_eq_implies_hash.

(* The same on concrete Rust values: spans (MarkedYaml) and borrowed/owned strings (Cow vs String) take part
   neither in Eq nor in Hash; Eq and Hash of a value are those of its content. *)
Theorem C20_concrete_eq_implies_hash : forall a b, cnode_eqb a b = true -> chash a = chash b.
Proof. exact ceq_implies_chash. Qed.
Print Assumptions C20_concrete_eq_implies_hash.
Theorem C20_copies_equal_and_hash_equal : forall a b, erase a = erase b -> cnode_eqb a b = true /\ chash a = chash b.
Proof. exact same_content_eq_hash. Qed.
Print Assumptions C20_copies_equal_and_hash_equal.
Theorem C20_concrete_factor : forall a b, cnode_eqb a b = hyaml_eqb (erase a) (erase b) /\ chash a = hash_stream (erase a).
Proof. exact concrete_factor. Qed.
Print Assumptions C20_concrete_factor.

(* Every mapping m, every string k, every hasher, both flavours of as_mapping_get_impl (Yaml/YamlOwned: marked =
   false; YamlData/YamlDataOwned: marked = true): as_mapping_get, contains_mapping_key, node[k], (&mut node)[k]
   and mapping.get(&Value(String(k))) agree with the hash-free specification `spec_get`; indexing panics ("key not
   found") exactly when the others report absence. *)
Theorem C20_string_lookups_agree : forall fin marked k m,
  as_mapping_get fin marked k (HMap m) = spec_get k m /\
  contains_mapping_key fin marked k (HMap m) = is_some (spec_get k m) /\
  index_str fin marked k (HMap m) = idx_of (spec_get k m) p_key_not_found /\
  index_mut_str fin marked k (HMap m) = idx_of (spec_get k m) p_key_not_found /\
  get_explicit fin k (HMap m) = spec_get k m.
Proof. exact string_lookups_agree. Qed.
Print Assumptions C20_string_lookups_agree.

(* ... and `spec_get` finds an entry exactly when some key is the resolved string k; it returns the value of the
   first such entry. *)
Theorem C20_found_first_string_key : forall k m v,
  spec_get k m = Some v <->
  exists m1 m2, m = m1 ++ (HVal (HStr k), v) :: m2 /\ (forall k' v', In (k', v') m1 -> k' <> HVal (HStr k)).
Proof. exact spec_get_some. Qed.
Print Assumptions C20_found_first_string_key.
Theorem C20_found_iff_string_key : forall k m, is_some (spec_get k m) = true <-> exists v, In (HVal (HStr k), v) m.
Proof. exact spec_get_found_iff. Qed.
Print Assumptions C20_found_iff_string_key.

(* A key that is not a resolved string — Integer(1) for the probe "1", Null for "~", an unresolved
   Representation, … — is never found, whatever its text. *)
Theorem C20_non_string_key_never_found : forall fin marked k m,
  (forall c v, In (c, v) m -> as_str c <> Some k) ->
  as_mapping_get fin marked k (HMap m) = None /\ contains_mapping_key fin marked k (HMap m) = false /\
  index_str fin marked k (HMap m) = IPanic p_key_not_found /\ get_explicit fin k (HMap m) = None.
Proof. exact non_string_key_never_found. Qed.
Print Assumptions C20_non_string_key_never_found.

(* On anything that is not a mapping the lookups report absence and indexing panics ("not a mapping"). *)
Theorem C20_string_lookups_non_mapping : forall fin marked k y,
  is_map y = false ->
  as_mapping_get fin marked k y = None /\ contains_mapping_key fin marked k y = false /\
  index_str fin marked k y = IPanic p_not_a_mapping /\ index_mut_str fin marked k y = IPanic p_not_a_mapping /\
  get_explicit fin k y = None.
Proof. exact string_lookups_non_mapping. Qed.
Print Assumptions C20_string_lookups_non_mapping.

(* LinkedHashMap::get with any node q returns the value of the first key that compares equal to q. *)
Theorem C20_map_get_any_node : forall fin q m, map_get fin q m = find_key (hyaml_eqb q) m.
Proof. exact map_get_find. Qed.
Print Assumptions C20_map_get_any_node.

(* Integer indexing: on a sequence node[i] is as_sequence_get(i) and panics exactly when it is None; on a mapping
   node[i] is the lookup of the key Integer(i) (first such key), panics when there is none or when i does not fit
   an i64; on anything else it panics. *)
Theorem C20_integer_sequence : forall fin i l,
  as_sequence_get i (HSeq l) = nth_error l (N.to_nat i) /\
  index_usize fin i (HSeq l) = idx_of (nth_error l (N.to_nat i)) p_out_of_bounds.
Proof. exact integer_lookups_sequence. Qed.
Print Assumptions C20_integer_sequence.
Theorem C20_integer_mapping : forall fin i m,
  map_get fin (HVal (HInt (Z.of_N i))) m = spec_get_int (Z.of_N i) m /\
  index_usize fin i (HMap m) =
    (if i <? 9223372036854775808 then idx_of (spec_get_int (Z.of_N i) m) p_key_not_found else IPanic p_overflowing) /\
  as_sequence_get i (HMap m) = None.
Proof. exact integer_lookups_mapping. Qed.
Print Assumptions C20_integer_mapping.
Theorem C20_integer_key_found : forall i m v,
  spec_get_int i m = Some v <->
  exists m1 m2, m = m1 ++ (HVal (HInt i), v) :: m2 /\ (forall k' v', In (k', v') m1 -> k' <> HVal (HInt i)).
Proof. exact spec_get_int_some. Qed.
Print Assumptions C20_integer_key_found.
Theorem C20_integer_other : forall fin i y,
  match y with HSeq _ | HMap _ => False | _ => True end ->
  index_usize fin i y = IPanic p_not_map_nor_seq /\ as_sequence_get i y = None.
Proof. exact integer_lookups_other. Qed.
Print Assumptions C20_integer_other.

(* Keys that the loader model (Loader.yaml_eqb, floats as exact decimals) considers equal hash equally, for any
   reading of the decimals as doubles that respects the model's float equality. *)
Theorem C20_loader_keys : forall fbits,
  (forall x y, feqb x y = true -> ofloat_eqb (fbits x) (fbits y) = true) ->
  forall a b, yaml_eqb a b = true -> hash_stream (of_yaml fbits a) = hash_stream (of_yaml fbits b).
Proof. exact of_yaml_eq_hash. Qed.
Print Assumptions C20_loader_keys.

(* ------------------------------------------------------------------------------------------------ *)
(* Examples: the definitions compute, hypotheses are satisfiable, nothing is trivially true.          *)
(* ------------------------------------------------------------------------------------------------ *)
Definition s_a : str := [97]. Definition s_1 : str := [49]. Definition s_x : str := [120].
Definition fin_len (ops : list hash_op) : N := N.of_nat (length ops).     (* a (bad but legal) hasher *)
Definition fin_zero (ops : list hash_op) : N := 0.

(* {1: x, "1": a, a: 1, "1": never}: the probe "1" finds the string key, not Integer(1); node[1] finds Integer(1) *)
Definition m_ex : list (hyaml * hyaml) :=
  [(HVal (HInt 1), HVal (HStr s_x)); (HVal (HStr s_1), HVal (HStr s_a)); (HVal (HStr s_a), HVal (HInt 1));
   (HVal (HStr s_1), HBad)].
Example C20_ex_probe_1 : as_mapping_get fin_len false s_1 (HMap m_ex) = Some (HVal (HStr s_a))
  /\ as_mapping_get fin_zero true s_1 (HMap m_ex) = Some (HVal (HStr s_a))
  /\ index_usize fin_len 1 (HMap m_ex) = IOk (HVal (HStr s_x))
  /\ index_str fin_len false s_x (HMap m_ex) = IPanic p_key_not_found.
Proof. vm_compute. repeat split; reflexivity. Qed.
(* {1: x}: the text of the key equals the probe, the key is not a string: absent *)
Example C20_ex_int_key_vs_string_probe :
  as_mapping_get fin_len false s_1 (HMap [(HVal (HInt 1), HVal (HStr s_x))]) = None.
Proof. vm_compute. reflexivity. Qed.
(* the stream the recording hasher shows for the string "a": isize=1 isize=4 w=61 u8=0xff *)
Example C20_ex_stream : hash_stream (HVal (HStr s_a)) = [OIsize 1; OIsize 4; OWrite [97]; OU8 255].
Proof. vm_compute. reflexivity. Qed.
Example C20_ex_stream_utf8 : hash_stream (HVal (HStr [233; 8364; 128512])) =
  [OIsize 1; OIsize 4; OWrite [195; 169; 226; 130; 172; 240; 159; 152; 128]; OU8 255].
Proof. vm_compute. reflexivity. Qed.
(* -0.0 == +0.0 and both hash as +0.0; two NaNs with different payloads are equal and hash alike; 1.5 <> -1.5 *)
Example C20_ex_zero : ofloat_eqb 9223372036854775808 0 = true
  /\ hash_stream (HVal (HFloat 9223372036854775808)) = hash_stream (HVal (HFloat 0)).
Proof. vm_compute. split; reflexivity. Qed.
Example C20_ex_nan : ofloat_eqb 9221120237041090561 18444492273895866368 = true
  /\ ofloat_hash_bits 9221120237041090561 = ofloat_hash_bits 18444492273895866368.
Proof. vm_compute. split; reflexivity. Qed.
Example C20_ex_float_differs : ofloat_eqb 4609434218613702656 13832806255468478464 = false
  /\ ofloat_hash_bits 4609434218613702656 <> ofloat_hash_bits 13832806255468478464.
Proof. vm_compute. split; [reflexivity|discriminate]. Qed.
(* the converse of C20_eq_implies_hash is false (a LinkedHashMap is hashed without a length prefix): *)
Example C20_hash_collision_without_eq :
  let a := HMap [(HMap [(HBad, HBad)], HVal HNull); (HBad, HBad)] in
  let b := HMap [(HMap [(HBad, HBad); (HVal HNull, HBad)], HBad)] in
  hyaml_eqb a b = false /\ hash_stream a = hash_stream b.
Proof. vm_compute. split; reflexivity. Qed.
(* a marked, borrowed copy and an unmarked, owned copy of {a: [a]} *)
Example C20_ex_copies :
  let a := CMap 7 [(CVal 8 (CStr false s_a), CSeq 9 [CVal 10 (CStr false s_a)])] in
  let b := CMap 0 [(CVal 0 (CStr true s_a), CSeq 0 [CVal 0 (CStr true s_a)])] in
  cnode_eqb a b = true /\ chash a = chash b /\ a <> b.
Proof. vm_compute. repeat split; discriminate. Qed.
(* Eq is order-sensitive on mappings: {a: 1, 1: a} <> {1: a, a: 1} *)
Example C20_ex_order :
  hyaml_eqb (HMap [(HVal (HStr s_a), HVal (HInt 1)); (HVal (HInt 1), HVal (HStr s_a))])
            (HMap [(HVal (HInt 1), HVal (HStr s_a)); (HVal (HStr s_a), HVal (HInt 1))]) = false.
Proof. vm_compute. reflexivity. Qed.
(* the hypothesis of C20_loader_keys is satisfiable *)
Example C20_ex_fbits : exists fbits, forall x y, feqb x y = true -> ofloat_eqb (fbits x) (fbits y) = true.
Proof. exists (fun _ => 0). intros. reflexivity. Qed.
