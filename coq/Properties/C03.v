(* C03 — Block and flow structure parses to the node tree the document denotes.
   PARSER HALF (tokens -> events), for every layout the token grammar of Spec/TokenGrammar.v allows:
     scalars, aliases, left-out nodes, properties-only nodes, block sequences, indentless sequences, block mappings, flow
     sequences with wrapped and unwrapped single pairs (INCLUDING the pair whose key is left out, `[ ? ]` / `[ ? : x ]`, which
     the parser mishandled before /repo c5ad60c), flow mappings; Key / Value tokens present or absent, trailing FlowEntry,
     properties in either order; ARBITRARY spans; streams of any number of documents with %YAML / %TAG directives, '---' and any
     number of '...' markers, with or without keep_tags; the fuel of parse_tokens is shown to suffice.
   SCANNER HALF (text -> tokens) and the composition text -> events, for two sub-languages of TEXT: second and third part of
     this file.  FLOW (Spec/FlowText.v): single-line flow sequences and flow mappings of one-word plain scalars, single pairs
     `k: v` inside sequences, arbitrary nesting up to the scanner's flow-level limit, one separator layout.  BLOCK
     (Spec/BlockText.v): nested block sequences and block mappings of one-word plain scalars, any indentation widths, compact
     (`- - a`, `- k: v`) and next-line placement of nested collections, nesting up to the scanner's block-nesting limit.
     All other text layouts: differential runs.
   Only statements, each closed by [exact] of a lemma proved in Proofs/TokenGrammarProofs.v / TokenStreamProofs.v /
   ScanFlowProofs.v / ScanBlockProofs.v, with Print Assumptions. *)
From Coq Require Import List NArith Bool.
Import ListNotations.
Require Import Parser SBase SFetch Pipe Drivers TokenGrammar TokenGrammarProofs TokenStreamProofs FlowText ScanFlowProofs BlockText ScanBlockProofs.
Require Dispatch DispatchTie.

(* The statement for one document, parameterised by the well-formedness predicate on (explicit document start?, root). *)
Definition C03_tokens_statement (WF : bool -> ltree -> bool) : Prop :=
  forall t es ee (toks : list token) keep se fuel,
    WF es t = true ->                               (* the layout may stand where it stands *)
    bound [] env0 (pre_events t) = true ->          (* aliases refer to earlier anchors, tag handles are ! / !! / verbatim *)
    map snd toks = wrap es ee (tokens_of t) ->      (* any spans *)
    (length (wrap_events es (events_of t)) < fuel)%nat ->
    map fst (fst (parse_all fuel (init_p toks keep) se [])) = wrap_events es (events_of t) /\
    snd (parse_all fuel (init_p toks keep) se []) = PDone.

(* FULL statement: every layout YAML 1.2 allows at the token level (all nine constructors, every combination of
   present/absent Key and Value tokens the grammar allows, trailing FlowEntry, with or without '---' / '...').
   PROVED since /repo c5ad60c (flow_sequence_entry_mapping_key no longer skips a token after a left-out key); before, only the
   restriction "the key of an unwrapped single pair is not left out" was provable (former C03_tokens_partial). *)
Theorem C03_tokens_full : C03_tokens_statement wf_root.
Proof. exact parse_wrap. Qed.
Print Assumptions C03_tokens_full.

(* The continuation lemma behind it, for EVERY tree and every parser state whose top continuation is s:
   parsing tokens_of t ++ x :: rest from there emits the events of t (anchor ids continuing the parser's counter, aliases
   looked up in the parser's anchor table, tags resolved with the parser's tag table) and resumes in state s with x :: rest. *)
Theorem C03_node_continuation : forall t, NodeSpec t.
Proof. exact node_spec. Qed.
Print Assumptions C03_node_continuation.

(* WHOLE STREAMS: documents ds (each: directives, '---'?, root layout, number of '...' tokens), well-formed as a stream
   (docs_wf: directives and documents without '---' only at the start or after '...', directives need '---', at most one
   %YAML and no repeated handle per document, a left-out root needs '---'), aliases bound within their document and tag
   handles declared by the document's %TAG directives (or, with keep_tags, an earlier document's): the parser emits
   exactly stream_events: per document DocumentStart, the root's events with anchors local to the document and ids
   counting on through the stream, handles looked up in the document's directives first, DocumentEnd. *)
Theorem C03_stream : forall ds (toks : list token) keep se fuel,
    docs_wf true ds = true -> docs_bound keep [] 1%N ds = true ->
    map snd toks = stream_toks ds ->
    (length (stream_events keep ds) < fuel)%nat ->
    map fst (fst (parse_all fuel (init_p toks keep) se [])) = stream_events keep ds /\
    snd (parse_all fuel (init_p toks keep) se []) = PDone.
Proof. exact parse_stream. Qed.
Print Assumptions C03_stream.

(* parse_tokens (the entry point the correspondence runs execute on the implementation's real tokens) is this parser, and
   its fuel 4 * tokens + 40 always suffices (Weight: a well-formed layout has at most 4 events per token) *)
Theorem C03_parse_tokens : forall t es ee (toks : list token) keep se,
    wf_root es t = true -> bound [] env0 (pre_events t) = true ->
    map snd toks = wrap es ee (tokens_of t) ->
    map fst (fst (parse_tokens toks se keep)) = wrap_events es (events_of t) /\ snd (parse_tokens toks se keep) = PDone.
Proof. exact parse_tokens_wrap. Qed.
Print Assumptions C03_parse_tokens.

Theorem C03_parse_tokens_stream : forall ds (toks : list token) keep se,
    docs_wf true ds = true -> docs_bound keep [] 1%N ds = true ->
    map snd toks = stream_toks ds ->
    map fst (fst (parse_tokens toks se keep)) = stream_events keep ds /\ snd (parse_tokens toks se keep) = PDone.
Proof. exact parse_tokens_stream. Qed.
Print Assumptions C03_parse_tokens_stream.

(* the handle table the parser builds from a document's directives has the lookups of "own directives first, then the kept
   table" (doc_tags); number / bound depend on a table only through its lookups *)
Theorem C03_directive_table : forall dirs seen ver t t',
    dirs_ok seen ver dirs = true -> teq t t' -> teq (extend_tags t (dir_tags dirs)) (dir_tags dirs ++ t').
Proof. exact extend_tags_teq. Qed.
Print Assumptions C03_directive_table.

(* ---- the hypotheses are satisfiable and the statements are not vacuous ---- *)
Definition c03_pr (a : option str) (tg : option (str * str)) : props := {| pr_anchor := a; pr_tag := tg; pr_tag_first := true |}.
(* &a !t { k: [x, *a, ? y], : ~ }  inside a block sequence with a left-out entry and a block mapping whose value is an
   indentless sequence *)
Definition c03_example : ltree :=
  LBSeq no_props
    [ LNone;
      LFMap (c03_pr (Some [97%N]) (Some ([33%N], [116%N])))
        [ (true, LScalar no_props Plain [107%N],
           (true, LFSeq no_props [inl (LScalar no_props Plain [120%N]); inl (LAlias [97%N]);
                                  inr (LScalar no_props Plain [121%N], (false, LNone))] true));
          (false, LNone, (true, LNone)) ] false;
      LBMap no_props [ (true, LScalar no_props DoubleQuoted [], (true, LISeq no_props [LScalar no_props Literal [10%N]; LNone]));
                       (true, LNone, (false, LNone)) ] ].
Definition c03_spanned (l : list tok) : list token := map (fun k => (span_empty {| m_index := 0; m_line := 0; m_col := 0 |}, k)) l.
Example c03_example_wf : wf_root false c03_example = true /\ bound [] env0 (pre_events c03_example) = true.
Proof. vm_compute. split; reflexivity. Qed.
Example c03_example_events :
  map fst (fst (parse_tokens (c03_spanned (wrap false true (tokens_of c03_example))) SEnded false))
  = wrap_events false (events_of c03_example)
  /\ length (events_of c03_example) = 25%nat.
Proof. vm_compute. split; reflexivity. Qed.
(* the layouts the former partial theorem excluded: [ ? ]   [ ? : x ]   [ ? , ? : x , ]  *)
Definition c03_qmark : ltree :=
  LFSeq no_props [inr (LNone, (false, LNone)); inr (LNone, (true, LScalar no_props Plain [120%N]))] true.
Example c03_qmark_events :
  wf_root false c03_qmark = true
  /\ map snd (c03_spanned (tokens_of c03_qmark))
     = [TFlowSequenceStart; TKey; TFlowEntry; TKey; TValue; TScalar Plain [120%N]; TFlowEntry; TFlowSequenceEnd]
  /\ map fst (fst (parse_tokens (c03_spanned (wrap false false (tokens_of c03_qmark))) SEnded false))
     = [EStreamStart; EDocumentStart false; ESequenceStart 0 None;
        EMappingStart 0 None; empty_scalar; empty_scalar; EMappingEnd;
        EMappingStart 0 None; empty_scalar; EScalar [120%N] Plain 0 None; EMappingEnd;
        ESequenceEnd; EDocumentEnd; EStreamEnd].
Proof. vm_compute. repeat split; reflexivity. Qed.
(* wf is not "accept everything": a block sequence inside a flow sequence, a left-out flow-sequence entry *)
Example c03_wf_rejects :
  wf_root false (LFSeq no_props [inl (LBSeq no_props [])] false) = false /\
  wf_root false (LFSeq no_props [inl LNone] false) = false /\
  wf_root false LNone = false /\ wf_root true LNone = true.
Proof. vm_compute. repeat split; reflexivity. Qed.
(* a stream:  %YAML 1.2 / %TAG !e! x / --- &a !e!t v ... ... / *nothing* --- / --- *a is NOT bound (anchors are per document) *)
Definition c03_stream_example : list ldoc :=
  [ {| ld_dirs := [DVersion 1 2; DTag [33;101;33]%N [120%N]]; ld_start := true;
       ld_root := LScalar (c03_pr (Some [97%N]) (Some ([33;101;33]%N, [116%N]))) Plain [118%N]; ld_ends := 2 |};
    {| ld_dirs := []; ld_start := false; ld_root := LBSeq no_props [LNone]; ld_ends := 0 |};
    {| ld_dirs := []; ld_start := true; ld_root := LNone; ld_ends := 0 |} ].
Example c03_stream_example_ok :
  docs_wf true c03_stream_example = true /\ docs_bound false [] 1%N c03_stream_example = true
  /\ map fst (fst (parse_tokens (c03_spanned (stream_toks c03_stream_example)) SEnded false)) = stream_events false c03_stream_example
  /\ stream_events false c03_stream_example
     = [EStreamStart; EDocumentStart true; EScalar [118%N] Plain 1 (Some {| tg_handle := [120%N]; tg_suffix := [116%N] |}); EDocumentEnd;
        EDocumentStart false; ESequenceStart 0 None; empty_scalar; ESequenceEnd; EDocumentEnd;
        EDocumentStart true; empty_scalar; EDocumentEnd; EStreamEnd].
Proof. vm_compute. repeat split; reflexivity. Qed.
Example c03_stream_rejects :
  (* a document without '---' behind one that was not closed by '...'; a directive there; an alias to the previous document;
     a handle of the previous document without keep_tags, and with *)
  docs_wf true [ {| ld_dirs := []; ld_start := true; ld_root := LNone; ld_ends := 0 |};
                 {| ld_dirs := []; ld_start := false; ld_root := LAlias [97%N]; ld_ends := 0 |} ] = false
  /\ docs_wf true [ {| ld_dirs := []; ld_start := true; ld_root := LNone; ld_ends := 0 |};
                    {| ld_dirs := [DVersion 1 2]; ld_start := true; ld_root := LNone; ld_ends := 0 |} ] = false
  /\ docs_bound false [] 1%N [ {| ld_dirs := []; ld_start := true; ld_root := LScalar (c03_pr (Some [97%N]) None) Plain []; ld_ends := 0 |};
                               {| ld_dirs := []; ld_start := true; ld_root := LAlias [97%N]; ld_ends := 0 |} ] = false
  /\ (let two := [ {| ld_dirs := [DTag [33;101;33]%N [120%N]]; ld_start := true; ld_root := LNone; ld_ends := 1 |};
                   {| ld_dirs := []; ld_start := true; ld_root := LProps (c03_pr None (Some ([33;101;33]%N, [116%N]))); ld_ends := 0 |} ] in
      docs_bound false [] 1%N two = false /\ docs_bound true [] 1%N two = true).
Proof. vm_compute. repeat split; reflexivity. Qed.

(* ================================================================================================================= *)
(* SCANNER HALF, on text.  Spec/FlowText.v: fnode = word | [ entries ] | { pairs }, entry = node | word :_ node,
   pair = word :_ node, entries / pairs separated by ,_ (_ = one space), nothing behind an opening or before a closing
   bracket; a word is a non-empty string of characters that are no blank, break, NUL, flow indicator, quote or one of
   : # - ? * & ! | > % @ ` (wch); render f is the text, lt f the layout tree it denotes (a single pair is the implicit
   mapping LFMap [(Key k, Value v)] inside the sequence), doc_text f = render f followed by a line feed.
   Side condition of fwf (YAML 1.2.2 7.4.2, ns-s-implicit-yaml-key; enforced by the scanner since /repo 57aa316): the key
   of a single pair inside [ ] has at most 1024 characters (key_ok); the keys of { } pairs are not limited.  fgram is the
   grammar without that condition; C03_flow_long_key_rejected shows the condition is sharp.                             *)
(* ================================================================================================================= *)

(* THE SCANNER (scan_str = the scanner model over the string input with the fuel of the correspondence runs) on the text
   of ANY collection of the sub-language, nested at most 255 deep (FLOW_LEVEL_MAX; deeper is an error by design), of any
   length: it ends normally and delivers exactly StreamStart, the tokens of the layout tree, StreamEnd.  Covers: the
   simple-key stack across nested flow levels (a Key token is inserted in front of a key's scalar when its ':' arrives,
   wherever that scalar sits in the queue), the per-level implicit-mapping states of /repo ad74b3e (FlowMappingStart
   inserted before, FlowMappingEnd emitted at the comma or closing bracket that ends a single pair, also when the value of the
   pair is a nested flow mapping with its own commas: the repaired class comma-of-nested-flow-mapping-ends-implicit-pair), the root
   collection's own simple key going stale at the line break or by the 1024-character limit, the token queue being
   handed out only when no simple key is pending, the closing bracket matching the level it closes (check_flow_closer,
   /repo 88700d3), only a ':' met in state Possible starting an implicit mapping (/repo 597a354), no look-ahead for a
   tab behind ':' in flow context (/repo b87c12b), the 1024-character limit on the key of a single pair (/repo 57aa316). *)
Theorem C03_flow_text_tokens : forall f,
    fwf f = true -> is_coll f = true -> (depth f <= 255)%nat ->
    exists toks, scan_str (doc_text f) = (toks, SEnded) /\ map snd toks = wrap false false (tokens_of (lt f)).
Proof. exact scan_flow. Qed.
Print Assumptions C03_flow_text_tokens.

(* TEXT -> EVENTS: the whole model pipeline run_str (scanner, then parser, with the fuels the correspondence runs use) on
   such a text emits exactly the events of the tree the text denotes, and ends normally. *)
Theorem C03_flow_text_events : forall f,
    fwf f = true -> is_coll f = true -> (depth f <= 255)%nat ->
    map fst (fst (run_str (doc_text f))) = wrap_events false (events_of (lt f)) /\ snd (run_str (doc_text f)) = PDone.
Proof. exact run_flow. Qed.
Print Assumptions C03_flow_text_events.

(* the induction behind it: a node of the sub-language anywhere inside a flow collection, from ANY scanner state in flow
   context (any token queue, simple-key stack, implicit-mapping stack, position on the first line), behind 0 or more blanks *)
Theorem C03_flow_node : forall f, fwf f = true -> NodeScan f.
Proof. exact node_scan. Qed.
Print Assumptions C03_flow_node.

(* the key limit of fwf is sharp: a flow sequence whose FIRST entry is a single pair with a key (a word) of more than 1024
   characters -- whatever its value and the other entries are -- is a scan error at the ':' behind the key ("illegal
   placement of ':' indicator", site 98), after StreamStart alone has been delivered *)
Theorem C03_flow_long_key_rejected : forall k v es,
    word_ok k = true -> key_short k = false ->
    scan_str (doc_text (FS ((Some k, v) :: es)))
    = ([(span_empty {| m_index := 0; m_line := 1; m_col := 0 |}, TStreamStart)],
       SError 98 {| m_index := 1 + N.of_nat (length k); m_line := 1; m_col := 1 + N.of_nat (length k) |}).
Proof. exact scan_long_key. Qed.
Print Assumptions C03_flow_long_key_rejected.

(* [a, [b], k: {x: y, z: []}, {}] *)
Definition c03_flow_example : fnode :=
  FS [ (None, FW [97%N]); (None, FS [(None, FW [98%N])]);
       (Some [107%N], FM [([120%N], FW [121%N]); ([122%N], FS [])]); (None, FM []) ].
Example c03_flow_example_ok :
  fwf c03_flow_example = true /\ is_coll c03_flow_example = true /\ depth c03_flow_example = 3%nat
  /\ doc_text c03_flow_example
     = [91; 97; 44; 32; 91; 98; 93; 44; 32; 107; 58; 32; 123; 120; 58; 32; 121; 44; 32; 122; 58; 32; 91; 93; 125; 44; 32; 123; 125; 93; 10]%N
  /\ map snd (fst (scan_str (doc_text c03_flow_example)))
     = [TStreamStart; TFlowSequenceStart; TScalar Plain [97%N]; TFlowEntry;
        TFlowSequenceStart; TScalar Plain [98%N]; TFlowSequenceEnd; TFlowEntry;
        TFlowMappingStart; TKey; TScalar Plain [107%N]; TValue;
          TFlowMappingStart; TKey; TScalar Plain [120%N]; TValue; TScalar Plain [121%N]; TFlowEntry;
                             TKey; TScalar Plain [122%N]; TValue; TFlowSequenceStart; TFlowSequenceEnd; TFlowMappingEnd;
        TFlowMappingEnd; TFlowEntry;
        TFlowMappingStart; TFlowMappingEnd; TFlowSequenceEnd; TStreamEnd]
  /\ map fst (fst (run_str (doc_text c03_flow_example))) = wrap_events false (events_of (lt c03_flow_example))
  /\ length (events_of (lt c03_flow_example)) = 18%nat.
Proof. vm_compute. repeat split; reflexivity. Qed.
(* the key limit: 1024 characters pass, 1025 do not -- in a sequence; in a mapping they do; fgram does not look at it *)
Example c03_flow_key_limit :
  let k n := repeat 107%N n in
  fwf (FS [(Some (k 1024%nat), FW [118%N])]) = true /\ fwf (FS [(Some (k 1025%nat), FW [118%N])]) = false
  /\ fwf (FM [(k 1025%nat, FW [118%N])]) = true /\ fgram (FS [(Some (k 1025%nat), FW [118%N])]) = true
  /\ fwf (FS [(None, FM [(k 1025%nat, FS [(Some (k 1025%nat), FW [118%N])])])]) = false
  /\ snd (scan_str (doc_text (FS [(Some (k 1025%nat), FW [118%N])]))) = SError 98 {| m_index := 1026; m_line := 1; m_col := 1026 |}
  /\ snd (scan_str (doc_text (FS [(Some (k 1024%nat), FW [118%N])]))) = SEnded
  /\ snd (scan_str (doc_text (FM [(k 1025%nat, FW [118%N])]))) = SEnded.
Proof. vm_compute. repeat split; reflexivity. Qed.
(* the predicates are not "accept everything": an empty word, a word with a blank, a word starting like an indicator *)
Example c03_flow_rejects :
  fwf (FS [(None, FW [])]) = false /\ fwf (FS [(None, FW [97; 32; 98]%N)]) = false /\ fwf (FM [([45; 97]%N, FW [98%N])]) = false
  /\ is_coll (FW [97%N]) = false.
Proof. vm_compute. repeat split; reflexivity. Qed.

(* ================================================================================================================= *)
(* SCANNER HALF, BLOCK STRUCTURE, on text.  Spec/BlockText.v: bnode = word | sequence | mapping; an item of a sequence is
   "-" followed by its child, a pair of a mapping is  word ":"  followed by its child; a child is " word" on the same line,
   or a collection COMPACT on the same line (only behind "-": `- - a`, `- k: v`; it goes on 2 columns right of the "-"), or a
   collection BELOW, on the following lines, 1 + d columns (any d) right of the column of its parent, or -- only behind "key:" --
   an INDENTLESS sequence (BI) on the following lines at the column of the key itself (it denotes LISeq: BlockEntry tokens
   without BlockSequenceStart / BlockEnd); every element of a collection starts at the column of the collection; lines end with one line feed, indentation is spaces; the document is
   a collection at column 0.  brender col n is the text of n standing at column col, blt n the layout tree it denotes,
   bdoc_text n = brender 0 n.  Side condition of bwf (YAML 1.2.2, ns-s-implicit-yaml-key): a key has at most 1024 characters. *)
(* ================================================================================================================= *)

(* THE SCANNER on the text of ANY block collection of the sub-language nested at most 255 deep (BLOCK_NESTING_MAX, /repo
   99c201b; deeper is an error by design), of any size: it ends normally and delivers exactly StreamStart, the tokens of the
   layout tree, StreamEnd.  Covers: the indentation stack (roll_indent opening a collection at a deeper column with
   BlockSequenceStart / BlockMappingStart -- the latter inserted, with Key, in front of the key's scalar --, unroll_indent
   closing every collection right of the next line's column with one BlockEnd each, also several at once and at the end of
   the input; the one-column raise behind "-" NL and "key:" without a BlockEnd and its removal by the next roll_indent or
   by the plain-scalar scanner or -- in front of an indentless sequence -- by unroll_indent, without a BlockEnd; the "-" of an
   indentless sequence going on with the mapping's own level), the simple key of block context (possible from the key's word until its ':', REQUIRED for
   the further keys of a mapping, stale at the line break, limited to 1024 characters), the plain-scalar scanner reading
   on over the line break and the next line's indentation and stopping because that line is not indented more than the
   current collection, the token queue being handed out between the fetches (whenever no key is pending at its head; the
   BlockEnd tokens in front of a pending key are handed out before its ':' is fetched). *)
Theorem C03_block_text_tokens : forall n,
    bwf_root n = true -> (bdepth n <= 255)%nat ->
    exists toks, scan_str (bdoc_text n) = (toks, SEnded) /\ map snd toks = wrap false false (tokens_of (blt n)).
Proof. exact scan_block. Qed.
Print Assumptions C03_block_text_tokens.

(* TEXT -> EVENTS for the block sub-language: the whole model pipeline run_str emits exactly the events of the tree the text
   denotes, and ends normally. *)
Theorem C03_block_text_events : forall n,
    bwf_root n = true -> (bdepth n <= 255)%nat ->
    map fst (fst (run_str (bdoc_text n))) = wrap_events false (events_of (blt n)) /\ snd (run_str (bdoc_text n)) = PDone.
Proof. exact run_block. Qed.
Print Assumptions C03_block_text_events.

(* the induction behind it: a collection of the sub-language anywhere inside a block structure -- at any column right of the
   innermost open collection, reached on the line of its "-" or on the line below its "-" / "key:", under any stack of open
   collections, followed by any line that is not indented more -- is scanned to its tokens up to the BlockEnds that the next
   line (or the end of input) triggers (CollScan, scanned_b in Proofs/ScanBlockProofs.v) *)
Theorem C03_block_node : forall n inl, bwf inl n = true -> b_is_coll n = true -> CollScan n.
Proof. exact coll_scan_all. Qed.
Print Assumptions C03_block_node.

(* ... and an indentless sequence below a key: its items are scanned like the further items of a sequence at the key's column,
   under the mapping's own level; it owes no BlockEnd of its own (IScan) *)
Theorem C03_block_indentless_node : forall items, bwf false (BI items) = true -> IScan items.
Proof. exact iscan_all. Qed.
Print Assumptions C03_block_indentless_node.

(* - a
   - k: v
     m:
      - x
      - - p
        - q
   -
     - y
   -
       kk:
        z: w                                                                                                     *)
Definition c03_block_example : bnode :=
  BS None [ BW [97%N];
            BM None [ ([107%N], BW [118%N]);
                      ([109%N], BS (Some 0%nat) [BW [120%N]; BS None [BW [112%N]; BW [113%N]]]) ];
            BS (Some 1%nat) [BW [121%N]];
            BM (Some 3%nat) [ ([107; 107]%N, BM (Some 0%nat) [([122%N], BW [119%N])]) ] ].
Example c03_block_example_ok :
  bwf_root c03_block_example = true /\ bdepth c03_block_example = 4%nat
  /\ bdoc_text c03_block_example
     = [45;32;97;10; 45;32;107;58;32;118;10; 32;32;109;58;10; 32;32;32;45;32;120;10; 32;32;32;45;32;45;32;112;10;
        32;32;32;32;32;45;32;113;10; 45;10; 32;32;45;32;121;10; 45;10; 32;32;32;32;107;107;58;10; 32;32;32;32;32;122;58;32;119;10]%N
  /\ map snd (fst (scan_str (bdoc_text c03_block_example)))
     = [TStreamStart; TBlockSequenceStart; TBlockEntry; TScalar Plain [97%N];
        TBlockEntry; TBlockMappingStart; TKey; TScalar Plain [107%N]; TValue; TScalar Plain [118%N];
          TKey; TScalar Plain [109%N]; TValue; TBlockSequenceStart; TBlockEntry; TScalar Plain [120%N];
            TBlockEntry; TBlockSequenceStart; TBlockEntry; TScalar Plain [112%N]; TBlockEntry; TScalar Plain [113%N];
            TBlockEnd; TBlockEnd; TBlockEnd;
        TBlockEntry; TBlockSequenceStart; TBlockEntry; TScalar Plain [121%N]; TBlockEnd;
        TBlockEntry; TBlockMappingStart; TKey; TScalar Plain [107; 107]%N; TValue;
          TBlockMappingStart; TKey; TScalar Plain [122%N]; TValue; TScalar Plain [119%N]; TBlockEnd; TBlockEnd;
        TBlockEnd; TStreamEnd]
  /\ map fst (fst (run_str (bdoc_text c03_block_example))) = wrap_events false (events_of (blt c03_block_example))
  /\ length (events_of (blt c03_block_example)) = 25%nat.
Proof. vm_compute. repeat split; reflexivity. Qed.
(* k:
   - a
   - b: c
     d:
     - e
   - - x
   m: n                  indentless sequences: below "k:" at column 0 and below "d:" at column 2 *)
Definition c03_indentless_example : bnode :=
  BM None [ ([107%N], BI [ BW [97%N];
                           BM None [([98%N], BW [99%N]); ([100%N], BI [BW [101%N]])];
                           BS None [BW [120%N]] ]);
            ([109%N], BW [110%N]) ].
Example c03_indentless_example_ok :
  bwf_root c03_indentless_example = true
  /\ bdoc_text c03_indentless_example
     = [107;58;10; 45;32;97;10; 45;32;98;58;32;99;10; 32;32;100;58;10; 32;32;45;32;101;10; 45;32;45;32;120;10; 109;58;32;110;10]%N
  /\ map snd (fst (scan_str (bdoc_text c03_indentless_example)))
     = [TStreamStart; TBlockMappingStart; TKey; TScalar Plain [107%N]; TValue;
          TBlockEntry; TScalar Plain [97%N];
          TBlockEntry; TBlockMappingStart; TKey; TScalar Plain [98%N]; TValue; TScalar Plain [99%N];
                         TKey; TScalar Plain [100%N]; TValue; TBlockEntry; TScalar Plain [101%N]; TBlockEnd;
          TBlockEntry; TBlockSequenceStart; TBlockEntry; TScalar Plain [120%N]; TBlockEnd;
        TKey; TScalar Plain [109%N]; TValue; TScalar Plain [110%N]; TBlockEnd; TStreamEnd]
  /\ map snd (fst (scan_str (bdoc_text c03_indentless_example))) = wrap false false (tokens_of (blt c03_indentless_example))
  /\ map fst (fst (run_str (bdoc_text c03_indentless_example))) = wrap_events false (events_of (blt c03_indentless_example)).
Proof. vm_compute. repeat split; reflexivity. Qed.
(* the predicates are not "accept everything": a scalar at the root, an empty sequence, a compact collection as the value of
   a key, an indentless sequence at the root or as an item, a key of 1025 characters (1024 pass) *)
Example c03_block_rejects :
  bwf_root (BW [97%N]) = false /\ bwf_root (BS None []) = false
  /\ bwf_root (BM None [([107%N], BS None [BW [97%N]])]) = false /\ bwf_root (BM None [([107%N], BS (Some 0%nat) [BW [97%N]])]) = true
  /\ bwf_root (BI [BW [97%N]]) = false /\ bwf_root (BS None [BI [BW [97%N]]]) = false /\ bwf_root (BM None [([107%N], BI [BW [97%N]])]) = true
  /\ bwf_root (BM None [(repeat 107%N 1025, BW [97%N])]) = false /\ bwf_root (BM None [(repeat 107%N 1024, BW [97%N])]) = true.
Proof. vm_compute. repeat split; reflexivity. Qed.

(* TIE BY TRANSLATION.  The scanner's dispatcher - which fetch function runs for which next two characters, flow level and
   adjacent-value position - is the one of the source: Gen/Dispatch.v is regenerated on every run from the `match c` of
   Scanner::fetch_next_token (patterns, guards, actions of the arms), Proofs/DispatchTie.v shows that the model's
   fetch_next_token is its prologue followed by exactly that decision (fetch_next_token_shape, by conversion) and that
   the model's if-chain runs the function the generated table names, for EVERY pair of characters and every state.  The
   proof splits on the character, not on the order of the arms: re-ordering disjoint arms in the source keeps it valid,
   a changed pattern, guard or action breaks it. *)
Theorem C03_scanner_dispatcher_is_source :
  forall (I : Type) (ops : SBase.InputOps I) (F : nat) (c nc : N) (s : SBase.sc I),
  DispatchTie.dispatch_tail ops F c nc s =
  DispatchTie.run_dact ops F
    (Dispatch.dispatch c nc (0 <? SBase.sc_flow_level s)%N (m_index (SBase.sc_mark s) =? SBase.sc_adjacent s)%N) s.
Proof. exact (@DispatchTie.tbl_dispatch). Qed.
Print Assumptions C03_scanner_dispatcher_is_source.
