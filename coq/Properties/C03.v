(* C03 — Block and flow structure parses to the node tree the document denotes: THE PARSER HALF.
   For every layout tree t of the token grammar (Spec/TokenGrammar.v: scalars, aliases, left-out nodes, properties-only
   nodes, block sequences, indentless sequences, block mappings, flow sequences with wrapped and unwrapped single pairs,
   flow mappings; Key / Value tokens present or absent, trailing FlowEntry, properties in either order) the parser model
   run on the tokens wrap es ee (tokens_of t), with ARBITRARY spans, emits exactly wrap_events es (events_of t) and ends
   normally.  The scanner half (text -> tokens) is covered by the differential runs of vlib/p_c03.py.
   Only statements, each closed by [exact] of a lemma proved in Proofs/TokenGrammarProofs.v, with Print Assumptions. *)
From Coq Require Import List NArith Bool.
Import ListNotations.
Require Import Parser SBase SFetch Pipe Drivers TokenGrammar TokenGrammarProofs.

(* The statement, parameterised by the well-formedness predicate on (explicit document start?, root). *)
Definition C03_tokens_statement (WF : bool -> ltree -> bool) : Prop :=
  forall t es ee (toks : list token) keep se fuel,
    WF es t = true ->                               (* the layout may stand where it stands *)
    bound [] env0 (pre_events t) = true ->          (* aliases refer to earlier anchors, tag handles are ! / !! / verbatim *)
    map snd toks = wrap es ee (tokens_of t) ->      (* any spans *)
    (length (wrap_events es (events_of t)) < fuel)%nat ->
    map fst (fst (parse_all fuel (init_p toks keep) se [])) = wrap_events es (events_of t) /\
    snd (parse_all fuel (init_p toks keep) se []) = PDone.

(* FULL statement: every layout YAML 1.2 admits.  NOT proved: it is false for the unchanged parser on
   LFSeq _ [inr (LNone, _)] _  (`[ ? ]`, `[ ? : x ]`; recorded finding explicit-key-indicator-without-key-in-flow-sequence). *)
Definition C03_tokens_full : Prop := C03_tokens_statement wf_root_full.

(* PROVED: all nine constructors (LScalar, LAlias, LNone in every slot that allows it, LProps, LBSeq, LISeq, LBMap, LFSeq,
   LFMap), every combination of present/absent Key and Value tokens that the grammar allows, trailing FlowEntry, one
   document with or without '---' / '...'.  The only difference to C03_tokens_full: in an UNWRAPPED single pair of a flow
   sequence (inr (k, (vt, v))) the key k is not LNone.  Not covered: several documents per stream, %YAML / %TAG directives
   (p_tags = []), and the bound "fuel = 4 * tokens + 40 suffices" of parse_tokens (fuel is a hypothesis here). *)
Theorem C03_tokens_partial : C03_tokens_statement wf_root.
Proof. exact parse_wrap. Qed.
Print Assumptions C03_tokens_partial.

(* The continuation lemma behind it, for EVERY tree and every parser state whose top continuation is s:
   parsing tokens_of t ++ x :: rest from there emits the events of t (anchor ids continuing the parser's counter, aliases
   looked up in the parser's anchor table, tags resolved with the parser's tag table) and resumes in state s with x :: rest. *)
Theorem C03_node_continuation : forall t, NodeSpec t.
Proof. exact node_spec. Qed.
Print Assumptions C03_node_continuation.

(* parse_tokens (the entry point the correspondence runs execute on the implementation's real tokens) is this parser *)
Theorem C03_parse_tokens : forall t es ee (toks : list token) keep se,
    wf_root es t = true -> bound [] env0 (pre_events t) = true ->
    map snd toks = wrap es ee (tokens_of t) ->
    (length (wrap_events es (events_of t)) < 4 * length toks + 40)%nat ->
    map fst (fst (parse_tokens toks se keep)) = wrap_events es (events_of t) /\ snd (parse_tokens toks se keep) = PDone.
Proof. exact (fun t es ee toks keep se Hw Hb Hm Hf => parse_wrap t es ee toks keep se _ Hw Hb Hm Hf). Qed.
Print Assumptions C03_parse_tokens.

(* ---- the hypotheses are satisfiable and the statement is not vacuous ---- *)
Definition c03_pr (a : option str) (tg : option (str * str)) : props := {| pr_anchor := a; pr_tag := tg; pr_tag_first := true |}.
(* &a !t { k: [x, *a, ? y], : ~ }  inside a block sequence with a left-out entry and a block mapping whose value is an
   indentless sequence *)
Definition c03_example : ltree :=
  LBSeq no_props
    [ LNone;
      LFMap (c03_pr (Some [97%N]) (Some ([33%N], [116%N])))
        [ (true, LScalar no_props Plain [107%N],
           (true, LFSeq no_props [inl (LScalar no_props Plain [120%N]); inl (LAlias [97%N]);
                                  inr (LScalar no_props Plain [121%N], (false, LNone))] true));
          (false, LNone, (true, LNone)) ] false;
      LBMap no_props [ (true, LScalar no_props DoubleQuoted [], (true, LISeq no_props [LScalar no_props Literal [10%N]; LNone]));
                       (true, LNone, (false, LNone)) ] ].
Example c03_example_wf : wf_root false c03_example = true /\ bound [] env0 (pre_events c03_example) = true.
Proof. vm_compute. split; reflexivity. Qed.
Example c03_example_events :
  map fst (fst (parse_tokens (map (fun k => (span_empty {| m_index := 0; m_line := 0; m_col := 0 |}, k)) (wrap false true (tokens_of c03_example))) SEnded false))
  = wrap_events false (events_of c03_example)
  /\ length (events_of c03_example) = 25%nat.
Proof. vm_compute. split; reflexivity. Qed.
(* wf is not "accept everything": a block sequence inside a flow sequence, a left-out flow-sequence entry *)
Example c03_wf_rejects :
  wf_root false (LFSeq no_props [inl (LBSeq no_props [])] false) = false /\
  wf_root false (LFSeq no_props [inl LNone] false) = false /\
  wf_root false LNone = false /\ wf_root true LNone = true.
Proof. vm_compute. repeat split; reflexivity. Qed.
