(* C03 - placeholder, replaced below *)
From Coq Require Import List NArith Bool.
Import ListNotations.
Require Import Parser TokenGrammar.
Theorem C03_placeholder : tokens_of LNone = [].
Proof. exact eq_refl. Qed.
Print Assumptions C03_placeholder.
