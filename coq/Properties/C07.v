(* C07 — Loaded documents mirror the event stream exactly.
   Model: Model/Loader.v (YamlLoader::on_event / insert_new_node over explicit stacks; tied to the code by the
   correspondence runs of ./check C07).  Spec: Spec/BuildDocs.v (event trees, value of a tree by structural
   recursion, parse_events : sentence -> trees).  Grammar: Spec/Grammar.v (the acceptor of C02).
   Only statements, each closed by [exact] of a lemma proved elsewhere, with Print Assumptions. *)
From Coq Require Import List NArith ZArith Bool.
Import ListNotations.
Require Import Parser Resolver Loader Grammar BuildDocs LinkedMap InsertTheory LoaderProofs SpecMapProofs.
Require Import SBase SFetch Pipe PipeL C02run LoadPipeline C07text.

(* The generalised stack lemma: in ANY loader state and in front of ANY continuation, the events of a whole
   tree act as one insertion of the tree's specified value (anchors registered as the spec says). *)
Theorem C07_tree : forall t k d s ks m,
  load_events (events_of t ++ k) (Build_loader d s ks m) =
  lbind (place (Build_loader d s ks (snd (build m t))) (fst (build m t)) (aid_of t)) (load_events k).
Proof. exact load_tree_insert. Qed.
Print Assumptions C07_tree.

(* Refinement, for ALL document lists: one node per document, in stream order, each the specified value;
   the stacks are empty again; no panic. *)
Theorem C07_refinement : forall ds,
  load_events (stream_of ds) l0 =
  LOk (Build_loader (rev (fst (build_docs [] ds))) [] [] (snd (build_docs [] ds))).
Proof. exact loader_refines_spec. Qed.
Print Assumptions C07_refinement.

(* Every event list the grammar acceptor accepts is the flattening of a list of trees, which parse_events
   computes; and parse_events accepts nothing else. *)
Theorem C07_sentences_are_trees : forall evs,
  grun GInit evs = Some GEnd -> exists ds, parse_events evs = Some ds /\ evs = stream_of ds.
Proof. exact accepted_decomposes. Qed.
Print Assumptions C07_sentences_are_trees.

Theorem C07_parse_events_exact : forall evs,
  grun GInit evs = Some GEnd <-> exists ds, parse_events evs = Some ds.
Proof. exact accepted_iff_parses. Qed.
Print Assumptions C07_parse_events_exact.

(* Hence on every accepted event list the loader never panics and returns exactly the specified documents,
   which the executable oracle spec_of_events computes. *)
Theorem C07_accepted_loads_spec : forall evs,
  grun GInit evs = Some GEnd ->
  exists ds ld, parse_events evs = Some ds /\ evs = stream_of ds /\
                load_events evs l0 = LOk ld /\ rev (l_docs ld) = spec_load ds /\ l_stack ld = [] /\ l_keys ld = [].
Proof. exact accepted_loads_spec. Qed.
Print Assumptions C07_accepted_loads_spec.

Theorem C07_never_panics : forall evs n, grun GInit evs = Some GEnd -> load_events evs l0 <> LPanic n.
Proof. exact accepted_never_panics. Qed.
Print Assumptions C07_never_panics.

Theorem C07_oracle_agrees : forall evs,
  grun GInit evs = Some GEnd ->
  exists ld, load_events evs l0 = LOk ld /\ spec_of_events evs = Some (rev (l_docs ld)).
Proof. exact oracle_agrees. Qed.
Print Assumptions C07_oracle_agrees.

(* Composition with C02, for ANY token stream: when Parser::load ends without error, the loader returns the
   specified documents of the delivered events' trees (a load fails exactly when the parser reports an error:
   the loader itself has no failure mode on a sentence). *)
Theorem C07_pipeline : forall toks keep se fuel evs,
  parse_load fuel (init_parser toks keep) se [] = (evs, PDone) ->
  exists ds ld, parse_events evs = Some ds /\ evs = stream_of ds /\
                load_events evs l0 = LOk ld /\ rev (l_docs ld) = spec_load ds.
Proof. exact pipeline_load_spec. Qed.
Print Assumptions C07_pipeline.

(* The mapping clause, as lookups: a mapping node is the collection of its built entries; its keys are
   pairwise distinct; it has exactly the source keys; the LATER value of a repeated key wins; without
   repeated keys it is the entry list itself, in document order. *)
Theorem C07_mapping_is_collect : forall a tg es m,
  fst (build m (TMap a tg es)) = YMap (lm_collect yaml_eqb (fst (build_entries m es))).
Proof. exact build_map_collect. Qed.
Print Assumptions C07_mapping_is_collect.

Theorem C07_keys_distinct : forall l, lm_nodupb yaml_eqb (lm_collect yaml_eqb l) = true.
Proof. exact collected_keys_distinct. Qed.
Print Assumptions C07_keys_distinct.

Theorem C07_keys_exact : forall l k, lm_mem yaml_eqb k (lm_collect yaml_eqb l) = lm_mem yaml_eqb k l.
Proof. exact collected_keys_are_source_keys. Qed.
Print Assumptions C07_keys_exact.

Theorem C07_later_value_wins : forall l k, lm_get yaml_eqb k (lm_collect yaml_eqb l) = lm_get yaml_eqb k (rev l).
Proof. exact later_value_wins. Qed.
Print Assumptions C07_later_value_wins.

Theorem C07_document_order : forall l, lm_nodupb yaml_eqb l = true -> lm_collect yaml_eqb l = l.
Proof. exact distinct_keys_kept_in_order. Qed.
Print Assumptions C07_document_order.

(* ---- examples: the hypotheses are satisfiable, the oracle is not trivial ---- *)
Definition sc (s : str) : etree := TScalar s Plain 0 None.
Definition sca (a : N) (s : str) : etree := TScalar s Plain a None.
(* &1 [ *1, &2 x, *2, { k: *2, k: 1, 0x1: b, 1: c } ]  then a second document  *1 *)
Definition ex_doc : etree :=
  TSeq 1 None [TAlias 1; sca 2 [120]%N; TAlias 2;
               TMap 0 None [(sc [107]%N, TAlias 2); (sc [107]%N, sc [49]%N); (sc [48;120;49]%N, sc [98]%N); (sc [49]%N, sc [99]%N)]].
Definition ex_docs : list doc := [(false, ex_doc); (true, TAlias 1)].

Example C07_example_value :
  spec_load ex_docs =
  let x := YVal (SStr [120]%N) in
  let d := YSeq [YBad; x; x; YMap [(YVal (SStr [107]%N), YVal (SInt 1)); (YVal (SInt 1), YVal (SStr [99]%N))]] in
  [d; d].
Proof. vm_compute. reflexivity. Qed.

Example C07_example_loader :
  match load_events (stream_of ex_docs) l0 with LOk ld => rev (l_docs ld) = spec_load ex_docs | LPanic _ => False end.
Proof. vm_compute. reflexivity. Qed.

Example C07_example_accepted : grun GInit (stream_of ex_docs) = Some GEnd /\ parse_events (stream_of ex_docs) = Some ex_docs.
Proof. vm_compute. split; reflexivity. Qed.

(* an alias inside the collection that carries the anchor refers to a still-open node: BadValue *)
Example C07_example_open_alias : spec_load [(false, TMap 1 None [(sc [97]%N, TAlias 1)])] = [YMap [(YVal (SStr [97]%N), YBad)]].
Proof. vm_compute. reflexivity. Qed.

(* the oracle rejects what is not a sentence, and distinguishes orders *)
Example C07_oracle_rejects : spec_of_events [EStreamStart; EDocumentStart false; ESequenceStart 0 None; EDocumentEnd; EStreamEnd] = None.
Proof. vm_compute. reflexivity. Qed.
Example C07_oracle_order :
  spec_load [(false, TSeq 0 None [sc [97]%N; sc [98]%N])] <> spec_load [(false, TSeq 0 None [sc [98]%N; sc [97]%N])].
Proof. vm_compute. discriminate. Qed.

(* TEXT LEVEL: for EVERY text, whenever the whole model pipeline (scanner, Parser::load with its per-document anchor
   clearing, loader) returns documents, they are exactly the specified documents of the trees the delivered event sentence
   decomposes into. *)
Theorem C07_text_load : forall (s : list N) docs,
  run_load s = LDocs docs ->
  exists evs ds, parse_events evs = Some ds /\ evs = stream_of ds /\ docs = spec_load ds.
Proof. exact text_load_spec. Qed.
Print Assumptions C07_text_load.
