(* C01 — Parsing always terminates: no panic, abort or hang on any input.
   What is a theorem today (C01_partial): the parser layer, for every token stream.  The scanner-side families
   (lookahead discipline on buffered inputs, token-queue invariants, termination/linear fuel) are exercised by
   the correspondence run with the model's explicit Panic / OutOfFuel outcomes as monitors; see DESIGN.md. *)
From Coq Require Import List NArith Bool.
Import ListNotations.
Require Import Parser SBase SFetch Pipe Grammar C02base C02tail C02run.

(* The pull parser never panics (pop_state on an empty stack, fetch_token without peek, unreachable! arms,
   State::End in the state machine), whatever the token stream and however the scanner ended: a panic verdict
   of a whole run can only be the scanner's own. *)
Theorem C01_parser_never_panics : forall toks keep se fuel n,
  snd (parse_all fuel (init_parser toks keep) se []) = PPanic n -> se = SPanic n.
Proof.
  intros toks keep se fuel n H.
  pose proof (parser_run_wellformed toks keep se fuel) as [_ E]. cbn zeta in E. rewrite H in E. exact E.
Qed.
Print Assumptions C01_parser_never_panics.

(* one step: no panic from any state satisfying the invariant *)
Theorem C01_step_never_panics : forall p g n, Inv p g -> p_state p <> SEnd -> state_machine p <> Parser.Panic n.
Proof.
  intros p g n HI HE HP. pose proof (state_machine_post p g HI HE) as H. rewrite HP in H. exact H.
Qed.
Print Assumptions C01_step_never_panics.
