(* C01 — Parsing always terminates: no panic, abort or hang on any input.
   Theorems today: (1) the parser layer never panics, for every token stream; (2) the WHOLE scanner + parser
   pipeline over a buffered input of ANY capacity >= 8 never panics, for every input string: no lookahead-contract
   violation (peek/skip beyond the buffer, lookahead beyond the capacity, push into a full buffer, the
   assert!(buflen >= k) of the Input default methods) and none of the skeleton panics (empty simple-key / indent
   stacks, token insertion out of range, token-number underflow, debug_assert!(is_break), u32 overflow of the version
   number).  (3) BOUNDED WORK: over the string input, for every input, no loop of the scanner exhausts the fuel
   F = 2 * |input| + 10 it is given, the scanner delivers at most 4F + 20 tokens and the parser ends within
   4 * (4F + 20) + 40 steps - the pipeline run_str never ends in OutOfFuel; every fetch_next_token step is the
   stream-start step, or consumes at least one character, or is the final fetch_stream_end.  (4) BOUNDED WORK OVER THE
   BUFFERED INPUT of any capacity >= 8 (BufferedInput, capacity 16, is the back-end behind Parser::new_from_iter and
   Yaml::load_from_str): with the SAME fuel formulas run_buf never ends in OutOfFuel either, and always ends properly
   (fuel transfer from the string instance through a strengthened relational calculus: Proofs/ScanFuelBuf*.v).
   Not theorems: the byte-level StrInput overrides (tied by the back-end comparison C10). *)
From Coq Require Import List NArith Bool.
Import ListNotations.
Require Import Parser SBase SFetch Pipe SBuf Grammar C02base C02tail C02run ScanWP ScanSafeTop ScanFuel ScanFuelFetch ScanFuelTop ScanFuelAll ScanSafeStrTop ScanFuelBufAll.

(* The pull parser never panics (pop_state on an empty stack, fetch_token without peek, unreachable! arms,
   State::End in the state machine), whatever the token stream and however the scanner ended: a panic verdict
   of a whole run can only be the scanner's own. *)
Theorem C01_parser_never_panics : forall toks keep se fuel n,
  snd (parse_all fuel (init_parser toks keep) se []) = PPanic n -> se = SPanic n.
Proof.
  intros toks keep se fuel n H.
  pose proof (parser_run_wellformed toks keep se fuel) as [_ E]. cbn zeta in E. rewrite H in E. exact E.
Qed.
Print Assumptions C01_parser_never_panics.

(* one step: no panic from any state satisfying the invariant *)
Theorem C01_step_never_panics : forall p g n, Inv p g -> p_state p <> SEnd -> state_machine p <> Parser.Panic n.
Proof.
  intros p g n HI HE HP. pose proof (state_machine_post p g HI HE) as H. rewrite HP in H. exact H.
Qed.
Print Assumptions C01_step_never_panics.

(* The scanner model on a buffered input of any capacity >= 8 never panics, whatever the input and the fuel. *)
Theorem C01_scanner_never_panics_buffered : forall cap, (8 <= cap)%nat -> forall F fuel input n,
  snd (scan_all (buf_ops cap) F fuel (init_sc {| b_buf := []; b_rest := input |}) []) <> SPanic n.
Proof. exact scanner_never_panics_buffered. Qed.
Print Assumptions C01_scanner_never_panics_buffered.

(* ... and neither does the whole pipeline (scanner, then parser on its tokens). *)
Theorem C01_pipeline_never_panics_buffered : forall cap, (8 <= cap)%nat -> forall input n,
  snd (run_buf cap input) <> PPanic n.
Proof. exact pipeline_never_panics_buffered. Qed.
Print Assumptions C01_pipeline_never_panics_buffered.

(* ---- bounded work (string input) ---- *)
(* One dispatcher step from any state whose remaining input fits the fuel: it does not run out of fuel, the remaining
   input does not grow, and it is (a) the stream-start step, or (b) it consumed at least one character and the
   potential phi (tokens handed out + tokens queued + block ends still owed) grew by at most 5, or (c) it was
   fetch_stream_end, after which no simple key is possible and the queue ends with StreamEnd. *)
Theorem C01_fetch_next_token_progress : forall (F : nat) (s : fst_), fuel_ok F s ->
  fwp (fetch_next_token str_ops F) (fnt_post s) s.
Proof. exact fetch_next_token_progress. Qed.
Print Assumptions C01_fetch_next_token_progress.

(* The scanner, given the fuels run_str gives it (linear in the input length), never ends in SFuel. *)
Theorem C01_scanner_terminates_linear : forall orig : list chr,
  let F := (2 * length orig + 10)%nat in
  snd (scan_all str_ops F (4 * F + 20) (init_sc {| si_chars := orig; si_look := 0 |}) []) <> SFuel.
Proof. exact scanner_never_out_of_fuel. Qed.
Print Assumptions C01_scanner_terminates_linear.

(* The parser on ANY token list ends within 4 * tokens + 2 steps. *)
Theorem C01_parser_terminates_linear : forall toks se keep fuel, (4 * length toks + 2 <= fuel)%nat -> se <> SFuel ->
  snd (parse_all fuel {| p_toks := toks; p_token := None; p_states := []; p_state := SStreamStart;
                         p_anchors := []; p_anchor_id := 1%N; p_tags := []; p_keep_tags := keep |} se []) <> PFuel.
Proof. exact parse_tokens_fuel_suffices. Qed.
Print Assumptions C01_parser_terminates_linear.

(* The whole pipeline over the string input never runs out of its linear fuel: every run ends in PDone, a scan error,
   a parse error (or PPanic, excluded for the buffered instance above and for the string instance by the tie). *)
Theorem C01_pipeline_terminates_linear : forall orig : list N, snd (run_str orig) <> PFuel.
Proof. exact pipeline_never_out_of_fuel. Qed.
Print Assumptions C01_pipeline_terminates_linear.

(* ---- the string input never panics either (port of the joint proof to str_ops) ---- *)
Theorem C01_scanner_never_panics_str : forall F fuel input n,
  snd (scan_all str_ops F fuel (init_sc {| si_chars := input; si_look := 0 |}) []) <> SPanic n.
Proof. exact scanner_never_panics_str. Qed.
Print Assumptions C01_scanner_never_panics_str.

Theorem C01_pipeline_never_panics_str : forall input n, snd (run_str input) <> PPanic n.
Proof. exact pipeline_never_panics_str. Qed.
Print Assumptions C01_pipeline_never_panics_str.

(* TOTAL CORRECTNESS of the model pipeline over the string input: for EVERY input the run, given fuel linear in the
   input length, ends in a complete event stream (PDone) or in a first scan / parse error - never in a panic, never
   by exhausting its fuel. *)
Theorem C01_pipeline_ends_properly : forall orig : list N, proper_pend (snd (run_str orig)).
Proof. exact pipeline_ends_properly. Qed.
Print Assumptions C01_pipeline_ends_properly.

(* ---- bounded work over the BUFFERED input (any capacity >= 8) ---- *)
(* The buffered scanner, given the fuels run_buf gives it (linear in the input length), never ends in SFuel. *)
Theorem C01_scanner_terminates_linear_buffered : forall cap (orig : list chr), (8 <= cap)%nat ->
  let F := (2 * length orig + 10)%nat in
  snd (scan_all (buf_ops cap) F (4 * F + 20) (init_sc {| b_buf := []; b_rest := orig |}) []) <> SFuel.
Proof. exact scanner_never_out_of_fuel_buffered. Qed.
Print Assumptions C01_scanner_terminates_linear_buffered.

(* The whole pipeline over the buffered input never runs out of its linear fuel. *)
Theorem C01_pipeline_terminates_linear_buffered : forall cap (x : list N), (8 <= cap)%nat -> snd (run_buf cap x) <> PFuel.
Proof. exact pipeline_terminates_linear_buffered. Qed.
Print Assumptions C01_pipeline_terminates_linear_buffered.

(* TOTAL CORRECTNESS of the model pipeline over the buffered input of any capacity >= 8: for EVERY input the run ends in
   a complete event stream (PDone) or in a first scan / parse error - never in a panic, never by exhausting its fuel. *)
Theorem C01_pipeline_ends_properly_buffered : forall cap (x : list N), (8 <= cap)%nat -> proper_pend (snd (run_buf cap x)).
Proof. exact pipeline_ends_properly_buffered. Qed.
Print Assumptions C01_pipeline_ends_properly_buffered.
