(* C01 — Parsing always terminates: no panic, abort or hang on any input.
   Theorems today: (1) the parser layer never panics, for every token stream; (2) the WHOLE scanner + parser
   pipeline over a buffered input of ANY capacity >= 8 never panics, for every input string: no lookahead-contract
   violation (peek/skip beyond the buffer, lookahead beyond the capacity, push into a full buffer, the
   assert!(buflen >= k) of the Input default methods) and none of the skeleton panics (empty simple-key / indent
   stacks, token insertion out of range, token-number underflow, debug_assert!(is_break), u32 overflow of the version
   number).  Not yet theorems: termination with linear fuel (the model's OutOfFuel outcome is a monitor on every
   input of the correspondence run) and the byte-level StrInput overrides (tied by the back-end comparison C10). *)
From Coq Require Import List NArith Bool.
Import ListNotations.
Require Import Parser SBase SFetch Pipe SBuf Grammar C02base C02tail C02run ScanWP ScanSafeTop.

(* The pull parser never panics (pop_state on an empty stack, fetch_token without peek, unreachable! arms,
   State::End in the state machine), whatever the token stream and however the scanner ended: a panic verdict
   of a whole run can only be the scanner's own. *)
Theorem C01_parser_never_panics : forall toks keep se fuel n,
  snd (parse_all fuel (init_parser toks keep) se []) = PPanic n -> se = SPanic n.
Proof.
  intros toks keep se fuel n H.
  pose proof (parser_run_wellformed toks keep se fuel) as [_ E]. cbn zeta in E. rewrite H in E. exact E.
Qed.
Print Assumptions C01_parser_never_panics.

(* one step: no panic from any state satisfying the invariant *)
Theorem C01_step_never_panics : forall p g n, Inv p g -> p_state p <> SEnd -> state_machine p <> Parser.Panic n.
Proof.
  intros p g n HI HE HP. pose proof (state_machine_post p g HI HE) as H. rewrite HP in H. exact H.
Qed.
Print Assumptions C01_step_never_panics.

(* The scanner model on a buffered input of any capacity >= 8 never panics, whatever the input and the fuel. *)
Theorem C01_scanner_never_panics_buffered : forall cap, (8 <= cap)%nat -> forall F fuel input n,
  snd (scan_all (buf_ops cap) F fuel (init_sc {| b_buf := []; b_rest := input |}) []) <> SPanic n.
Proof. exact scanner_never_panics_buffered. Qed.
Print Assumptions C01_scanner_never_panics_buffered.

(* ... and neither does the whole pipeline (scanner, then parser on its tokens). *)
Theorem C01_pipeline_never_panics_buffered : forall cap, (8 <= cap)%nat -> forall input n,
  snd (run_buf cap input) <> PPanic n.
Proof. exact pipeline_never_panics_buffered. Qed.
Print Assumptions C01_pipeline_never_panics_buffered.
