(* C09 — Emit then load returns the same tree (round trip).
   Model: Model/Emitter.v (need_quotes, escape_str, number text, the literal-block guard is_literal_block, the key
   forms complex_key / is_long_key, layout; tables and guard flags generated from emitter.rs in Gen/EmitterTables.v),
   Model/Resolver.v (Scalar::parse_from_cow, Rust i64/f64 grammars).  Specifications: Spec/QuotedLine.v (reading of
   a double-quoted line over the scanner's escape table Gen/Escapes.v), Spec/BlockScalar.v (block scalars, from
   property C05).
   Spec/BlockLayout.v (the block-layout sublanguage of YAML with its denotation: the layout reader specification).
   The full tree-level statement is EmitterFull.C09_full (a Definition, not proved).  Proved here, for ALL strings /
   integers / trees (`..._partial`): the scalar-level ingredients of the round trip (T1-T4); that every string the
   literal-block guard lets through is, as written by emit_literal_block, a block scalar whose specified value is
   the string (T5, former findings K1-K5); that every key written in the implicit form fits the scanner's limit
   (T6, former finding G1); that every scalar node in every position is presented in a form that reads back as
   itself (T7); and, by induction on the tree, that the emitted text of every well-formed tree is a document of the
   block-layout language denoting that tree (T8), so that C09_full is reduced to one statement about the loading
   pipeline alone, [layout_reader_spec] (T9).
   Missing for C09_full: [layout_reader_spec] itself (the scanner/parser/loader models read every document of
   Spec/BlockLayout.v as the tree it denotes), and strings containing U+FEFF (the block-scalar specification, like
   YAML, excludes it from block scalar content; the emitter writes it there and the scanner reads it back — covered
   by the differential run only).
   END TO END, without a reader hypothesis (T10-T13): for the SIMPLE trees (simple_tree, Proofs/EmitterRoundTripDefs.v:
   non-empty block sequences / mappings nested at most 255 deep whose leaves and keys are one-word plain texts) the
   whole model pipeline reads the emitted text back as the tree, under all four settings. *)
From Coq Require Import List NArith ZArith Bool.
Import ListNotations.
Require Import Resolver CoreSchema Escapes CharTraits Consts Loader QuotedLine BlockScalar BlockLayout Emitter EmitterProofs
               EmitterBlock EmitterScalar EmitterFull EmitterTree.
Require Import Parser SBase SFetch Pipe PipeL Drivers TokenGrammar FlowText BlockText
               EmitterRoundTripDefs EmitterRoundTripScan EmitterRoundTripScanAll EmitterRoundTrip.
Open Scope N_scope.

(* T1. A string the emitter writes plain (need_quotes = false) is read back by the resolver as that same string.
   Depends on the `!matches!(Scalar::parse_from_cow(..), Scalar::String(_))` disjunct of need_quotes through
   tbl_nq_resolver. *)
Theorem C09_plain_is_string_partial : forall s, need_quotes s = false -> parse_from_cow s = SStr s.
Proof. exact plain_resolves_to_string. Qed.
Print Assumptions C09_plain_is_string_partial.

(* T2. ... and has the shape a plain scalar needs: non-empty, no leading/trailing space, the first character is no
   YAML indicator, and no ':' '#' quote, backslash, tab, line break, flow indicator or NUL anywhere. *)
Theorem C09_plain_shape_partial : forall s, need_quotes s = false ->
  s <> []
  /\ hd_error s <> Some 32 /\ (s <> [] -> last s 0 <> 32)
  /\ (forall c, hd_error s = Some c -> in_ranges c nq_leading = false /\ ~ In c c_indicators)
  /\ (forall c, In c s -> in_ranges c nq_anywhere = false /\ ~ In c plain_unsafe).
Proof. exact plain_shape. Qed.
Print Assumptions C09_plain_shape_partial.

(* T3. Double-quoted form.  (a) every entry of escape_str's table starts with a backslash and is decoded back to
   its key by the scanner's escape rules; (b) a code point outside the table is written literally and is neither
   a double quote nor a backslash nor a line break; (c) hence, for every string, decoding the escaped body gives the string back. *)
Theorem C09_escape_entries_partial : forall k e,
  In (k, e) emit_escape_table -> dq_decode 2 e = Some [k] /\ hd_error e = Some 92.
Proof. exact escape_entries_decode. Qed.
Print Assumptions C09_escape_entries_partial.

Theorem C09_unescaped_literal_partial : forall c,
  esc_lookup c emit_escape_table = None -> escape_char c = [c] /\ c <> 34 /\ c <> 92 /\ is_break c = false.
Proof. exact unescaped_is_safe. Qed.
Print Assumptions C09_unescaped_literal_partial.

Theorem C09_quoted_decodes_partial : forall s, dq_decode (S (length s)) (escape_body s) = Some s.
Proof. exact escape_body_decodes. Qed.
Print Assumptions C09_quoted_decodes_partial.

(* T4. The decimal text of every 64-bit integer is read back as that integer. *)
Theorem C09_int_text_partial : forall z, in_i64 z = true -> parse_from_cow (dec_Z z) = SInt z.
Proof. exact int_text_round_trip. Qed.
Print Assumptions C09_int_text_partial.

(* T5. The literal-block style (multiline_strings; former findings K1-K5).  For every string v that the guard
   `YamlEmitter::is_literal_block` lets through — at any level, under any prefix, parent indentation and
   continuation of the text — the text written by emit_literal_block is the rendering ([case_text], i.e.
   [render_block]) of the block scalar [lit_case ...] of the specification Spec/BlockScalar.v: literal style, clip or
   strip chomping, no indentation indicator, the lines of v indented by the emitter; and
   (a) the value the specification assigns to that block scalar ([block_value]) is v;
   (b) its text is prefix ++ emit_literal_block level v ++ continuation;
   (c) the side conditions of the specification hold ([case_ok]: line texts, auto-detected indentation = the
       emitter's, leading empty lines, no document-marker line at column 0, the end) provided v has no U+FEFF, the
       content is indented more than the parent ([parent_min]) and the continuation is a less indented line.
   The guard itself is the model of the Rust function with the generated flags lit_guard_*: removing a guard from
   emitter.rs makes the bridging lemmas tbl_lit_guard_* false. *)
Theorem C09_literal_block_value_partial : forall m level v, is_literal_block m level v = true ->
  forall prefix parent eof, case_value (lit_case prefix parent level v eof) = v.
Proof. exact literal_block_value. Qed.
Print Assumptions C09_literal_block_value_partial.

Theorem C09_literal_block_text_partial : forall m level v, is_literal_block m level v = true ->
  forall prefix parent eof,
  case_text (lit_case prefix parent level v eof) = prefix ++ emit_literal_block level v ++ eof_text eof.
Proof. exact literal_block_text. Qed.
Print Assumptions C09_literal_block_text_partial.

Theorem C09_literal_block_side_conditions_partial : forall m level v, is_literal_block m level v = true ->
  forall prefix parent eof,
  ~ In 65279 v -> Nat.leb (parent_min parent) (ind_n level) = true -> eof_fits level parent eof = true ->
  case_ok (lit_case prefix parent level v eof) = true.
Proof. exact literal_block_case_ok. Qed.
Print Assumptions C09_literal_block_side_conditions_partial.

(* T6. Implicit keys (former finding G1).  A key that emit_mapping writes in the implicit form `key: value`
   (complex_key = false: not a collection, not a literal block, not is_long_key) is one line of at most
   SIMPLE_KEY_MAX characters — the scanner's limit from Gen/Consts.v — in every well-formed tree. *)
Theorem C09_implicit_key_fits_partial : forall c m level k, wf_node k = true -> complex_key m level k = false ->
  str_len (emit c m None level k) <= SIMPLE_KEY_MAX /\ ~ In 10 (emit c m None level k).
Proof. exact implicit_key_fits. Qed.
Print Assumptions C09_implicit_key_fits_partial.

Theorem C09_implicit_keys_fit_partial : forall m doc, wf_node doc = true -> max_key_len m doc <= SIMPLE_KEY_MAX.
Proof. exact implicit_keys_fit. Qed.
Print Assumptions C09_implicit_keys_fit_partial.

(* T7. Scalars in every position.  Every scalar node (null, boolean, 64-bit integer, float text, string without
   U+FEFF), as emit_node writes it at any level — root, sequence item, mapping value, explicit key — under any parent
   it is indented more than, is one of the three scalar presentations of Spec/BlockLayout.v (plain text satisfying
   [plain_ok] whose resolver reading is the scalar; double-quoted line whose decoding is the string; block scalar of
   Spec/BlockScalar.v satisfying [case_ok] whose value is the string) and the scalar it presents is the original.
   As an implicit key it is moreover a one-line presentation of at most SIMPLE_KEY_MAX characters. *)
Theorem C09_scalar_in_every_position_partial : forall c m p level n,
  is_collection n = false -> wf_node n = true -> no_bom n = true ->
  Nat.leb (parent_min p) (ind_n level) = true -> Scalar p (emit c m None level n) (scalar_of n).
Proof. exact scalar_node. Qed.
Print Assumptions C09_scalar_in_every_position_partial.

Theorem C09_implicit_key_scalar_partial : forall c m level k, wf_node k = true -> complex_key m level k = false ->
  KeyScalar (emit c m None level k) (scalar_of k).
Proof. exact key_scalar. Qed.
Print Assumptions C09_implicit_key_scalar_partial.

(* T8. Trees.  For every well-formed tree without U+FEFF in its strings, under all four settings, the emitted text
   is a document of the block-layout language and the tree it denotes is the original one.  By induction on the tree
   (layout_all), the local fixpoints of emit being the entry lists of the grammar. *)
Theorem C09_tree_is_layout_document_partial : forall c m doc, wf_node doc = true -> no_bom doc = true ->
  Doc (dump_doc c m doc) (to_yaml doc).
Proof. exact emitted_doc_denotes_tree. Qed.
Print Assumptions C09_tree_is_layout_document_partial.

(* T9. Hence the full statement (for U+FEFF-free trees) follows from the layout reader specification alone. *)
Theorem C09_full_from_layout_reader_partial : layout_reader_spec ->
  forall compact multiline doc, wf_node doc = true -> no_bom doc = true -> round_trip_ok compact multiline doc = true.
Proof. exact full_from_layout_reader. Qed.
Print Assumptions C09_full_from_layout_reader_partial.

(* ---- the round trip END TO END for simple trees: no reader hypothesis ----
   simple_tree doc (EmitterRoundTripDefs.v, a bool): the root is a non-empty sequence or mapping; below it non-empty sequences
   and mappings, at most 255 collections deep (the scanner's BLOCK_NESTING_MAX); every leaf is ONE WORD (FlowText.word_ok:
   no blank, break, NUL, flow indicator, quote, none of : # - ? * & ! | > % @ `) that the emitter writes plain: a string
   with need_quotes = false, null (~), a boolean, a non-negative 64-bit integer, a float text that is a word; the keys of a
   mapping are such leaves of at most 1024 characters, pairwise different as values.
   T10. Under both `compact` settings (and both `multiline` settings: no line feed occurs) the emitted text is, literally,
   the header line "---" followed by the text of the node [node_of compact true doc] of the block text sub-language
   Spec/BlockText.v WITHOUT its final line feed: a collection that is an item of a sequence stands compact behind its "-"
   (`- - a`, `- k: v`) when compact, else below, 2 columns right; a collection that is the value of a key stands below,
   2 columns right of the key (never indentless); the node is a well-formed document of that language within the depth bound. *)
Theorem C09_simple_tree_text_partial : forall c m doc, simple_tree doc = true ->
  dump_doc c m doc = doc_header ++ blast (node_of c true doc)
  /\ bwf_root (node_of c true doc) = true /\ nobi (node_of c true doc) = true /\ (bdepth (node_of c true doc) <= 255)%nat.
Proof. exact simple_tree_text. Qed.
Print Assumptions C09_simple_tree_text_partial.

(* T11. The scanner model on "---" LF followed by ANY document n of the block text sub-language without indentless
   sequences, nested at most 255 deep, WITHOUT the final line feed (blast n = removelast (bdoc_text n)): it ends normally
   and delivers StreamStart, DocumentStart, the tokens of the layout tree of n, StreamEnd.  Extends C03_block_text_tokens
   (whose texts have no header line and end with a line feed): the DocumentStart token and the line break behind "---";
   the last word standing in front of the end of the input, where its simple key is still possible (not stale, not
   required), so that the word's token is handed out only after the end of the input has been fetched (or before, when the
   word is longer than 1024 characters and the key has gone stale), together with the BlockEnd tokens of all open
   collections and StreamEnd, the end mark being moved to the next line. *)
Theorem C09_block_text_without_final_lf_tokens_partial : forall n,
  bwf_root n = true -> nobi n = true -> (bdepth n <= 255)%nat ->
  exists toks, scan_str (doc_header ++ blast n) = (toks, SEnded) /\ map snd toks = wrap true false (tokens_of (blt n)).
Proof. exact scan_block_doc. Qed.
Print Assumptions C09_block_text_without_final_lf_tokens_partial.

(* T12. Hence the whole model pipeline (PipeL.run_load: scanner, parser with Parser::load's anchor clearing, loader,
   resolver) reads the emitted text of a simple tree as exactly one document, the tree: parser by the C03 parser theorem
   (parse_wrap, transferred to Parser::load), loader by C07_refinement, keys by C07_document_order, leaves by T1 / T4. *)
Theorem C09_simple_tree_loads_partial : forall c m doc, simple_tree doc = true ->
  PipeL.run_load (dump_doc c m doc) = PipeL.LDocs [to_yaml doc].
Proof. exact simple_tree_loads. Qed.
Print Assumptions C09_simple_tree_loads_partial.

(* T13. C09_full restricted to simple trees, under all four settings. *)
Theorem C09_round_trip_simple : forall c m doc, simple_tree doc = true -> round_trip_ok c m doc = true.
Proof. exact round_trip_simple. Qed.
Print Assumptions C09_round_trip_simple.

(* Non-vacuity: hypotheses are satisfiable, oracles are not constant. *)
Example C09_plain_exists : need_quotes [97; 32; 45; 98] = false.
Proof. vm_compute. reflexivity. Qed.
Example C09_quotes_octal : need_quotes [48; 111; 55] = true.          (* 0o7: only the resolver disjunct catches it *)
Proof. vm_compute. reflexivity. Qed.
Example C09_quotes_plus_inf : need_quotes [43; 46; 105; 110; 102] = true.
Proof. vm_compute. reflexivity. Qed.
Example C09_decoder_rejects_bare_quote : dq_decode 5 [97; 34; 98] = None.
Proof. vm_compute. reflexivity. Qed.
Example C09_i64_min_text : dec_Z (- 2 ^ 63)%Z = [45; 57; 50; 50; 51; 51; 55; 50; 48; 51; 54; 56; 53; 52; 55; 55; 53; 56; 48; 56].
Proof. vm_compute. reflexivity. Qed.
(* the guard: lets ordinary multi-line strings through (the pinned outputs of the test-suite), stops the former defect classes *)
Example C09_guard_accepts : forallb (is_literal_block true 0) [[98;97;114;33;10;98;97;114;33]; [97;10]; [10;97]; [97;10;32;98;10]] = true.
Proof. vm_compute. reflexivity. Qed.
Example C09_guard_rejects :
  existsb (is_literal_block true 0) [[32;97;10;98]; [10;32;97]; [97;10;10]; [10]; [32;10]; [97]; [97;13;10]] = false
  /\ existsb (is_literal_block true (-1)) [[9;97;10;98]; [97;10;46;46;46]; [45;45;45;10;97]] = false
  /\ forallb (is_literal_block true 0) [[9;97;10;98]; [97;10;46;46;46]; [45;45;45;10;97]] = true.
Proof. vm_compute. auto. Qed.
Example C09_long_key_boundary :
  is_long_key (repeat 97 1024) = false /\ is_long_key (repeat 97 1025) = true
  /\ is_long_key (repeat 1 170) = false /\ is_long_key (repeat 1 171) = true.
Proof. vm_compute. auto. Qed.
(* instances of C09_full through the whole model pipeline: the witnesses of the former defect classes, under all four
   settings, and a mixed tree *)
Example C09_former_witnesses_round_trip :
  forallb (fun w => wf_node w && round_trip_ok true true w && round_trip_ok false true w
                    && round_trip_ok true false w && round_trip_ok false false w) former_witnesses = true.
Proof. exact former_witnesses_ok. Qed.
Example C09_full_instance :
  wf_node sample_tree = true
  /\ round_trip_ok true false sample_tree = true /\ round_trip_ok false false sample_tree = true
  /\ round_trip_ok true true sample_tree = true /\ round_trip_ok false true sample_tree = true.
Proof. exact sample_tree_ok. Qed.
Example C09_literal_block_instance :
  round_trip_ok true true (NSeq [NStr [97; 10; 32; 98; 10]; NStr str_a_lf_b]) = true.
Proof. exact literal_block_ok. Qed.
(* T8 is not vacuous, and the layout reader specification holds on this instance *)
Example C09_layout_instance :
  Doc (dump_doc true true sample_tree) (to_yaml sample_tree)
  /\ exists y', PipeL.run_load (dump_doc true true sample_tree) = PipeL.LDocs [y'] /\ yaml_eqb y' (to_yaml sample_tree) = true.
Proof. exact sample_layout_instance. Qed.
Example C09_pipeline_rejects_long_implicit_key :
  PipeL.run_load ([45;45;45;10] ++ repeat 97 1025 ++ [58; 32; 55]) = PipeL.LErr.
Proof. exact long_implicit_key_rejected. Qed.
(* T13 applied: a mixed tree, 4 collections deep -- a: [b, [1, {k: ~}], {true: 1.5, 7: x}], m: {n: [z]} -- is simple, so it
   round-trips under every setting (by the theorem, not by evaluation); and the boundary of simple_tree: two words, a
   string that needs quotes, a word with '-', empty collections, a negative integer, a scalar at the root, a repeated key
   are outside; null, booleans, non-negative integers, float words are inside. *)
Example C09_simple_example : simple_tree simple_example = true /\ ndepth simple_example = 4%nat.
Proof. exact simple_example_ok. Qed.
Example C09_simple_example_round_trip : forall c m, round_trip_ok c m simple_example = true.
Proof. intros c m. apply C09_round_trip_simple. exact (proj1 simple_example_ok). Qed.
Example C09_simple_boundary :
  simple_tree (NSeq [NStr [97; 32; 98]]) = false
  /\ simple_tree (NSeq [NStr w_true]) = false
  /\ simple_tree (NSeq [NStr [97; 45; 98]]) = false
  /\ simple_tree (NSeq []) = false /\ simple_tree (NSeq [NMap []]) = false
  /\ simple_tree (NSeq [NInt (-1)]) = false
  /\ simple_tree (NStr [97]) = false
  /\ simple_tree (NMap [(NStr [97], NInt 1); (NStr [97], NInt 2)]) = false
  /\ simple_tree (NSeq [NInt 0; NBool false; NNull; NStr [97]; NFloat [49; 101; 51]]) = true.
Proof. exact simple_boundary. Qed.
