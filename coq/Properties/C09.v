(* C09 — Emit then load returns the same tree (round trip).
   Model: Model/Emitter.v (need_quotes, escape_str, number text, layout; tables generated from emitter.rs in
   Gen/EmitterTables.v), Model/Resolver.v (Scalar::parse_from_cow, Rust i64/f64 grammars), Gen/Escapes.v (scanner
   escape table).  What is proved here are the scalar-level ingredients of the round trip, for ALL strings and all
   64-bit integers (`..._partial`); the full tree-level statement is EmitterProofs.C09_full (a Definition, not
   proved).  It is false for multiline_strings = true and for implicit keys longer than 1024 characters: the
   `..._refuted` theorems evaluate the model pipeline on one witness per recorded defect class. *)
From Coq Require Import List NArith ZArith Bool.
Import ListNotations.
Require Import Resolver CoreSchema Escapes CharTraits Emitter EmitterProofs.
Open Scope N_scope.

(* T1. A string the emitter writes plain (need_quotes = false) is read back by the resolver as that same string.
   Depends on the `!matches!(Scalar::parse_from_cow(..), Scalar::String(_))` disjunct of need_quotes through
   tbl_nq_resolver. *)
Theorem C09_plain_is_string_partial : forall s, need_quotes s = false -> parse_from_cow s = SStr s.
Proof. exact plain_resolves_to_string. Qed.
Print Assumptions C09_plain_is_string_partial.

(* T2. ... and has the shape a plain scalar needs: non-empty, no leading/trailing space, the first character is no
   YAML indicator, and no ':' '#' quote, backslash, tab, line break, flow indicator or NUL anywhere. *)
Theorem C09_plain_shape_partial : forall s, need_quotes s = false ->
  s <> []
  /\ hd_error s <> Some 32 /\ (s <> [] -> last s 0 <> 32)
  /\ (forall c, hd_error s = Some c -> in_ranges c nq_leading = false /\ ~ In c c_indicators)
  /\ (forall c, In c s -> in_ranges c nq_anywhere = false /\ ~ In c plain_unsafe).
Proof. exact plain_shape. Qed.
Print Assumptions C09_plain_shape_partial.

(* T3. Double-quoted form.  (a) every entry of escape_str's table starts with a backslash and is decoded back to
   its key by the scanner's escape rules; (b) a code point outside the table is written literally and is neither
   a double quote nor a backslash nor a line break; (c) hence, for every string, decoding the escaped body gives the string back. *)
Theorem C09_escape_entries_partial : forall k e,
  In (k, e) emit_escape_table -> dq_decode 2 e = Some [k] /\ hd_error e = Some 92.
Proof. exact escape_entries_decode. Qed.
Print Assumptions C09_escape_entries_partial.

Theorem C09_unescaped_literal_partial : forall c,
  esc_lookup c emit_escape_table = None -> escape_char c = [c] /\ c <> 34 /\ c <> 92 /\ is_break c = false.
Proof. exact unescaped_is_safe. Qed.
Print Assumptions C09_unescaped_literal_partial.

Theorem C09_quoted_decodes_partial : forall s, dq_decode (S (length s)) (escape_body s) = Some s.
Proof. exact escape_body_decodes. Qed.
Print Assumptions C09_quoted_decodes_partial.

(* T4. The decimal text of every 64-bit integer is read back as that integer. *)
Theorem C09_int_text_partial : forall z, in_i64 z = true -> parse_from_cow (dec_Z z) = SInt z.
Proof. exact int_text_round_trip. Qed.
Print Assumptions C09_int_text_partial.

(* The full statement fails on the faithful model exactly where the implementation fails (known findings). *)
Theorem C09_multiline_K1_refuted : exists compact doc, wf_node doc = true /\ (max_key_len true doc <=? 1024) = true
                                                       /\ round_trip_ok compact true doc = false.
Proof. exact multiline_K1_refuted. Qed.
Print Assumptions C09_multiline_K1_refuted.
Theorem C09_multiline_K2_refuted : exists compact doc, wf_node doc = true /\ (max_key_len true doc <=? 1024) = true
                                                       /\ round_trip_ok compact true doc = false.
Proof. exact multiline_K2_refuted. Qed.
Print Assumptions C09_multiline_K2_refuted.
Theorem C09_long_key_refuted : exists compact doc, wf_node doc = true /\ round_trip_ok compact false doc = false.
Proof. exact long_key_refuted. Qed.
Print Assumptions C09_long_key_refuted.

(* Non-vacuity: hypotheses are satisfiable, oracles are not constant. *)
Example C09_plain_exists : need_quotes [97; 32; 45; 98] = false.
Proof. vm_compute. reflexivity. Qed.
Example C09_quotes_octal : need_quotes [48; 111; 55] = true.          (* 0o7: only the resolver disjunct catches it *)
Proof. vm_compute. reflexivity. Qed.
Example C09_quotes_plus_inf : need_quotes [43; 46; 105; 110; 102] = true.
Proof. vm_compute. reflexivity. Qed.
Example C09_decoder_rejects_bare_quote : dq_decode 5 [97; 34; 98] = None.
Proof. vm_compute. reflexivity. Qed.
Example C09_i64_min_text : dec_Z (- 2 ^ 63)%Z = [45; 57; 50; 50; 51; 51; 55; 50; 48; 51; 54; 56; 53; 52; 55; 55; 53; 56; 48; 56].
Proof. vm_compute. reflexivity. Qed.
Example C09_full_instance :
  wf_node sample_tree = true /\ (max_key_len false sample_tree <=? 1024) = true
  /\ round_trip_ok true false sample_tree = true /\ round_trip_ok false false sample_tree = true.
Proof. exact sample_tree_ok. Qed.
Example C09_literal_block_instance :
  round_trip_ok true true (NSeq [NStr [97; 10; 32; 98; 10]; NStr str_a_lf_b]) = true.
Proof. exact literal_block_ok. Qed.
