(* C19 — All node types and loading modes hold the same data.
   Model: Model/Nodes.v — ONE generic loader (g_load over an `ops node` record = trait LoadableYamlNode) run at
   ryaml (Yaml and YamlOwned: the same type in the model; that borrowed and owned nodes hold the same data is
   what the correspondence run checks on the code), at myaml (MarkedYaml / MarkedYamlOwned: ryaml + a span per
   node) and at Loader.yaml (the C07 model); early_parse is the `early` flag; parse_representation_recursive is
   r_resolve / m_resolve.  Only statements, each closed by [exact], with Print Assumptions. *)
From Coq Require Import List NArith ZArith Bool.
Import ListNotations.
Require Import Parser Resolver Loader LinkedMap Nodes InsertTheory NodesProofs.

(* (i) Marked nodes are plain nodes plus spans: forgetting the spans of the marked run gives the plain run —
   same documents, same stacks, same anchors, same panic site — for both early_parse modes and every event
   list (spans included in the input). *)
Theorem C19_marked_is_plain_with_spans : forall early evs,
  gres_map erase (load_m early evs) = load_r early evs.
Proof. exact marked_is_plain_with_spans. Qed.
Print Assumptions C19_marked_is_plain_with_spans.

(* The eager plain run is the C07 loader model (Loader.load_events), node for node. *)
Theorem C19_eager_is_C07_model : forall evs,
  load_r true evs = gres_map embed (to_gres (load_events (map fst evs) l0)).
Proof. exact eager_plain_is_loader_model. Qed.
Print Assumptions C19_eager_is_C07_model.

(* Equality and hashing of marked nodes ignore the spans; equal nodes hash alike. *)
Theorem C19_marked_eq_ignores_spans : forall a b, m_eqb a b = r_eqb (erase a) (erase b).
Proof. exact m_eqb_erase. Qed.
Print Assumptions C19_marked_eq_ignores_spans.

Theorem C19_marked_hash_ignores_spans : forall a, m_hash a = r_hash (erase a).
Proof. exact m_hash_erase. Qed.
Print Assumptions C19_marked_hash_ignores_spans.

Theorem C19_hash_respects_eq : forall a b, r_eqb a b = true -> r_hash a = r_hash b.
Proof. exact r_hash_eqb. Qed.
Print Assumptions C19_hash_respects_eq.

(* (ii) Deferred loading followed by resolving the whole tree gives the eager tree, for EVERY event list and
   whatever keys resolution identifies (1 / 0x1, 0.0 / -0.0, ...): same panic site; document by document
   equal under the node equality (the Rust `==`: order of entries, every key and value). *)
Theorem C19_deferred_resolved_is_eager : forall evs,
  match load_r false evs, load_r true evs with
  | GOk d, GOk e => Forall2 (fun x y => r_eqb (r_resolve x) y = true) (rev (g_docs d)) (rev (g_docs e))
  | GPanic n, GPanic m => n = m
  | _, _ => False
  end.
Proof. exact deferred_then_resolved_is_eager. Qed.
Print Assumptions C19_deferred_resolved_is_eager.

Theorem C19_deferred_resolved_is_eager_marked : forall evs,
  match load_m false evs, load_m true evs with
  | GOk d, GOk e => Forall2 (fun x y => m_eqb (m_resolve x) y = true) (rev (g_docs d)) (rev (g_docs e))
  | GPanic n, GPanic m => n = m
  | _, _ => False
  end.
Proof. exact marked_deferred_then_resolved_is_eager. Qed.
Print Assumptions C19_deferred_resolved_is_eager_marked.

(* the whole simulation: documents, open collections, pending keys and anchors correspond at every step *)
Theorem C19_deferred_simulates_eager : forall evs,
  RR ryaml ryaml (fun d e => r_eqb (r_resolve d) e = true) (load_r false evs) (load_r true evs).
Proof. exact deferred_simulates_eager. Qed.
Print Assumptions C19_deferred_simulates_eager.

(* the lemma behind it: re-collecting the resolved entries of a map after an insertion = inserting the
   resolved entry into the re-collected map (move-to-back insert, keys that become equal included) *)
Theorem C19_recollect : forall k v l,
  leq ryaml r_eqb (lm_collect r_eqb (map (fp ryaml r_resolve) (lm_insert r_eqb k v l)))
                  (lm_insert r_eqb (r_resolve k) (r_resolve v) (lm_collect r_eqb (map (fp ryaml r_resolve) l))).
Proof. exact (recollect_insert ryaml r_eqb r_eqb_refl r_eqb_sym r_eqb_trans r_resolve r_resolve_congr). Qed.
Print Assumptions C19_recollect.

(* With Leibniz equality instead of `==` the statement is false: the key OBJECT kept can differ
   (keys 0.0, -0.0, 0.0: eager keeps +0.0, deferred + resolved keeps -0.0).  The real code shows the same. *)
Theorem C19_bit_identity_refuted : ~ deferred_resolved_equals_eager_leibniz.
Proof. exact deferred_resolved_equals_eager_leibniz_refuted. Qed.
Print Assumptions C19_bit_identity_refuted.

(* (iii) Resolving is the identity on resolved, well-formed trees; its results are resolved and well-formed,
   so it is idempotent; every node a load produces is well-formed and (eager mode) resolved, hence
   untouched by resolution; in deferred mode every scalar is still a representation. *)
Theorem C19_resolve_identity : forall n, r_resolved n = true -> r_wf n = true -> r_resolve n = n.
Proof. exact r_resolve_id. Qed.
Print Assumptions C19_resolve_identity.

Theorem C19_resolve_idempotent : forall n, r_resolve (r_resolve n) = r_resolve n.
Proof. exact r_resolve_idempotent. Qed.
Print Assumptions C19_resolve_idempotent.

Theorem C19_loaded_nodes_good : forall early evs,
  match load_r early evs with
  | GOk s => Forall (fun n => r_wf n = true /\ (if early then r_resolved n = true else r_deferred n = true)) (g_docs s)
  | GPanic _ => True
  end.
Proof. exact loaded_nodes_good. Qed.
Print Assumptions C19_loaded_nodes_good.

Theorem C19_resolve_leaves_eager_untouched : forall evs,
  match load_r true evs with GOk s => map r_resolve (g_docs s) = g_docs s | GPanic _ => True end.
Proof. exact resolve_leaves_eager_untouched. Qed.
Print Assumptions C19_resolve_leaves_eager_untouched.

(* resolution commutes with forgetting spans (MarkedYaml::parse_representation_recursive keeps every span) *)
Theorem C19_resolve_marked : forall n, erase (m_resolve n) = r_resolve (erase n).
Proof. exact erase_resolve. Qed.
Print Assumptions C19_resolve_marked.

(* ---- examples ---- *)
Definition ev0 (e : event) : event * span := (e, sp0).
Definition at_ (i : N) : span := span_empty {| m_index := i; m_line := 0; m_col := i |}.
(* { 1: a, 0x1: b } with spans *)
Definition ex_evs : list (event * span) :=
  [(EStreamStart, sp0); (EDocumentStart false, sp0); (EMappingStart 1 None, at_ 0);
   (EScalar [49]%N Plain 0 None, at_ 1); (EScalar [97]%N Plain 2 None, at_ 4);
   (EScalar [48;120;49]%N Plain 0 None, at_ 7); (EAlias 2, at_ 12);
   (EMappingEnd, at_ 14); (EDocumentEnd, at_ 14); (EStreamEnd, at_ 14)].

Example C19_example_deferred :
  docs_of (load_r false ex_evs) =
  Some [RMap [(RRep [49]%N Plain None, RRep [97]%N Plain None); (RRep [48;120;49]%N Plain None, RRep [97]%N Plain None)]].
Proof. vm_compute. reflexivity. Qed.
Example C19_example_eager :
  docs_of (load_r true ex_evs) = Some [RMap [(RVal (SInt 1), RVal (SStr [97]%N))]].
Proof. vm_compute. reflexivity. Qed.
Example C19_example_resolved :
  option_map (map r_resolve) (docs_of (load_r false ex_evs)) = docs_of (load_r true ex_evs).
Proof. vm_compute. reflexivity. Qed.
(* the alias copy carries the alias event's span, the others the span of the event that created them *)
Example C19_example_spans :
  docs_of (load_m true ex_evs) = Some [MMap (at_ 0) [(MVal (at_ 1) (SInt 1), MVal (at_ 12) (SStr [97]%N))]].
Proof. vm_compute. reflexivity. Qed.
Example C19_example_eq_ignores_spans :
  m_eqb (MVal (at_ 1) (SInt 1)) (MVal (at_ 9) (SInt 1)) = true /\ MVal (at_ 1) (SInt 1) <> MVal (at_ 9) (SInt 1).
Proof. split; [vm_compute; reflexivity|discriminate]. Qed.
