(* C15 — Documents in a stream are parsed independently of each other.
   Theorem today: the parser-level reset at every document end (anchors, tag handles, state stack).  The scanner-level
   locality (indentation / flow / simple-key state after a document-end marker line) and the composition
   "A ... B parses to docs(A) ++ docs(B)" are exercised on the implementation by concatenating accepted streams. *)
From Coq Require Import List NArith Bool.
Import ListNotations.
Require Import Parser DocReset.

Theorem C15_document_end_resets : forall p ev p',
  document_end p = Ok (ev, p') ->
  doc_reset p p' /\ (p_state p' = SImplicitDocumentStart \/ p_state p' = SDocumentStart).
Proof. exact document_end_resets. Qed.
Print Assumptions C15_document_end_resets.
