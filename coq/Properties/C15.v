(* C15 — Documents in a stream are parsed independently of each other.

   PARSER (token level, all token lists):
     C15_document_end_resets   every DocumentEnd step empties the anchor table and (unless keep_tags) the tag table
     C15_renumbering           raising the anchor id counter only renumbers the events
     C15_tail_simulation       "... StreamEnd" and "... DocumentEnd rest" are treated alike until the first stream ends
     C15_composition           tokens(A) ++ [DocumentEnd] ++ tokens(B) is accepted with events(A) ++ events(B) renumbered
     C15_composition_events    the same on events without spans
     C15_composition_driver    the same for the model's driver Pipe.parse_all
     C15_composition_closed, C15_composition_many   closure form; any number of streams
   SCANNER (character level, all inputs, any input type):
     C15_char_scanners_are_frames      no character-level scanner touches the skeleton
     C15_skeleton_invariant            fetch_next_token keeps the skeleton invariant, in particular
                                       length sc_ifms = sc_flow_level (the state that replaced flow_mapping_started)
     C15_reachable_skeleton, C15_no_flow_state_between_documents
     C15_document_marker_resets        fetch_document_indicator at flow level 0 re-creates the StreamStart skeleton
     C15_marker_token_resets           whenever a step queues a document marker at flow level 0
     C15_marker_then_newline           ... and after the following line break simple keys are allowed again
     C15_stream_start_config           the configuration they are compared with
   Not proved: the character-level locality "tokens(A ... B) = tokens(A) DocumentEnd tokens(B) shifted" (needs the
   prefix stability of every scalar scanner at a marker line and the position-shift equivariance of the scanner);
   exercised on the implementation by the concatenation oracle of check_C15. *)
From Coq Require Import List NArith ZArith Bool.
Import ListNotations.
Require Import Parser Grammar SBase SPrim SDir SScalar SFetch Pipe C02run.
Require Import DocReset DocRun DocShift DocSim DocIndep DocIndepRun ScanFrame DocScan.

(* ------------------------------------------------------------------------------------------------ *)
(* parser                                                                                            *)
(* ------------------------------------------------------------------------------------------------ *)
Theorem C15_document_end_resets : forall p ev p',
  document_end p = Parser.Ok (ev, p') ->
  doc_reset p p' /\ (p_state p' = SImplicitDocumentStart \/ p_state p' = SDocumentStart).
Proof. exact document_end_resets. Qed.
Print Assumptions C15_document_end_resets.

Theorem C15_renumbering : forall d p,
  p_anchor_id p <> 0%N -> state_machine (shiftp d p) = shift_res d (state_machine p).
Proof. exact state_machine_shift. Qed.
Print Assumptions C15_renumbering.

Theorem C15_tail_simulation : forall sps spd rest p1 p2 e sp p1',
  R sps spd rest p1 p2 -> DL p1 -> state_machine p1 = Parser.Ok ((e, sp), p1') ->
  (exists sp' p2', state_machine p2 = Parser.Ok ((e, sp'), p2') /\ R sps spd rest p1' p2' /\ DL p1')
  \/ (e = EStreamEnd /\ sp = sps /\ p_state p1 = SImplicitDocumentStart /\ p_state p1' = SEnd
      /\ p_anchor_id p1' = p_anchor_id p1 /\ state_machine p2 = state_machine (restp rest p2))
  \/ (e = EDocumentEnd /\ p_state p1 = SDocumentEnd /\ p_state p1' = SDocumentStart
      /\ p_token p1' = Some (sps, TStreamEnd)
      /\ p_anchor_id p1' = p_anchor_id p1 /\ p_states p1' = p_states p1
      /\ exists sp', state_machine p2 = Parser.Ok ((EDocumentEnd, sp'), pB rest (p_states p2) (p_anchor_id p2))).
Proof. exact sim_step. Qed.
Print Assumptions C15_tail_simulation.

Theorem C15_composition : forall ssA ta sps spd ssB tb seB evA evB,
  snd ssA = TStreamStart -> Forall (fun t => snd t <> TStreamEnd) ta ->
  accepts (ssA :: ta ++ [(sps, TStreamEnd)]) false evA ->
  accepts (ssB :: tb ++ [seB]) false evB ->
  exists pre pre' b n,
    evA = pre ++ [(EStreamEnd, sps)] /\ evB = (EStreamStart, fst ssB) :: b
    /\ arun 0 (DocRun.evs_of evA) = Some n /\ n = count_anchored (DocRun.evs_of evA)
    /\ DocRun.evs_of pre' = DocRun.evs_of pre
    /\ accepts (ssA :: ta ++ (spd, TDocumentEnd) :: tb ++ [seB]) false (pre' ++ map (shift_evsp n) b).
Proof. exact doc_composition. Qed.
Print Assumptions C15_composition.

Theorem C15_composition_events : forall ssA ta sps spd ssB tb seB evA evB,
  snd ssA = TStreamStart -> Forall (fun t => snd t <> TStreamEnd) ta ->
  accepts (ssA :: ta ++ [(sps, TStreamEnd)]) false evA ->
  accepts (ssB :: tb ++ [seB]) false evB ->
  exists evC,
    accepts (ssA :: ta ++ (spd, TDocumentEnd) :: tb ++ [seB]) false evC
    /\ DocRun.evs_of evC
       = removelast (DocRun.evs_of evA)
         ++ map (shift_ev (count_anchored (DocRun.evs_of evA))) (tl (DocRun.evs_of evB)).
Proof. exact doc_composition_events. Qed.
Print Assumptions C15_composition_events.

Theorem C15_composition_driver : forall ssA ta sps spd ssB tb seB fA fB sa sb evA evB,
  snd ssA = TStreamStart -> Forall (fun t => snd t <> TStreamEnd) ta ->
  parse_all fA (init_parser (ssA :: ta ++ [(sps, TStreamEnd)]) false) sa [] = (evA, PDone) ->
  parse_all fB (init_parser (ssB :: tb ++ [seB]) false) sb [] = (evB, PDone) ->
  exists evC,
    (forall fuel sc, (length evA + length evB < fuel)%nat ->
       parse_all fuel (init_parser (ssA :: ta ++ (spd, TDocumentEnd) :: tb ++ [seB]) false) sc [] = (evC, PDone))
    /\ DocRun.evs_of evC
       = removelast (DocRun.evs_of evA)
         ++ map (shift_ev (count_anchored (DocRun.evs_of evA))) (tl (DocRun.evs_of evB)).
Proof. exact doc_composition_parse_all. Qed.
Print Assumptions C15_composition_driver.

(* accepted well-formed streams are closed under gluing with a document-end marker; hence any number of streams *)
Theorem C15_composition_closed : forall spd TA EA TB EB,
  Acc TA EA -> Acc TB EB ->
  exists EC, Acc (glueT spd TA TB) EC /\ DocRun.evs_of EC = glueE (DocRun.evs_of EA) (DocRun.evs_of EB).
Proof. exact Acc_glue. Qed.
Print Assumptions C15_composition_closed.

Theorem C15_composition_many : forall l T0 E0,
  Acc T0 E0 -> Forall (fun x => Acc (snd (fst x)) (snd x)) l ->
  exists EC, Acc (glue_allT T0 l) EC /\ DocRun.evs_of EC = glue_allE (DocRun.evs_of E0) l.
Proof. exact doc_composition_many. Qed.
Print Assumptions C15_composition_many.

(* ------------------------------------------------------------------------------------------------ *)
(* scanner                                                                                           *)
(* ------------------------------------------------------------------------------------------------ *)
Theorem C15_char_scanners_are_frames : forall (I : Type) (ops : InputOps I) (F : nat),
  Fr (skip_to_next_token ops F) /\ Fr (skip_ws_to_eol ops F SkipYes) /\ Fr (skip_yaml_whitespace ops F)
  /\ Fr (scan_directive ops F) /\ Fr (scan_tag ops F) /\ (forall alias, Fr (scan_anchor ops F alias))
  /\ (forall single, Fr (scan_flow_scalar ops F single)) /\ Fr (scan_plain_scalar ops F)
  /\ (forall literal, Fr (scan_block_scalar ops F literal)).
Proof. exact @char_scanners_are_frames. Qed.
Print Assumptions C15_char_scanners_are_frames.

Theorem C15_skeleton_invariant : forall (I : Type) (ops : InputOps I) (F : nat) (s : sc I) (a : unit) (s' : sc I),
  SkInv s -> fetch_next_token ops F s = SBase.Ok (a, s') -> SkInv s'.
Proof. exact @fetch_next_token_SkInv. Qed.
Print Assumptions C15_skeleton_invariant.

Theorem C15_reachable_skeleton : forall (I : Type) (ops : InputOps I) (F : nat) (s : sc I),
  reach ops F s ->
  (if sc_stream_start s then N.of_nat (length (sc_sks s)) = (sc_flow_level s + 1)%N
   else sc_sks s = [] /\ sc_flow_level s = 0%N /\ sc_indents s = [])
  /\ chain (sc_indent s) (sc_indents s)
  /\ N.of_nat (length (sc_ifms s)) = sc_flow_level s.
Proof. exact @reach_SkInv. Qed.
Print Assumptions C15_reachable_skeleton.

Theorem C15_no_flow_state_between_documents : forall (I : Type) (ops : InputOps I) (F : nat) (s : sc I),
  reach ops F s -> sc_flow_level s = 0%N -> sc_ifms s = [].
Proof. exact @reach_no_flow_state_outside_flow. Qed.
Print Assumptions C15_no_flow_state_between_documents.

Theorem C15_document_marker_resets : forall (I : Type) (ops : InputOps I) (t : tok) (s s' : sc I),
  SkInv s -> sc_stream_start s = true -> sc_flow_level s = 0%N ->
  fetch_document_indicator ops t s = SBase.Ok (tt, s') ->
  marker_config s' /\ sc_ska s' = false
  /\ exists toks sp, sc_tokens s' = sc_tokens s ++ toks ++ [(sp, t)] /\ block_ends toks.
Proof. exact @fetch_document_indicator_resets. Qed.
Print Assumptions C15_document_marker_resets.

Theorem C15_marker_token_resets : forall (I : Type) (ops : InputOps I) (F : nat) (s : sc I) (a : unit) (s' : sc I),
  SkInv s -> fetch_next_token ops F s = SBase.Ok (a, s') ->
  sc_flow_level s' = 0%N -> last_tok (fun tk => is_marker tk = true) s' ->
  marker_config s' /\ sc_ska s' = false.
Proof. exact @fetch_next_token_marker. Qed.
Print Assumptions C15_marker_token_resets.

Theorem C15_marker_then_newline : forall (I : Type) (ops : InputOps I) (fuel : nat) (s s' : sc I),
  marker_config s -> skip_to_next_token ops fuel s = SBase.Ok (tt, s') ->
  m_line (sc_mark s') <> m_line (sc_mark s) ->
  marker_config s' /\ sc_ska s' = true.
Proof. exact @marker_then_newline. Qed.
Print Assumptions C15_marker_then_newline.

Theorem C15_stream_start_config : forall (I : Type) (i : I) (s' : sc I),
  fetch_stream_start (init_sc i) = SBase.Ok (tt, s') -> marker_config s' /\ sc_ska s' = true.
Proof. exact @stream_start_config. Qed.
Print Assumptions C15_stream_start_config.

(* ------------------------------------------------------------------------------------------------ *)
(* examples: the hypotheses are satisfiable, the statements are not trivially true                    *)
(* ------------------------------------------------------------------------------------------------ *)
Local Open Scope N_scope.
Definition sp0 : span := span_empty {| m_index := 0; m_line := 1; m_col := 0 |}.
(* A = "&a x" (one anchored scalar), B = "&b y": both accepted on their own by the driver *)
Definition exA : list token := [(sp0, TStreamStart); (sp0, TAnchor [97]); (sp0, TScalar Plain [120]); (sp0, TStreamEnd)].
Definition exB : list token := [(sp0, TStreamStart); (sp0, TAnchor [98]); (sp0, TScalar Plain [121]); (sp0, TStreamEnd)].
Definition exC : list token :=
  [(sp0, TStreamStart); (sp0, TAnchor [97]); (sp0, TScalar Plain [120]); (sp0, TDocumentEnd);
   (sp0, TAnchor [98]); (sp0, TScalar Plain [121]); (sp0, TStreamEnd)].
Example composition_hypotheses_hold :
  snd (parse_all 20 (init_parser exA false) SEnded []) = PDone
  /\ snd (parse_all 20 (init_parser exB false) SEnded []) = PDone.
Proof. split; vm_compute; reflexivity. Qed.
(* ... and in the composition the anchor of B really is renumbered (id 2), the alias table does not leak *)
Example composition_renumbers :
  C02run.evs_of (fst (parse_all 20 (init_parser exC false) SEnded []))
  = [EStreamStart; EDocumentStart false; EScalar [120] Plain 1 None; EDocumentEnd;
     EDocumentStart false; EScalar [121] Plain 2 None; EDocumentEnd; EStreamEnd].
Proof. vm_compute. reflexivity. Qed.
(* with keep_tags the tag table is NOT reset: the hypothesis "keep = false" of the composition theorem matters *)
Example keep_tags_is_not_independent :
  exists p ev p', p_keep_tags p = true /\ document_end p = Parser.Ok (ev, p') /\ p_tags p' <> [].
Proof.
  exists {| p_toks := []; p_token := Some (sp0, TStreamEnd); p_states := []; p_state := SDocumentEnd;
            p_anchors := []; p_anchor_id := 1; p_tags := [([33;101;33], [120])]; p_keep_tags := true |}.
  eexists _, _. split; [reflexivity|]. split; [vm_compute; reflexivity|]. discriminate.
Qed.

(* the regression input of the repaired class (/repo ad74b3e): "{x}\n...\n[ : ]\n" is accepted by the model,
   and the scanner states around the marker are the ones the theorems talk about *)
Definition ex_text : list N := [123;120;125;10;46;46;46;10;91;32;58;32;93;10].
Example fixed_class_accepted : snd (run_str ex_text) = PDone.
Proof. vm_compute. reflexivity. Qed.
Notation ex_state k := (fetches str_ops 40 k (init_sc {| si_chars := ex_text; si_look := 0 |})).
Definition ex_view (k : nat) :=
  match ex_state k with
  | Some s => Some (map snd (sc_tokens s), sc_flow_level s, sc_ifms s, sc_indent s, sc_ska s, map sk_possible (sc_sks s))
  | None => None
  end.
(* after "{x}\n..." : marker token queued, flow level 0, no flow state left, marker configuration *)
Example marker_state :
  ex_view 5 = Some ([TStreamStart; TFlowMappingStart; TScalar Plain [120]; TFlowMappingEnd; TDocumentEnd],
                    0, [], (-1)%Z, false, [false]).
Proof. vm_compute. reflexivity. Qed.
(* inside "[ : " the per-collection state is live (so the invariant is not about an always-empty stack) *)
Example flow_state_live :
  ex_view 7 = Some ([TStreamStart; TFlowMappingStart; TScalar Plain [120]; TFlowMappingEnd; TDocumentEnd;
                     TFlowSequenceStart; TFlowMappingStart; TValue], 1, [ImInside], (-1)%Z, false, [false; true]).
Proof. vm_compute. reflexivity. Qed.
Example marker_state_satisfies_theorem :
  exists s, ex_state 5 = Some s /\ SkInv s /\ sc_flow_level s = 0 /\ last_tok (fun tk => is_marker tk = true) s.
Proof.
  assert (E : exists s, ex_state 5 = Some s /\ sc_flow_level s = 0
                        /\ exists l sp, sc_tokens s = l ++ [(sp, TDocumentEnd)]).
  { vm_compute. eexists. split; [reflexivity|]. split; [reflexivity|]. eexists [_; _; _; _], _. reflexivity. }
  destruct E as (s & E & EF & l & sp & ET). exists s. split; [exact E|].
  split; [eapply fetches_SkInv; [apply SkInv_init|exact E]|]. split; [exact EF|].
  exists l, sp, TDocumentEnd. auto.
Qed.
