(* C15 — Documents in a stream are parsed independently of each other.

   PARSER (token level, all token lists):
     C15_document_end_resets   every DocumentEnd step empties the anchor table and (unless keep_tags) the tag table
     C15_renumbering           raising the anchor id counter only renumbers the events
     C15_tail_simulation       "... StreamEnd" and "... DocumentEnd rest" are treated alike until the first stream ends
     C15_composition           tokens(A) ++ [DocumentEnd] ++ tokens(B) is accepted with events(A) ++ events(B) renumbered
     C15_composition_events    the same on events without spans
     C15_composition_driver    the same for the model's driver Pipe.parse_all
     C15_composition_closed, C15_composition_many   closure form; any number of streams
   SCANNER (character level, all inputs, any input type):
     C15_char_scanners_are_frames      no character-level scanner touches the skeleton
     C15_skeleton_invariant            fetch_next_token keeps the skeleton invariant, in particular
                                       length sc_ifms = sc_flow_level (the state that replaced flow_mapping_started)
     C15_reachable_skeleton, C15_no_flow_state_between_documents
     C15_document_marker_resets        fetch_document_indicator at flow level 0 re-creates the StreamStart skeleton
     C15_marker_token_resets           whenever a step queues a document marker at flow level 0
     C15_marker_then_newline           ... and after the following line break simple keys are allowed again
     C15_stream_start_config           the configuration they are compared with
   SCANNER, TAIL INDEPENDENCE (string input; Proofs/ScanShift*.v):
     C15_scanner_step_shift, C15_scanner_fetch_more_shift, C15_scanner_next_token_shift, C15_scanner_scan_shift
                                       the scanner is equivariant under a shift of the position: two states with
                                       the same remaining text, side 2 [d] further down the stream, deliver the
                                       same tokens shifted by [d] and end the same way
     C15_adjacent_never_in_future      a by-product: sc_adjacent <= current index in every reachable state
     C15_boundary_relation             the marker configuration at a line start IS the state after StreamStart of the
                                       remaining text alone, shifted to the position of the boundary
     C15_tail_independence             from a boundary state the scanner delivers the tokens of the remaining text
                                       alone, StreamStart removed, shifted; same end
     C15_tail_independence_text        the same for the scanner run inside run_str
     C15_parser_position_shift         the parser commutes with the shift of all positions
     C15_accepted_tokens_wf            the tokens of an accepted text are StreamStart ... StreamEnd, StreamEnd only last
     C15_glued_tokens, C15_text_composition   under hypothesis (i): tokens / events of A "...\n" B from those of A and B
     C15_prefix_tokens                 PREFIX STABILITY of the scanner at a "..." line (ScanPrefix*.v): for every NUL-free
                                       text A that ends with a line break, scans to the end and ends outside every flow
                                       collection, and every B, the scanner of A "...\n" B delivers tokens(A) - StreamEnd
                                       (up to the span of an EMPTY block scalar that runs into the end of A: a finding),
                                       then DocumentEnd, and stands in the marker configuration at the line break
     C15_boundary_reached              hence hypothesis (i) for every such A without such a block scalar
     C15_text_composition_total        the text-level composition WITHOUT hypothesis (i)
   Side conditions of the last three (all decidable): [ends_with_break A], [nonul A] (an embedded NUL ends the stream:
   the recorded C12 finding), [closed_flow A] (the scan of A ends at flow level 0 - implied by acceptance in reality,
   the link scanner flow level / parser acceptance is not proved), [no_eof_block A] (no token of A is a block scalar
   of line feeds only with a non-empty span: "|\n" at the end of A has the span [indicator, end] alone and the
   empty span [end, end] before a "..." line - same text, different span: see Example eof_block_span_differs).
   FINAL FORM (Proofs/ScanPrefixFinal*.v): the last two side conditions are removed.
     C15_events_up_to_spans            the parser's events without spans depend on the tokens only up to their spans
     C15_flow_level_exact              a scan that ends properly with a bracket-balanced token stream ends at flow level 0
                                       (any input back-end, any fuel; invariant: flow level = bracket depth of the tokens
                                       delivered or queued, unless a prefix of that stream is beyond repair)
     C15_closed_flow_of_accepted       [closed_flow A] follows from acceptance (C06 + the line above)
     C15_text_composition_final        ends_with_break A, nonul A, run_str A and run_str B accepted  =>  the composition:
                                       property C15 for two streams, as a statement about TEXT
   ANY NUMBER OF TEXTS (Proofs/ScanPrefixMany.v):
     C15_text_composition_many         glue_all_text A0 [A1; ...; An] = A0 "...\n" A1 "...\n" ... An: every part accepted,
                                       every part except possibly the last NUL-free and ending with a line break  =>  the
                                       glued text is accepted with the events [glue_allE] of the parts' events - the
                                       function of the token-level C15_composition_many
     C15_glued_events_explicit         what glue_allE computes on accepted streams: StreamStart, the documents of A0, the
                                       documents of A1 raised by the anchored nodes of A0, those of A2 raised by the
                                       anchored nodes of A0 and A1, ..., StreamEnd
     C15_text_composition_many_explicit   the two together *)
From Coq Require Import List NArith ZArith Bool.
Import ListNotations.
Require Import Parser Grammar SBase SPrim SDir SScalar SFetch Pipe C02run.
Require Import DocReset DocRun DocShift DocSim DocIndep DocIndepRun ScanFrame DocScan.
Require Import ScanShift ScanShiftTop ScanShiftParse ScanShiftDoc.
Require ScanPrefix ScanPrefixTop.
Require Import ScanPrefixDoc.
Require ScanPrefixFinalParse ScanPrefixFinalFlow.
Require Import ScanPrefixFinalDoc ScanPrefixFinalTop ScanPrefixMany.

(* ------------------------------------------------------------------------------------------------ *)
(* parser                                                                                            *)
(* ------------------------------------------------------------------------------------------------ *)
Theorem C15_document_end_resets : forall p ev p',
  document_end p = Parser.Ok (ev, p') ->
  doc_reset p p' /\ (p_state p' = SImplicitDocumentStart \/ p_state p' = SDocumentStart).
Proof. exact document_end_resets. Qed.
Print Assumptions C15_document_end_resets.

Theorem C15_renumbering : forall d p,
  p_anchor_id p <> 0%N -> state_machine (shiftp d p) = shift_res d (state_machine p).
Proof. exact state_machine_shift. Qed.
Print Assumptions C15_renumbering.

Theorem C15_tail_simulation : forall sps spd rest p1 p2 e sp p1',
  R sps spd rest p1 p2 -> DL p1 -> state_machine p1 = Parser.Ok ((e, sp), p1') ->
  (exists sp' p2', state_machine p2 = Parser.Ok ((e, sp'), p2') /\ R sps spd rest p1' p2' /\ DL p1')
  \/ (e = EStreamEnd /\ sp = sps /\ p_state p1 = SImplicitDocumentStart /\ p_state p1' = SEnd
      /\ p_anchor_id p1' = p_anchor_id p1 /\ state_machine p2 = state_machine (restp rest p2))
  \/ (e = EDocumentEnd /\ p_state p1 = SDocumentEnd /\ p_state p1' = SDocumentStart
      /\ p_token p1' = Some (sps, TStreamEnd)
      /\ p_anchor_id p1' = p_anchor_id p1 /\ p_states p1' = p_states p1
      /\ exists sp', state_machine p2 = Parser.Ok ((EDocumentEnd, sp'), pB rest (p_states p2) (p_anchor_id p2))).
Proof. exact sim_step. Qed.
Print Assumptions C15_tail_simulation.

Theorem C15_composition : forall ssA ta sps spd ssB tb seB evA evB,
  snd ssA = TStreamStart -> Forall (fun t => snd t <> TStreamEnd) ta ->
  accepts (ssA :: ta ++ [(sps, TStreamEnd)]) false evA ->
  accepts (ssB :: tb ++ [seB]) false evB ->
  exists pre pre' b n,
    evA = pre ++ [(EStreamEnd, sps)] /\ evB = (EStreamStart, fst ssB) :: b
    /\ arun 0 (DocRun.evs_of evA) = Some n /\ n = count_anchored (DocRun.evs_of evA)
    /\ DocRun.evs_of pre' = DocRun.evs_of pre
    /\ accepts (ssA :: ta ++ (spd, TDocumentEnd) :: tb ++ [seB]) false (pre' ++ map (shift_evsp n) b).
Proof. exact doc_composition. Qed.
Print Assumptions C15_composition.

Theorem C15_composition_events : forall ssA ta sps spd ssB tb seB evA evB,
  snd ssA = TStreamStart -> Forall (fun t => snd t <> TStreamEnd) ta ->
  accepts (ssA :: ta ++ [(sps, TStreamEnd)]) false evA ->
  accepts (ssB :: tb ++ [seB]) false evB ->
  exists evC,
    accepts (ssA :: ta ++ (spd, TDocumentEnd) :: tb ++ [seB]) false evC
    /\ DocRun.evs_of evC
       = removelast (DocRun.evs_of evA)
         ++ map (shift_ev (count_anchored (DocRun.evs_of evA))) (tl (DocRun.evs_of evB)).
Proof. exact doc_composition_events. Qed.
Print Assumptions C15_composition_events.

Theorem C15_composition_driver : forall ssA ta sps spd ssB tb seB fA fB sa sb evA evB,
  snd ssA = TStreamStart -> Forall (fun t => snd t <> TStreamEnd) ta ->
  parse_all fA (init_parser (ssA :: ta ++ [(sps, TStreamEnd)]) false) sa [] = (evA, PDone) ->
  parse_all fB (init_parser (ssB :: tb ++ [seB]) false) sb [] = (evB, PDone) ->
  exists evC,
    (forall fuel sc, (length evA + length evB < fuel)%nat ->
       parse_all fuel (init_parser (ssA :: ta ++ (spd, TDocumentEnd) :: tb ++ [seB]) false) sc [] = (evC, PDone))
    /\ DocRun.evs_of evC
       = removelast (DocRun.evs_of evA)
         ++ map (shift_ev (count_anchored (DocRun.evs_of evA))) (tl (DocRun.evs_of evB)).
Proof. exact doc_composition_parse_all. Qed.
Print Assumptions C15_composition_driver.

(* accepted well-formed streams are closed under gluing with a document-end marker; hence any number of streams *)
Theorem C15_composition_closed : forall spd TA EA TB EB,
  Acc TA EA -> Acc TB EB ->
  exists EC, Acc (glueT spd TA TB) EC /\ DocRun.evs_of EC = glueE (DocRun.evs_of EA) (DocRun.evs_of EB).
Proof. exact Acc_glue. Qed.
Print Assumptions C15_composition_closed.

Theorem C15_composition_many : forall l T0 E0,
  Acc T0 E0 -> Forall (fun x => Acc (snd (fst x)) (snd x)) l ->
  exists EC, Acc (glue_allT T0 l) EC /\ DocRun.evs_of EC = glue_allE (DocRun.evs_of E0) l.
Proof. exact doc_composition_many. Qed.
Print Assumptions C15_composition_many.

(* ------------------------------------------------------------------------------------------------ *)
(* scanner                                                                                           *)
(* ------------------------------------------------------------------------------------------------ *)
Theorem C15_char_scanners_are_frames : forall (I : Type) (ops : InputOps I) (F : nat),
  Fr (skip_to_next_token ops F) /\ Fr (skip_ws_to_eol ops F SkipYes) /\ Fr (skip_yaml_whitespace ops F)
  /\ Fr (scan_directive ops F) /\ Fr (scan_tag ops F) /\ (forall alias, Fr (scan_anchor ops F alias))
  /\ (forall single, Fr (scan_flow_scalar ops F single)) /\ Fr (scan_plain_scalar ops F)
  /\ (forall literal, Fr (scan_block_scalar ops F literal)).
Proof. exact @char_scanners_are_frames. Qed.
Print Assumptions C15_char_scanners_are_frames.

Theorem C15_skeleton_invariant : forall (I : Type) (ops : InputOps I) (F : nat) (s : sc I) (a : unit) (s' : sc I),
  SkInv s -> fetch_next_token ops F s = SBase.Ok (a, s') -> SkInv s'.
Proof. exact @fetch_next_token_SkInv. Qed.
Print Assumptions C15_skeleton_invariant.

Theorem C15_reachable_skeleton : forall (I : Type) (ops : InputOps I) (F : nat) (s : sc I),
  reach ops F s ->
  (if sc_stream_start s then N.of_nat (length (sc_sks s)) = (sc_flow_level s + 1)%N
   else sc_sks s = [] /\ sc_flow_level s = 0%N /\ sc_indents s = [])
  /\ chain (sc_indent s) (sc_indents s)
  /\ N.of_nat (length (sc_ifms s)) = sc_flow_level s.
Proof. exact @reach_SkInv. Qed.
Print Assumptions C15_reachable_skeleton.

Theorem C15_no_flow_state_between_documents : forall (I : Type) (ops : InputOps I) (F : nat) (s : sc I),
  reach ops F s -> sc_flow_level s = 0%N -> sc_ifms s = [].
Proof. exact @reach_no_flow_state_outside_flow. Qed.
Print Assumptions C15_no_flow_state_between_documents.

Theorem C15_document_marker_resets : forall (I : Type) (ops : InputOps I) (t : tok) (s s' : sc I),
  SkInv s -> sc_stream_start s = true -> sc_flow_level s = 0%N ->
  fetch_document_indicator ops t s = SBase.Ok (tt, s') ->
  marker_config s' /\ sc_ska s' = false
  /\ exists toks sp, sc_tokens s' = sc_tokens s ++ toks ++ [(sp, t)] /\ block_ends toks.
Proof. exact @fetch_document_indicator_resets. Qed.
Print Assumptions C15_document_marker_resets.

Theorem C15_marker_token_resets : forall (I : Type) (ops : InputOps I) (F : nat) (s : sc I) (a : unit) (s' : sc I),
  SkInv s -> fetch_next_token ops F s = SBase.Ok (a, s') ->
  sc_flow_level s' = 0%N -> last_tok (fun tk => is_marker tk = true) s' ->
  marker_config s' /\ sc_ska s' = false.
Proof. exact @fetch_next_token_marker. Qed.
Print Assumptions C15_marker_token_resets.

Theorem C15_marker_then_newline : forall (I : Type) (ops : InputOps I) (fuel : nat) (s s' : sc I),
  marker_config s -> skip_to_next_token ops fuel s = SBase.Ok (tt, s') ->
  m_line (sc_mark s') <> m_line (sc_mark s) ->
  marker_config s' /\ sc_ska s' = true.
Proof. exact @marker_then_newline. Qed.
Print Assumptions C15_marker_then_newline.

Theorem C15_stream_start_config : forall (I : Type) (i : I) (s' : sc I),
  fetch_stream_start (init_sc i) = SBase.Ok (tt, s') -> marker_config s' /\ sc_ska s' = true.
Proof. exact @stream_start_config. Qed.
Print Assumptions C15_stream_start_config.

(* ------------------------------------------------------------------------------------------------ *)
(* scanner: tail independence (position-shift equivariance), string input                             *)
(*   [SH d s1 s2] (ScanShift.v): the two states hold the SAME remaining text; every marker of s2 (current mark, spans  *)
(*   of queued tokens, marks of live simple keys) is the marker of s1 with index + sh_i d, line + sh_l d, same     *)
(*   column; sc_tokens_parsed and the token numbers of live simple keys are sh_k d larger; flags, indents, flow   *)
(*   level, sc_ifms are equal; sc_adjacent is related as far as it is observable (inside a flow collection).       *)
(*   [swp d m1 m2 Q s1 s2]: both runs Ok => Q; both Err => same site, marker shifted; Ok against Err impossible;  *)
(*   Panic / OutOfFuel on either side: no claim (C01 excludes them).                                              *)
(* ------------------------------------------------------------------------------------------------ *)
Theorem C15_scanner_step_shift : forall (d : shift) (F1 F2 : nat) (s1 s2 : sc strin), SH d s1 s2 ->
  swp d (fetch_next_token str_ops F1) (fetch_next_token str_ops F2) (bpost d eq) s1 s2.
Proof. exact fetch_next_token_shift. Qed.
Print Assumptions C15_scanner_step_shift.

Theorem C15_scanner_fetch_more_shift : forall (d : shift) (F1 F2 n1 n2 : nat) (s1 s2 : sc strin), SH d s1 s2 ->
  swp d (fetch_more_tokens str_ops F1 n1) (fetch_more_tokens str_ops F2 n2) (bpost d eq) s1 s2.
Proof. exact fetch_more_tokens_shift. Qed.
Print Assumptions C15_scanner_fetch_more_shift.

Theorem C15_scanner_next_token_shift : forall (d : shift) (F1 F2 : nat) (s1 s2 : sc strin), SH d s1 s2 ->
  match next_token str_ops F1 s1, next_token str_ops F2 s2 with
  | SBase.Ok (o1, t1), SBase.Ok (o2, t2) => o2 = option_map (sht d) o1 /\ SH d t1 t2
  | SBase.Err e1 k1, SBase.Err e2 k2 => e1 = e2 /\ k2 = shm d k1
  | SBase.Ok _, SBase.Err _ _ | SBase.Err _ _, SBase.Ok _ => False
  | _, _ => True
  end.
Proof. exact next_token_shift_fun. Qed.
Print Assumptions C15_scanner_next_token_shift.

Theorem C15_scanner_scan_shift : forall (d : shift) (F1 F2 n1 n2 : nat) (s1 s2 : sc strin) (acc : list token),
  SH d s1 s2 ->
  let r1 := scan_all str_ops F1 n1 s1 acc in
  let r2 := scan_all str_ops F2 n2 s2 (map (sht d) acc) in
  ES d (snd r1) (snd r2)
  /\ (proper_end (snd r1) -> proper_end (snd r2) -> fst r2 = map (sht d) (fst r1) /\ snd r2 = she d (snd r1)).
Proof. exact scan_all_shift. Qed.
Print Assumptions C15_scanner_scan_shift.

Theorem C15_adjacent_never_in_future : forall (F : nat) (s : sc strin),
  reach str_ops F s -> (sc_adjacent s <= m_index (sc_mark s))%N.
Proof. exact reach_adj_ok. Qed.
Print Assumptions C15_adjacent_never_in_future.

(* the hypotheses on the skeleton are exactly the conclusions of C15_marker_token_resets + C15_marker_then_newline
   (or of C15_stream_start_config); the others say where the scanner stands: at the start of a line, nothing queued *)
Theorem C15_boundary_relation : forall s : sc strin,
  marker_config s -> sc_ska s = true ->
  m_col (sc_mark s) = 0%N -> (1 <= m_line (sc_mark s))%N -> sc_lws s = true ->
  sc_tokens s = [] -> sc_token_available s = false -> sc_stream_end s = false ->
  (sc_adjacent s <= m_index (sc_mark s))%N -> (1 <= sc_tokens_parsed s)%N -> Nat.eqb (si_look (sc_in s)) 0 = false ->
  SH {| sh_i := m_index (sc_mark s); sh_l := m_line (sc_mark s) - 1; sh_k := sc_tokens_parsed s - 1 |}
     (start_state (si_chars (sc_in s))) s.
Proof. exact SH_boundary. Qed.
Print Assumptions C15_boundary_relation.

(* [sm]: a state in the marker configuration (C15_marker_token_resets) whose queue has been delivered, standing at
   the line break that ends the marker line; [boundary_text sm] the text behind that break, [boundary_shift sm] its
   position (characters, lines, tokens before it) *)
Theorem C15_tail_independence : forall sm : sc strin,
  marker_config sm -> is_break (nth 0 (si_chars (sc_in sm)) 0%N) = true ->
  sc_tokens sm = [] -> sc_token_available sm = false -> sc_stream_end sm = false ->
  (sc_adjacent sm <= m_index (sc_mark sm))%N -> (1 <= sc_tokens_parsed sm)%N ->
  forall (f1 F2 n1 n2 : nat) (acc : list token),
  let d := boundary_shift sm in
  let r1 := scan_all str_ops (S (S f1)) (S n1) (init_sc {| si_chars := boundary_text sm; si_look := 0 |}) [] in
  let r2 := scan_all str_ops (S F2) n2 sm acc in
  ES d (snd r1) (snd r2)
  /\ (proper_end (snd r1) -> proper_end (snd r2) ->
      fst r2 = rev acc ++ map (sht d) (tl (fst r1)) /\ snd r2 = she d (snd r1)).
Proof. exact tail_independence. Qed.
Print Assumptions C15_tail_independence.

Theorem C15_tail_independence_text : forall (X : list N) (k : nat) (pre : list token) (sm : sc strin),
  deliver (str_F X) k (init_sc {| si_chars := X; si_look := 0 |}) = Some (pre, sm) -> (k <= 4 * str_F X + 20)%nat ->
  marker_config sm -> is_break (nth 0 (si_chars (sc_in sm)) 0%N) = true ->
  sc_tokens sm = [] -> sc_token_available sm = false -> sc_stream_end sm = false -> (1 <= sc_tokens_parsed sm)%N ->
  let d := boundary_shift sm in
  let rB := str_scan (boundary_text sm) in
  let rX := str_scan X in
  ES d (snd rB) (snd rX)
  /\ (proper_end (snd rB) -> proper_end (snd rX) ->
      fst rX = pre ++ map (sht d) (tl (fst rB)) /\ snd rX = she d (snd rB)).
Proof. exact tail_independence_text. Qed.
Print Assumptions C15_tail_independence_text.

(* ------------------------------------------------------------------------------------------------ *)
(* text level: scanner tail independence + parser composition, under hypothesis (i)                   *)
(* ------------------------------------------------------------------------------------------------ *)
(* the parser never looks inside a marker: shifting every position of the tokens shifts the event spans, nothing else *)
Theorem C15_parser_position_shift : forall (d : shift) (toks : list token) (keep : bool) (evs : list (event * span)),
  accepts toks keep evs -> accepts (map (sht d) toks) keep (map (eev d) evs).
Proof. exact accepts_shift_pos. Qed.
Print Assumptions C15_parser_position_shift.

(* (i) [boundary_reached A B] (ScanShiftDoc.v): the scanner of A "...\n" B delivers tokens(A) - StreamEnd and a DocumentEnd
   token and then stands, queue delivered, in the marker configuration at the line break behind the marker, B behind it *)
Theorem C15_glued_tokens : forall A B : list N, boundary_reached A B ->
  exists spd d, fst (str_scan (glue_text A B))
                = removelast (fst (str_scan A)) ++ (spd, TDocumentEnd) :: map (sht d) (tl (fst (str_scan B)))
             /\ snd (str_scan (glue_text A B)) = she d (snd (str_scan B)).
Proof. exact glued_tokens. Qed.
Print Assumptions C15_glued_tokens.

(* the tokens of an accepted text: StreamStart first, StreamEnd last and nowhere else (the iterator stops behind
   StreamEnd; the parser accepts no token list without one: C06's flow_balanced) *)
Theorem C15_accepted_tokens_wf : forall (y : list N) (evs : list (event * span)),
  run_str y = (evs, PDone) ->
  exists ss t sps, fst (str_scan y) = ss :: t ++ [(sps, TStreamEnd)] /\ snd ss = TStreamStart
                   /\ Forall (fun x => snd x <> TStreamEnd) t.
Proof. exact accepted_tokens_wf. Qed.
Print Assumptions C15_accepted_tokens_wf.

Theorem C15_text_composition : forall (A B : list N) (evA evB : list (event * span)),
  run_str A = (evA, PDone) -> run_str B = (evB, PDone) -> boundary_reached A B ->
  exists evC, run_str (glue_text A B) = (evC, PDone)
    /\ DocRun.evs_of evC
       = removelast (DocRun.evs_of evA)
         ++ map (shift_ev (count_anchored (DocRun.evs_of evA))) (tl (DocRun.evs_of evB)).
Proof. exact text_composition. Qed.
Print Assumptions C15_text_composition.

(* PREFIX STABILITY of the scanner at a document-end marker line (ScanPrefix.v ... ScanPrefixTop.v, ScanPrefixDoc.v):
   a relational proof "scan of A (end of input)" against "scan of A ++ "...\n" ++ B" over every scanner function.
   [ScanPrefix.TS B t1 t2]: t2 = t1, or t1 / t2 are the same block scalar of line feeds only with the spans
   [indicator, end] / [end, end]. *)
Theorem C15_prefix_tokens : forall A B : list N,
  ends_with_break A -> nonul A -> snd (str_scan A) = SEnded -> closed_flow A ->
  exists k spd (sm : sc strin) l2,
    deliver (str_F (glue_text A B)) k (init_sc {| si_chars := glue_text A B; si_look := 0 |})
      = Some (l2 ++ [(spd, TDocumentEnd)], sm)
    /\ Forall2 (ScanPrefix.TS B) (removelast (fst (str_scan A))) l2
    /\ (k <= 4 * str_F (glue_text A B) + 20)%nat
    /\ marker_config sm /\ is_break (nth 0 (si_chars (sc_in sm)) 0) = true
    /\ sc_tokens sm = [] /\ sc_token_available sm = false /\ sc_stream_end sm = false /\ (1 <= sc_tokens_parsed sm)
    /\ boundary_text sm = B.
Proof. exact prefix_tokens. Qed.
Print Assumptions C15_prefix_tokens.

(* hypothesis (i), discharged *)
Theorem C15_boundary_reached : forall A B : list N,
  ends_with_break A -> nonul A -> snd (str_scan A) = SEnded -> closed_flow A -> no_eof_block A -> boundary_reached A B.
Proof. exact boundary_reached_total. Qed.
Print Assumptions C15_boundary_reached.

Theorem C15_text_composition_total : forall (A B : list N) (evA evB : list (event * span)),
  ends_with_break A -> nonul A -> closed_flow A -> no_eof_block A ->
  run_str A = (evA, PDone) -> run_str B = (evB, PDone) ->
  exists evC, run_str (glue_text A B) = (evC, PDone)
    /\ DocRun.evs_of evC
       = removelast (DocRun.evs_of evA)
         ++ map (shift_ev (count_anchored (DocRun.evs_of evA))) (tl (DocRun.evs_of evB)).
Proof. exact text_composition_total. Qed.
Print Assumptions C15_text_composition_total.

(* ---- final form: [no_eof_block] and [closed_flow] removed ---- *)
Theorem C15_events_up_to_spans : forall (toks toks' : list token) (keep : bool) (evs : list (event * span)),
  accepts toks keep evs -> map ScanPrefixFinalParse.etk toks' = map ScanPrefixFinalParse.etk toks ->
  exists evs', accepts toks' keep evs' /\ DocRun.evs_of evs' = DocRun.evs_of evs.
Proof. exact ScanPrefixFinalParse.accepts_up_to_spans. Qed.
Print Assumptions C15_events_up_to_spans.

Theorem C15_flow_level_exact : forall (I : Type) (ops : InputOps I) (F fuel : nat) (i : I) ss t sps,
  scan_all ops F fuel (init_sc i) [] = (ss :: t ++ [(sps, TStreamEnd)], SEnded) ->
  snd ss = TStreamStart -> Forall (fun x => snd x <> TStreamEnd) t ->
  RejectProofs.flow_balanced (ss :: t ++ [(sps, TStreamEnd)]) [] = true ->
  sc_flow_level (ScanPrefixFinalFlow.last_state ops F fuel (init_sc i)) = 0%N.
Proof. exact (@ScanPrefixFinalFlow.balanced_flow_level_zero). Qed.
Print Assumptions C15_flow_level_exact.

Theorem C15_closed_flow_of_accepted : forall (A : list N) (evA : list (event * span)),
  run_str A = (evA, PDone) -> closed_flow A.
Proof. exact closed_flow_of_accepted. Qed.
Print Assumptions C15_closed_flow_of_accepted.

Theorem C15_text_composition_spanfree : forall (A B : list N) (evA evB : list (event * span)),
  ends_with_break A -> nonul A -> closed_flow A ->
  run_str A = (evA, PDone) -> run_str B = (evB, PDone) ->
  exists evC, run_str (glue_text A B) = (evC, PDone)
    /\ DocRun.evs_of evC
       = removelast (DocRun.evs_of evA)
         ++ map (shift_ev (count_anchored (DocRun.evs_of evA))) (tl (DocRun.evs_of evB)).
Proof. exact text_composition_spanfree. Qed.
Print Assumptions C15_text_composition_spanfree.

Theorem C15_text_composition_final : forall (A B : list N) (evA evB : list (event * span)),
  ends_with_break A -> nonul A ->
  run_str A = (evA, PDone) -> run_str B = (evB, PDone) ->
  exists evC, run_str (glue_text A B) = (evC, PDone)
    /\ DocRun.evs_of evC
       = removelast (DocRun.evs_of evA)
         ++ map (shift_ev (count_anchored (DocRun.evs_of evA))) (tl (DocRun.evs_of evB)).
Proof. exact text_composition_final. Qed.
Print Assumptions C15_text_composition_final.

(* ---- any number of texts: A0 "...\n" A1 "...\n" ... An ---- *)
(* [l]: the parts behind the first one, each with its events; [inner_ok A] = [ends_with_break A /\ nonul A] is asked of
   every part that is followed by a marker line (all but the last); the right-hand side is the function of
   C15_composition_many ([part_entry] fills the two components [glue_allE] does not read) *)
Theorem C15_text_composition_many : forall (l : list (list N * list (event * span))) (A0 : list N) (E0 : list (event * span)),
  run_str A0 = (E0, PDone) -> Forall (fun x => run_str (fst x) = (snd x, PDone)) l ->
  Forall inner_ok (removelast (A0 :: map fst l)) ->
  exists EC, run_str (glue_all_text A0 (map fst l)) = (EC, PDone)
    /\ DocRun.evs_of EC = glue_allE (DocRun.evs_of E0) (map part_entry l).
Proof. exact text_composition_many. Qed.
Print Assumptions C15_text_composition_many.

(* [glue_allE] on streams of the shape StreamStart, documents, StreamEnd (the events of every accepted text):
   [glue_docs d [e0; e1; ...]] = documents of e0 raised by d, documents of e1 raised by d + count_anchored e0, ... *)
Theorem C15_glued_events_explicit : forall (l : list (span * list token * list (event * span))) (e0 : list event),
  stream_shape e0 -> Forall (fun x => stream_shape (DocRun.evs_of (snd x))) l ->
  glue_allE e0 l = EStreamStart :: glue_docs 0 (e0 :: map (fun x => DocRun.evs_of (snd x)) l) ++ [EStreamEnd]
  /\ stream_shape (glue_allE e0 l).
Proof. exact glue_allE_explicit. Qed.
Print Assumptions C15_glued_events_explicit.

Theorem C15_text_composition_many_explicit : forall (l : list (list N * list (event * span))) (A0 : list N) (E0 : list (event * span)),
  run_str A0 = (E0, PDone) -> Forall (fun x => run_str (fst x) = (snd x, PDone)) l ->
  Forall inner_ok (removelast (A0 :: map fst l)) ->
  exists EC, run_str (glue_all_text A0 (map fst l)) = (EC, PDone)
    /\ DocRun.evs_of EC
       = EStreamStart :: glue_docs 0 (DocRun.evs_of E0 :: map (fun x => DocRun.evs_of (snd x)) l) ++ [EStreamEnd].
Proof. exact text_composition_many_explicit. Qed.
Print Assumptions C15_text_composition_many_explicit.

(* ------------------------------------------------------------------------------------------------ *)
(* examples: the hypotheses are satisfiable, the statements are not trivially true                    *)
(* ------------------------------------------------------------------------------------------------ *)
Local Open Scope N_scope.
Definition sp0 : span := span_empty {| m_index := 0; m_line := 1; m_col := 0 |}.
(* A = "&a x" (one anchored scalar), B = "&b y": both accepted on their own by the driver *)
Definition exA : list token := [(sp0, TStreamStart); (sp0, TAnchor [97]); (sp0, TScalar Plain [120]); (sp0, TStreamEnd)].
Definition exB : list token := [(sp0, TStreamStart); (sp0, TAnchor [98]); (sp0, TScalar Plain [121]); (sp0, TStreamEnd)].
Definition exC : list token :=
  [(sp0, TStreamStart); (sp0, TAnchor [97]); (sp0, TScalar Plain [120]); (sp0, TDocumentEnd);
   (sp0, TAnchor [98]); (sp0, TScalar Plain [121]); (sp0, TStreamEnd)].
Example composition_hypotheses_hold :
  snd (parse_all 20 (init_parser exA false) SEnded []) = PDone
  /\ snd (parse_all 20 (init_parser exB false) SEnded []) = PDone.
Proof. split; vm_compute; reflexivity. Qed.
(* ... and in the composition the anchor of B really is renumbered (id 2), the alias table does not leak *)
Example composition_renumbers :
  C02run.evs_of (fst (parse_all 20 (init_parser exC false) SEnded []))
  = [EStreamStart; EDocumentStart false; EScalar [120] Plain 1 None; EDocumentEnd;
     EDocumentStart false; EScalar [121] Plain 2 None; EDocumentEnd; EStreamEnd].
Proof. vm_compute. reflexivity. Qed.
(* with keep_tags the tag table is NOT reset: the hypothesis "keep = false" of the composition theorem matters *)
Example keep_tags_is_not_independent :
  exists p ev p', p_keep_tags p = true /\ document_end p = Parser.Ok (ev, p') /\ p_tags p' <> [].
Proof.
  exists {| p_toks := []; p_token := Some (sp0, TStreamEnd); p_states := []; p_state := SDocumentEnd;
            p_anchors := []; p_anchor_id := 1; p_tags := [([33;101;33], [120])]; p_keep_tags := true |}.
  eexists _, _. split; [reflexivity|]. split; [vm_compute; reflexivity|]. discriminate.
Qed.

(* the regression input of the repaired class (/repo ad74b3e): "{x}\n...\n[ : ]\n" is accepted by the model,
   and the scanner states around the marker are the ones the theorems talk about *)
Definition ex_text : list N := [123;120;125;10;46;46;46;10;91;32;58;32;93;10].
Example fixed_class_accepted : snd (run_str ex_text) = PDone.
Proof. vm_compute. reflexivity. Qed.
Notation ex_state k := (fetches str_ops 40 k (init_sc {| si_chars := ex_text; si_look := 0 |})).
Definition ex_view (k : nat) :=
  match ex_state k with
  | Some s => Some (map snd (sc_tokens s), sc_flow_level s, sc_ifms s, sc_indent s, sc_ska s, map sk_possible (sc_sks s))
  | None => None
  end.
(* after "{x}\n..." : marker token queued, flow level 0, no flow state left, marker configuration *)
Example marker_state :
  ex_view 5 = Some ([TStreamStart; TFlowMappingStart; TScalar Plain [120]; TFlowMappingEnd; TDocumentEnd],
                    0, [], (-1)%Z, false, [false]).
Proof. vm_compute. reflexivity. Qed.
(* inside "[ : " the per-collection state is live (so the invariant is not about an always-empty stack) *)
Example flow_state_live :
  ex_view 7 = Some ([TStreamStart; TFlowMappingStart; TScalar Plain [120]; TFlowMappingEnd; TDocumentEnd;
                     TFlowSequenceStart; TFlowMappingStart; TValue], 1, [ImInside], (-1)%Z, false, [false; true]).
Proof. vm_compute. reflexivity. Qed.
Example marker_state_satisfies_theorem :
  exists s, ex_state 5 = Some s /\ SkInv s /\ sc_flow_level s = 0 /\ last_tok (fun tk => is_marker tk = true) s.
Proof.
  assert (E : exists s, ex_state 5 = Some s /\ sc_flow_level s = 0
                        /\ exists l sp, sc_tokens s = l ++ [(sp, TDocumentEnd)]).
  { vm_compute. eexists. split; [reflexivity|]. split; [reflexivity|]. eexists [_; _; _; _], _. reflexivity. }
  destruct E as (s & E & EF & l & sp & ET). exists s. split; [exact E|].
  split; [eapply fetches_SkInv; [apply SkInv_init|exact E]|]. split; [exact EF|].
  exists l, sp, TDocumentEnd. auto.
Qed.

(* ------------------------------------------------------------------------------------------------ *)
(* tail independence on the regression input "{x}\n...\n[ : ]\n": every hypothesis of                   *)
(* C15_tail_independence_text is discharged by the theorems above                                     *)
(* ------------------------------------------------------------------------------------------------ *)
Definition ex_B : list N := [91;32;58;32;93;10].                       (* "[ : ]\n" *)
Definition ex_A : list N := [123;120;125;10].                          (* "{x}\n" *)
Definition ex_spd : span := {| sp_start := {| m_index := 4; m_line := 2; m_col := 0 |};
                               sp_end := {| m_index := 7; m_line := 2; m_col := 3 |} |}.
Definition ex_init : sc strin := init_sc {| si_chars := ex_text; si_look := 0 |}.
(* The Scanner iterator, having delivered the five tokens of "{x}\n...", stands in state [sm]: it is the state [s5]
   reached by the fetch step that queued the marker, with the queue delivered.  (Closed computations.) *)
Example ex_facts :
  exists s4 s5 pre sm,
    fetches str_ops (str_F ex_text) 4 ex_init = Some s4
    /\ fetch_next_token str_ops (str_F ex_text) s4 = SBase.Ok (tt, s5)
    /\ deliver (str_F ex_text) 5 ex_init = Some (pre, sm)
    /\ sc_flow_level s5 = 0 /\ (exists l sp, sc_tokens s5 = l ++ [(sp, TDocumentEnd)])
    /\ sm = set_tp 5 (set_ta false (set_tokens [] s5))
    /\ map snd pre = [TStreamStart; TFlowMappingStart; TScalar Plain [120]; TFlowMappingEnd; TDocumentEnd]
    /\ pre = removelast (fst (str_scan ex_A)) ++ [(ex_spd, TDocumentEnd)]
    /\ is_break (nth 0 (si_chars (sc_in sm)) 0) = true /\ sc_tokens sm = [] /\ sc_token_available sm = false
    /\ sc_stream_end sm = false /\ (1 <= sc_tokens_parsed sm)
    /\ boundary_text sm = ex_B /\ boundary_shift sm = {| sh_i := 8; sh_l := 2; sh_k := 4 |}.
Proof.
  eexists _, _, _, _.
  split; [vm_compute; reflexivity|]. split; [vm_compute; reflexivity|]. split; [vm_compute; reflexivity|].
  split; [vm_compute; reflexivity|]. split; [eexists [_; _; _; _], _; vm_compute; reflexivity|].
  repeat (split; [vm_compute; reflexivity|]). split; [vm_compute; discriminate|]. split; vm_compute; reflexivity.
Qed.
(* C15_marker_token_resets gives the marker configuration of [s5], hence of [sm]: all hypotheses of
   C15_tail_independence_text hold *)
Example boundary_hypotheses :
  exists pre sm,
    deliver (str_F ex_text) 5 ex_init = Some (pre, sm)
    /\ map snd pre = [TStreamStart; TFlowMappingStart; TScalar Plain [120]; TFlowMappingEnd; TDocumentEnd]
    /\ pre = removelast (fst (str_scan ex_A)) ++ [(ex_spd, TDocumentEnd)]
    /\ marker_config sm
    /\ is_break (nth 0 (si_chars (sc_in sm)) 0) = true /\ sc_tokens sm = [] /\ sc_token_available sm = false
    /\ sc_stream_end sm = false /\ (1 <= sc_tokens_parsed sm)
    /\ boundary_text sm = ex_B /\ boundary_shift sm = {| sh_i := 8; sh_l := 2; sh_k := 4 |}.
Proof.
  destruct ex_facts as (s4 & s5 & pre & sm & E4 & E5 & ED & EF & (l & sp & ET) & ES & EP & EPre & R).
  exists pre, sm. split; [exact ED|]. split; [exact EP|]. split; [exact EPre|]. split; [|exact R].
  assert (HC : marker_config s5 /\ sc_ska s5 = false).
  { apply (C15_marker_token_resets _ str_ops (str_F ex_text) s4 tt s5); [|exact E5|exact EF|].
    - eapply fetches_SkInv; [apply SkInv_init|exact E4].
    - exists l, sp, TDocumentEnd. auto. }
  rewrite ES. exact (proj1 HC).
Qed.
(* hence, by C15_tail_independence_text: the tokens of the whole text are the five tokens delivered before the
   boundary followed by the tokens of "[ : ]\n" scanned alone, StreamStart removed, shifted by 8 characters / 2 lines *)
Example tail_independence_applied :
  exists pre, map snd pre = [TStreamStart; TFlowMappingStart; TScalar Plain [120]; TFlowMappingEnd; TDocumentEnd]
    /\ fst (str_scan ex_text) = pre ++ map (sht {| sh_i := 8; sh_l := 2; sh_k := 4 |}) (tl (fst (str_scan ex_B)))
    /\ snd (str_scan ex_text) = she {| sh_i := 8; sh_l := 2; sh_k := 4 |} (snd (str_scan ex_B)).
Proof.
  destruct boundary_hypotheses as (pre & sm & ED & EP & _ & HC & HB & ET & EA & EE & ETP & EB & ESh).
  exists pre. split; [exact EP|].
  assert (HK : (5 <= 4 * str_F ex_text + 20)%nat) by (apply PeanoNat.Nat.leb_le; vm_compute; reflexivity).
  pose proof (C15_tail_independence_text ex_text 5 pre sm ED HK HC HB ET EA EE ETP) as H.
  cbn zeta in H. rewrite EB, ESh in H. apply H; vm_compute; exact I.
Qed.
(* ... and the statement is not vacuous: the shifted tokens really are the tail of the token list *)
Example tail_independence_tokens :
  map (fun t => (m_index (sp_start (fst t)), m_line (sp_start (fst t)), snd t)) (skipn 5 (fst (str_scan ex_text)))
  = [(8, 3, TFlowSequenceStart); (10, 3, TFlowMappingStart); (10, 3, TValue); (12, 3, TFlowMappingEnd);
     (12, 3, TFlowSequenceEnd); (14, 4, TStreamEnd)]
  /\ map (fun t => (m_index (sp_start (fst t)), m_line (sp_start (fst t)), snd t)) (tl (fst (str_scan ex_B)))
  = [(0, 1, TFlowSequenceStart); (2, 1, TFlowMappingStart); (2, 1, TValue); (4, 1, TFlowMappingEnd);
     (4, 1, TFlowSequenceEnd); (6, 2, TStreamEnd)].
Proof. split; vm_compute; reflexivity. Qed.

(* ------------------------------------------------------------------------------------------------ *)
(* the text-level composition on the same input: hypothesis (i) holds, the events are the events of                    *)
(* "{x}\n" and of "[ : ]\n" glued                                                                      *)
(* ------------------------------------------------------------------------------------------------ *)
Example ex_text_is_glued : glue_text ex_A ex_B = ex_text.
Proof. reflexivity. Qed.
Example ex_boundary_reached : boundary_reached ex_A ex_B.
Proof.
  destruct boundary_hypotheses as (pre & sm & ED & EP & EPre & HC & HB & ET & EA & EE & ETP & EB & _).
  exists 5%nat, ex_spd, sm. rewrite ex_text_is_glued. rewrite <- EPre.
  split; [exact ED|]. split; [apply PeanoNat.Nat.leb_le; vm_compute; reflexivity|].
  repeat (split; [assumption|]). exact EB.
Qed.
Example text_composition_applied :
  exists evA evB evC, run_str ex_A = (evA, PDone) /\ run_str ex_B = (evB, PDone) /\ run_str ex_text = (evC, PDone)
    /\ C02run.evs_of evC = removelast (C02run.evs_of evA) ++ map (shift_ev (count_anchored (C02run.evs_of evA))) (tl (C02run.evs_of evB)).
Proof.
  assert (HA : exists evA, run_str ex_A = (evA, PDone)) by (eexists; vm_compute; reflexivity).
  assert (HB : exists evB, run_str ex_B = (evB, PDone)) by (eexists; vm_compute; reflexivity).
  destruct HA as [evA HA], HB as [evB HB].
  destruct (C15_text_composition ex_A ex_B evA evB HA HB ex_boundary_reached) as (evC & HC & EV).
  rewrite ex_text_is_glued in HC. exists evA, evB, evC. auto.
Qed.

(* ------------------------------------------------------------------------------------------------ *)
(* prefix stability: the side conditions hold for "{x}\n"; the composition without hypothesis (i);    *)
(* the two excluded classes are not empty                                                            *)
(* ------------------------------------------------------------------------------------------------ *)
Example ex_A_side_conditions : ends_with_break ex_A /\ nonul ex_A /\ closed_flow ex_A /\ no_eof_block ex_A.
Proof.
  split; [right; reflexivity|]. split; [repeat constructor; discriminate|]. split; vm_compute; reflexivity.
Qed.
Example text_composition_total_applied :
  exists evA evB evC, run_str ex_A = (evA, PDone) /\ run_str ex_B = (evB, PDone) /\ run_str ex_text = (evC, PDone)
    /\ C02run.evs_of evC = removelast (C02run.evs_of evA) ++ map (shift_ev (count_anchored (C02run.evs_of evA))) (tl (C02run.evs_of evB)).
Proof.
  assert (HA : exists evA, run_str ex_A = (evA, PDone)) by (eexists; vm_compute; reflexivity).
  assert (HB : exists evB, run_str ex_B = (evB, PDone)) by (eexists; vm_compute; reflexivity).
  destruct HA as [evA HA], HB as [evB HB].
  destruct ex_A_side_conditions as (C1 & C2 & C3 & C4).
  destruct (C15_text_composition_total ex_A ex_B evA evB C1 C2 C3 C4 HA HB) as (evC & HC & EV).
  rewrite ex_text_is_glued in HC. exists evA, evB, evC. auto.
Qed.
(* the finding behind [no_eof_block]: the empty block scalar "|\n" has the span 0:1:0-2:2:0 at the end of input and
   2:2:0-2:2:0 before a "..." line (same on the implementation: hx tokens on "124 10" / "124 10 46 46 46 10") *)
Example eof_block_span_differs :
  nth 1 (fst (str_scan [124;10])) (span_empty mk0, TStreamEnd)
    = ({| sp_start := {| m_index := 0; m_line := 1; m_col := 0 |}; sp_end := {| m_index := 2; m_line := 2; m_col := 0 |} |},
       TScalar Literal [])
  /\ nth 1 (fst (str_scan (glue_text [124;10] []))) (span_empty mk0, TStreamEnd)
    = ({| sp_start := {| m_index := 2; m_line := 2; m_col := 0 |}; sp_end := {| m_index := 2; m_line := 2; m_col := 0 |} |},
       TScalar Literal [])
  /\ forallb ok_tok (fst (str_scan [124;10])) = false.
Proof. repeat split; vm_compute; reflexivity. Qed.
(* [closed_flow] is a real condition of the SCANNER-level statement: "[a\n" scans to the end, but inside a flow
   collection the "..." line is not a document boundary (such a text is rejected by the parser) *)
Example open_flow_not_closed :
  snd (str_scan [91;97;10]) = SEnded
  /\ sc_flow_level (ScanPrefixTop.scan_last (str_F [91;97;10]) (4 * str_F [91;97;10] + 20)
                     (init_sc {| si_chars := [91;97;10]; si_look := 0 |})) = 1.
Proof. split; vm_compute; reflexivity. Qed.
(* the class formerly excluded by [no_eof_block] is covered by the final form: A = "|\n" (an empty block scalar running
   into the end of input), B = "[ : ]\n" *)
Example text_composition_final_applied_eof_block :
  exists evA evB evC, run_str [124;10] = (evA, PDone) /\ run_str ex_B = (evB, PDone)
    /\ run_str (glue_text [124;10] ex_B) = (evC, PDone)
    /\ DocRun.evs_of evC = removelast (DocRun.evs_of evA) ++ map (shift_ev (count_anchored (DocRun.evs_of evA))) (tl (DocRun.evs_of evB)).
Proof.
  assert (HA : exists evA, run_str [124;10] = (evA, PDone)) by (eexists; vm_compute; reflexivity).
  assert (HB : exists evB, run_str ex_B = (evB, PDone)) by (eexists; vm_compute; reflexivity).
  destruct HA as [evA HA], HB as [evB HB].
  assert (C1 : ends_with_break [124;10]) by (right; reflexivity).
  assert (C2 : nonul [124;10]) by (repeat constructor; discriminate).
  destruct (C15_text_composition_final [124;10] ex_B evA evB C1 C2 HA HB) as (evC & HC & EV).
  exists evA, evB, evC. auto.
Qed.

(* ------------------------------------------------------------------------------------------------ *)
(* any number of texts: three parts, "&a x\n", "- &b y\n- *b\n" (an anchor and an alias to it), "&c z" (the last part    *)
(* need not end with a line break).  The hypotheses hold; the anchor of the second part gets id 2 and its alias    *)
(* follows, the anchor of the third part gets id 3 (1 + 1 anchored nodes before it)                                  *)
(* ------------------------------------------------------------------------------------------------ *)
Definition ex_P0 : list N := [38;97;32;120;10].
Definition ex_P1 : list N := [45;32;38;98;32;121;10;45;32;42;98;10].
Definition ex_P2 : list N := [38;99;32;122].
Example ex_many_text :
  glue_all_text ex_P0 [ex_P1; ex_P2]
  = [38;97;32;120;10; 46;46;46;10; 45;32;38;98;32;121;10;45;32;42;98;10; 46;46;46;10; 38;99;32;122].
Proof. reflexivity. Qed.
Example ex_many_parts_alone :
  DocRun.evs_of (fst (run_str ex_P1))
  = [EStreamStart; EDocumentStart false; ESequenceStart 0 None; EScalar [121] Plain 1 None; EAlias 1; ESequenceEnd;
     EDocumentEnd; EStreamEnd]
  /\ DocRun.evs_of (fst (run_str ex_P2))
  = [EStreamStart; EDocumentStart false; EScalar [122] Plain 1 None; EDocumentEnd; EStreamEnd].
Proof. split; vm_compute; reflexivity. Qed.
Example text_composition_many_applied :
  exists EC, run_str (glue_all_text ex_P0 [ex_P1; ex_P2]) = (EC, PDone)
    /\ DocRun.evs_of EC
       = [EStreamStart; EDocumentStart false; EScalar [120] Plain 1 None; EDocumentEnd;
          EDocumentStart false; ESequenceStart 0 None; EScalar [121] Plain 2 None; EAlias 2; ESequenceEnd; EDocumentEnd;
          EDocumentStart false; EScalar [122] Plain 3 None; EDocumentEnd; EStreamEnd].
Proof.
  pose (E0 := fst (run_str ex_P0)). pose (E1 := fst (run_str ex_P1)). pose (E2 := fst (run_str ex_P2)).
  assert (H0 : run_str ex_P0 = (E0, PDone)) by (vm_compute; reflexivity).
  assert (H1 : run_str ex_P1 = (E1, PDone)) by (vm_compute; reflexivity).
  assert (H2 : run_str ex_P2 = (E2, PDone)) by (vm_compute; reflexivity).
  destruct (C15_text_composition_many [(ex_P1, E1); (ex_P2, E2)] ex_P0 E0 H0) as (EC & HC & EV).
  - constructor; [exact H1|constructor; [exact H2|constructor]].
  - cbn [map fst removelast]. unfold ex_P0, ex_P1.
    constructor; [split; [right; reflexivity|repeat (constructor; [discriminate|]); constructor]|].
    constructor; [split; [right; reflexivity|repeat (constructor; [discriminate|]); constructor]|constructor].
  - exists EC. split; [exact HC|]. rewrite EV. vm_compute. reflexivity.
Qed.
(* ... and the explicit form on the same parts *)
Example text_composition_many_explicit_applied :
  exists EC, run_str (glue_all_text ex_P0 [ex_P1; ex_P2]) = (EC, PDone)
    /\ DocRun.evs_of EC
       = EStreamStart
         :: (docs_of (DocRun.evs_of (fst (run_str ex_P0)))
             ++ map (shift_ev 1) (docs_of (DocRun.evs_of (fst (run_str ex_P1))))
             ++ map (shift_ev 2) (docs_of (DocRun.evs_of (fst (run_str ex_P2)))))
         ++ [EStreamEnd].
Proof.
  pose (E0 := fst (run_str ex_P0)). pose (E1 := fst (run_str ex_P1)). pose (E2 := fst (run_str ex_P2)).
  assert (H0 : run_str ex_P0 = (E0, PDone)) by (vm_compute; reflexivity).
  assert (H1 : run_str ex_P1 = (E1, PDone)) by (vm_compute; reflexivity).
  assert (H2 : run_str ex_P2 = (E2, PDone)) by (vm_compute; reflexivity).
  destruct (C15_text_composition_many_explicit [(ex_P1, E1); (ex_P2, E2)] ex_P0 E0 H0) as (EC & HC & EV).
  - constructor; [exact H1|constructor; [exact H2|constructor]].
  - cbn [map fst removelast]. unfold ex_P0, ex_P1.
    constructor; [split; [right; reflexivity|repeat (constructor; [discriminate|]); constructor]|].
    constructor; [split; [right; reflexivity|repeat (constructor; [discriminate|]); constructor]|constructor].
  - exists EC. split; [exact HC|]. rewrite EV. vm_compute. reflexivity.
Qed.
(* the condition on the inner parts is a real one: "x" "...\n" "y" (no line break before the marker line) is ONE document *)
Example inner_break_needed :
  DocRun.evs_of (fst (run_str (glue_all_text [120] [[121]])))
  = [EStreamStart; EDocumentStart false; EScalar [120;46;46;46;32;121] Plain 0 None; EDocumentEnd; EStreamEnd].
Proof. vm_compute. reflexivity. Qed.
