(* C16 — Tags resolve through the directives in force for their document.
   Model: Parser.v (resolve_tag, process_directives, extend_tags, explicit_document_start, document_end, node_props),
   SDir.v (scan_uri_escapes, scan_tag, scan_directive over any InputOps; str_ops for the decoding theorems).
   Spec: Spec/TagSpec.v (written without reference to the model).  Proofs: Proofs/TagProofs.v.
   Only statements here, each closed by [exact] of a lemma proved elsewhere, with Print Assumptions. *)
From Coq Require Import List NArith Bool.
Import ListNotations.
Require Import Parser TagSpec TagProofs TagRun Pipe.
Require Import SBase SPrim SDir.
Open Scope N_scope.

(* ---------------------------------------------------------------------------------------------- *)
(* (a) A tag is reported as the prefix bound to its handle followed by its suffix — for every table, *)
(*     every handle the scanner can produce and every suffix; an undeclared named handle is the       *)
(*     error "the handle wasn't declared" (site 20), and nothing else is.                              *)
(* ---------------------------------------------------------------------------------------------- *)
Theorem C16_resolve : forall p T m h s,
  agree (p_tags p) T -> kind_of h <> HMalformed ->
  resolve_tag p m h s = tag_result m (expand T h s).
Proof. exact resolve_tag_expand. Qed.
Print Assumptions C16_resolve.

(* the tag of a node event is the tag token of that node (before or after the anchor), resolved against the
   parser's table; node properties leave the table alone *)
Theorem C16_node_tag : forall p t aid otg p',
  node_props p t = Parser.Ok (aid, otg, p') ->
  (p_tags p' = p_tags p) /\
  (match otg with
   | None => tag_token_of p t = None
   | Some tg => exists h s, tag_token_of p t = Some (h, s) /\ resolve_tag p (sp_start (fst t)) h s = Parser.Ok tg
   end).
Proof. exact node_props_tag. Qed.
Print Assumptions C16_node_tag.

(* ---------------------------------------------------------------------------------------------- *)
(* (b) The directive loop, run where the token stream starts with ANY run of directive tokens:       *)
(*     all %TAG lines are in force together, merged over what was in force before; the only errors   *)
(*     are a handle declared twice (site 21) and a repeated %YAML (site 2), at the offending          *)
(*     directive; the fuel the model passes is enough (no Panic 99), and any larger fuel gives the    *)
(*     same result.                                                                                   *)
(* ---------------------------------------------------------------------------------------------- *)
Theorem C16_directives : forall p T run rest,
  stream p = run ++ rest -> run_ok run -> run_ends rest -> agree (p_tags p) T ->
  directives_spec p T run rest (process_directives (S (S (length (p_toks p)))) p false []).
Proof. exact process_directives_spec. Qed.
Print Assumptions C16_directives.

Theorem C16_directives_any_fuel : forall p T run rest fuel,
  stream p = run ++ rest -> run_ok run -> run_ends rest -> agree (p_tags p) T -> (length run < fuel)%nat ->
  directives_spec p T run rest (process_directives fuel p false []).
Proof. exact process_directives_fuel. Qed.
Print Assumptions C16_directives_any_fuel.

(* the same through the caller: directives, then "---" *)
Theorem C16_document_start : forall p T run sp rest,
  stream p = run ++ (sp, TDocumentStart) :: rest -> run_ok run -> agree (p_tags p) T ->
  match decls (dirs_of run) with
  | Declared d =>
      exists p', explicit_document_start p = Parser.Ok ((EDocumentStart true, sp), p')
                 /\ agree (p_tags p') (merge T d) /\ stream p' = rest /\ p_keep_tags p' = p_keep_tags p
                 /\ p_state p' = SDocumentContent
  | DuplicateHandle j => explicit_document_start p = Parser.Err (PErr 21 (mark_of run j))
  | DuplicateYaml j => explicit_document_start p = Parser.Err (PErr 2 (mark_of run j))
  end.
Proof. exact explicit_document_start_spec. Qed.
Print Assumptions C16_document_start.

(* what the specification's [decls] means: accepted iff no handle twice and at most one %YAML; the table then
   binds every declared handle to its prefix and nothing else *)
Theorem C16_decls_accepts : forall ds,
  (exists d, decls ds = Declared d) <-> NoDup (tag_handles ds) /\ (yaml_count ds <= 1)%nat.
Proof. exact decls_accepts. Qed.
Print Assumptions C16_decls_accepts.

Theorem C16_decls_table : forall ds d, decls ds = Declared d -> forall h, lookup h d = declared_prefix h ds.
Proof. exact decls_table. Qed.
Print Assumptions C16_decls_table.

(* ---------------------------------------------------------------------------------------------- *)
(* (c) Declarations end with their document unless keep_tags is set.                                  *)
(* ---------------------------------------------------------------------------------------------- *)
Theorem C16_document_end : forall p ev p',
  document_end p = Parser.Ok (ev, p') ->
  p_tags p' = carried (p_keep_tags p) (p_tags p) /\ p_keep_tags p' = p_keep_tags p /\ p_anchors p' = [].
Proof. exact document_end_tags. Qed.
Print Assumptions C16_document_end.

(* (c)+(b) in the words of [table_of]: from the end of one document to the "---" of the next *)
Theorem C16_next_document : forall p T ev p1 run sp rest,
  agree (p_tags p) T -> document_end p = Parser.Ok (ev, p1) ->
  stream p1 = run ++ (sp, TDocumentStart) :: rest -> run_ok run ->
  match table_of (p_keep_tags p) T (dirs_of run) with
  | Some T' =>
      exists p2, explicit_document_start p1 = Parser.Ok ((EDocumentStart true, sp), p2)
                 /\ agree (p_tags p2) T' /\ stream p2 = rest /\ p_keep_tags p2 = p_keep_tags p
  | None =>
      exists site j, (site = 21 \/ site = 2)%N /\ explicit_document_start p1 = Parser.Err (PErr site (mark_of run j))
  end.
Proof. exact next_document_spec. Qed.
Print Assumptions C16_next_document.

(* between the start and the end of a document nothing touches the table: every other state of the parser,
   whatever the tokens, leaves it as it is *)
Theorem C16_table_stable : forall p ev p',
  state_machine p = Parser.Ok (ev, p') -> table_state (p_state p) = false -> p_tags p' = p_tags p.
Proof. exact state_machine_tags. Qed.
Print Assumptions C16_table_stable.

(* ---------------------------------------------------------------------------------------------- *)
(* (d) Percent-decoding.  For EVERY byte sequence the RFC 3629 decoder of the specification accepts   *)
(*     (1 to 4 bytes, shortest form, no surrogates, at most U+10FFFF), spelled as escapes with hex     *)
(*     digits of either case and followed by anything: the scanner model returns that character and    *)
(*     consumes exactly the 3n characters of the escapes.  No bound on the code point.                 *)
(* ---------------------------------------------------------------------------------------------- *)
Theorem C16_percent_decoding : forall bs c es rest mk s,
  utf8_decode bs = Some c -> spells es bs -> si_chars (sc_in s) = es ++ rest ->
  scan_uri_escapes str_ops mk s = SBase.Ok (c, eats (length bs) s).
Proof. exact scan_uri_escapes_decodes. Qed.
Print Assumptions C16_percent_decoding.

(* every Unicode scalar value (all of U+0000..U+D7FF, U+E000..U+10FFFF) has such an encoding ... *)
Theorem C16_utf8_round_trip : forall c, is_scalar_value c = true -> utf8_decode (utf8_encode c) = Some c.
Proof. exact utf8_round_trip. Qed.
Print Assumptions C16_utf8_round_trip.

(* ... hence: the percent-encoded UTF-8 form of every scalar value is decoded back to it *)
Theorem C16_percent_round_trip : forall c rest mk s,
  is_scalar_value c = true -> si_chars (sc_in s) = percent_encode c ++ rest ->
  scan_uri_escapes str_ops mk s = SBase.Ok (c, eats (length (utf8_encode c)) s).
Proof. exact scan_uri_escapes_round_trip. Qed.
Print Assumptions C16_percent_round_trip.

(* what "consumes exactly" means *)
Theorem C16_consumed : forall n s,
  si_chars (sc_in (eats n s)) = skipn (3 * n) (si_chars (sc_in s)) /\
  sc_mark (eats n s) = adv (N.of_nat (3 * n)) (sc_mark s).
Proof. exact eats_consumed. Qed.
Print Assumptions C16_consumed.

(* the text-level decoder of the specification ([percent_decode] reads characters with [take_escaped_char]) *)
Theorem C16_percent_spec : forall l c r mk s,
  take_escaped_char l = Some (c, r) -> si_chars (sc_in s) = l ->
  exists s', scan_uri_escapes str_ops mk s = SBase.Ok (c, s') /\ si_chars (sc_in s') = r
             /\ exists n, sc_mark s' = adv (N.of_nat (3 * n)) (sc_mark s) /\ (length l = 3 * n + length r)%nat.
Proof. exact scan_uri_escapes_meets_spec. Qed.
Print Assumptions C16_percent_spec.

(* The converse is FALSE for the faithful model: it (like the code) also accepts sequences that are not in
   shortest form, which RFC 3629 forbids: %C0%AF is read as '/'. *)
Theorem C16_strict_decoding_refuted :
  exists bs es c, utf8_decode bs = None /\ spells es bs /\ model_decodes es = Some c.
Proof. exact overlong_accepted_by_model. Qed.
Print Assumptions C16_strict_decoding_refuted.

(* ---------------------------------------------------------------------------------------------- *)
(* (e) The hypotheses of (a) and (b) hold for everything the scanner model produces, over any input  *)
(*     back-end: a tag token has a handle of one of the four shapes; a directive token is a          *)
(*     directive, and a reserved one is filed as ("", "").                                            *)
(* ---------------------------------------------------------------------------------------------- *)
Theorem C16_scanner_tag_shape : forall (I : Type) (ops : InputOps I) F s sp t s',
  scan_tag ops F s = SBase.Ok ((sp, t), s') -> exists h sfx, t = TTag h sfx /\ kind_of h <> HMalformed.
Proof. exact @scan_tag_shape. Qed.
Print Assumptions C16_scanner_tag_shape.

Theorem C16_scanner_directive_shape : forall (I : Type) (ops : InputOps I) F s sp t s',
  scan_directive ops F s = SBase.Ok ((sp, t), s') -> is_directive_tok t = true /\ dir_tok_ok t.
Proof. exact @scan_directive_shape. Qed.
Print Assumptions C16_scanner_directive_shape.

(* ---------------------------------------------------------------------------------------------- *)
(* Examples: the whole pipeline (scanner + parser model) on concrete streams; the specification is    *)
(* not vacuous.                                                                                       *)
(* ---------------------------------------------------------------------------------------------- *)

(* "--- !e%C3%A9 x" : U+00E9 *)
Example ex_escape_2_bytes : tags_of_run false [45;45;45;32;33;101;37;67;51;37;65;57;32;120]
  = ([Some ([33], [101;233])], PDone).
Proof. vm_compute. reflexivity. Qed.
(* "--- !<%F0%9F%98%80> x" : U+1F600 *)
Example ex_escape_4_bytes : tags_of_run false [45;45;45;32;33;60;37;70;48;37;57;70;37;57;56;37;56;48;62;32;120]
  = ([Some ([], [128512])], PDone).
Proof. vm_compute. reflexivity. Qed.
(* two %TAG lines are in force together; every spelling *)
Example ex_all_spellings : tags_of_run false [37;84;65;71;32;33;97;33;32;116;97;103;58;97;44;10;37;84;65;71;32;33;98;33;32;116;97;103;58;98;44;10;45;45;45;32;91;33;97;33;120;32;49;44;32;33;98;33;121;32;50;44;32;33;33;115;116;114;32;51;44;32;33;108;32;52;44;32;33;32;53;44;32;33;60;118;58;119;62;32;54;93;10]
  = ([None; Some ([116;97;103;58;97;44], [120]); Some ([116;97;103;58;98;44], [121]); Some ([116;97;103;58;121;97;109;108;46;111;114;103;44;50;48;48;50;58], [115;116;114]); Some ([33], [108]); Some ([], [33]); Some ([], [118;58;119])], PDone).
Proof. vm_compute. reflexivity. Qed.
(* %TAG ! and %TAG !! redefine the primary and secondary handles *)
Example ex_redefined_primary_secondary : tags_of_run false [37;84;65;71;32;33;32;116;97;103;58;112;44;10;37;84;65;71;32;33;33;32;116;97;103;58;113;44;10;45;45;45;32;91;33;120;32;49;44;32;33;32;50;44;32;33;33;115;116;114;32;51;93;10]
  = ([None; Some ([116;97;103;58;112;44], [120]); Some ([], [33]); Some ([116;97;103;58;113;44], [115;116;114])], PDone).
Proof. vm_compute. reflexivity. Qed.
(* a handle declared twice in one document *)
Example ex_duplicate_handle : snd (tags_of_run false [37;84;65;71;32;33;97;33;32;116;97;103;58;97;44;10;37;84;65;71;32;33;97;33;32;116;97;103;58;98;44;10;45;45;45;32;120;10]) = PParseErr 21 {| m_index := 16; m_line := 2; m_col := 0 |}.
Proof. vm_compute. reflexivity. Qed.
(* %YAML twice *)
Example ex_duplicate_yaml : snd (tags_of_run false [37;89;65;77;76;32;49;46;50;10;37;89;65;77;76;32;49;46;50;10;45;45;45;32;120;10]) = PParseErr 2 {| m_index := 10; m_line := 2; m_col := 0 |}.
Proof. vm_compute. reflexivity. Qed.
(* a reserved directive may be repeated *)
(* reserved directives are exempt *)
Example ex_reserved_twice : tags_of_run false [37;70;79;79;32;97;10;37;70;79;79;32;98;10;45;45;45;32;33;32;120;10]
  = ([Some ([], [33])], PDone).
Proof. vm_compute. reflexivity. Qed.
(* a named handle with no declaration *)
Example ex_undeclared : tags_of_run false [45;45;45;32;33;117;33;120;32;97;10] = ([], PParseErr 20 {| m_index := 4; m_line := 1; m_col := 4 |}).
Proof. vm_compute. reflexivity. Qed.
(* declarations end with their document ... *)
Example ex_scope : tags_of_run false [37;84;65;71;32;33;97;33;32;116;97;103;58;97;44;10;45;45;45;32;33;97;33;120;32;49;10;45;45;45;32;33;97;33;120;32;50;10] = ([Some ([116;97;103;58;97;44], [120])], PParseErr 20 {| m_index := 31; m_line := 3; m_col := 4 |}).
Proof. vm_compute. reflexivity. Qed.
(* ... unless keep_tags is set *)
Example ex_keep_tags : tags_of_run true [37;84;65;71;32;33;97;33;32;116;97;103;58;97;44;10;45;45;45;32;33;97;33;120;32;49;10;45;45;45;32;33;97;33;120;32;50;10]
  = ([Some ([116;97;103;58;97;44], [120]); Some ([116;97;103;58;97;44], [120])], PDone).
Proof. vm_compute. reflexivity. Qed.
(* with keep_tags a later document may declare the handle again: the new prefix wins *)
Example ex_keep_tags_override : tags_of_run true [37;84;65;71;32;33;97;33;32;116;97;103;58;97;44;10;45;45;45;32;33;97;33;120;32;49;10;46;46;46;10;37;84;65;71;32;33;97;33;32;116;97;103;58;98;44;10;45;45;45;32;33;97;33;120;32;50;10]
  = ([Some ([116;97;103;58;97;44], [120]); Some ([116;97;103;58;98;44], [120])], PDone).
Proof. vm_compute. reflexivity. Qed.

(* the specification itself *)
Example spec_duplicate : decls [DTag [33;97;33] [120]; DYaml 1 2; DTag [33;97;33] [121]] = DuplicateHandle 2.
Proof. reflexivity. Qed.
Example spec_expand_undeclared : expand [] [33;97;33] [120] = None.
Proof. reflexivity. Qed.
Example spec_expand_secondary : expand [] [33;33] [115] = Some (yaml_prefix, [115]).
Proof. reflexivity. Qed.
Example spec_tables : tables_of false [] [[DTag [33;97;33] [120]]; []] = [Some [([33;97;33], [120])]; Some []]
                      /\ tables_of true [] [[DTag [33;97;33] [120]]; []] = [Some [([33;97;33], [120])]; Some [([33;97;33], [120])]].
Proof. split; reflexivity. Qed.
Example spec_overlong : utf8_decode [192; 175] = None /\ utf8_decode [224; 128; 175] = None.
Proof. split; reflexivity. Qed.
Example spec_surrogate : utf8_decode [237; 160; 128] = None /\ utf8_decode [244; 144; 128; 128] = None.
Proof. split; reflexivity. Qed.

Example spec_percent_decode : percent_decode [101;37;67;51;37;65;57] = Some [101;233] /\ percent_decode [37;101;50;37;56;50;37;65;67;120;37;70;48;37;57;70;37;57;56;37;56;48] = Some [8364;120;128512]
  /\ percent_decode [37;67;51] = None /\ percent_decode [37;90;90] = None /\ percent_decode [37;67;48;37;65;70] = None.
Proof. repeat split; vm_compute; reflexivity. Qed.
