(* C16 — Tags resolve through the directives in force for their document.
   Model: Parser.v (resolve_tag, process_directives, extend_tags, explicit_document_start, document_end, node_props),
   SDir.v (scan_uri_escapes, scan_tag, scan_directive over any InputOps; str_ops for the decoding theorems).
   Spec: Spec/TagSpec.v (written without reference to the model).  Proofs: Proofs/TagProofs.v.
   Only statements here, each closed by [exact] of a lemma proved elsewhere, with Print Assumptions. *)
From Coq Require Import List NArith Bool.
Import ListNotations.
Require Import Parser TagSpec TagProofs TagUtf8 TagScanText TagPipeline TagReject TagLines TagRun Pipe Drivers SFetch.
Require Import SBase SPrim SDir.
Require Import ScanBlockProofs ScalarContext2Pos TagContext.
Open Scope N_scope.

(* ---------------------------------------------------------------------------------------------- *)
(* (a) A tag is reported as the prefix bound to its handle followed by its suffix — for every table, *)
(*     every handle the scanner can produce and every suffix; an undeclared named handle is the       *)
(*     error "the handle wasn't declared" (site 20), and nothing else is.                              *)
(* ---------------------------------------------------------------------------------------------- *)
Theorem C16_resolve : forall p T m h s,
  agree (p_tags p) T -> kind_of h <> HMalformed ->
  resolve_tag p m h s = tag_result m (expand T h s).
Proof. exact resolve_tag_expand. Qed.
Print Assumptions C16_resolve.

(* the tag of a node event is the tag token of that node (before or after the anchor), resolved against the
   parser's table; node properties leave the table alone *)
Theorem C16_node_tag : forall p t aid otg p',
  node_props p t = Parser.Ok (aid, otg, p') ->
  (p_tags p' = p_tags p) /\
  (match otg with
   | None => tag_token_of p t = None
   | Some tg => exists h s, tag_token_of p t = Some (h, s) /\ resolve_tag p (sp_start (fst t)) h s = Parser.Ok tg
   end).
Proof. exact node_props_tag. Qed.
Print Assumptions C16_node_tag.

(* ---------------------------------------------------------------------------------------------- *)
(* (b) The directive loop, run where the token stream starts with ANY run of directive tokens:       *)
(*     all %TAG lines are in force together, merged over what was in force before; the only errors   *)
(*     are a handle declared twice (site 21) and a repeated %YAML (site 2), at the offending          *)
(*     directive; the fuel the model passes is enough (no Panic 99), and any larger fuel gives the    *)
(*     same result.                                                                                   *)
(* ---------------------------------------------------------------------------------------------- *)
Theorem C16_directives : forall p T run rest,
  stream p = run ++ rest -> run_ok run -> run_ends rest -> agree (p_tags p) T ->
  directives_spec p T run rest (process_directives (S (S (length (p_toks p)))) p false []).
Proof. exact process_directives_spec. Qed.
Print Assumptions C16_directives.

Theorem C16_directives_any_fuel : forall p T run rest fuel,
  stream p = run ++ rest -> run_ok run -> run_ends rest -> agree (p_tags p) T -> (length run < fuel)%nat ->
  directives_spec p T run rest (process_directives fuel p false []).
Proof. exact process_directives_fuel. Qed.
Print Assumptions C16_directives_any_fuel.

(* the same through the caller: directives, then "---" *)
Theorem C16_document_start : forall p T run sp rest,
  stream p = run ++ (sp, TDocumentStart) :: rest -> run_ok run -> agree (p_tags p) T ->
  match decls (dirs_of run) with
  | Declared d =>
      exists p', explicit_document_start p = Parser.Ok ((EDocumentStart true, sp), p')
                 /\ agree (p_tags p') (merge T d) /\ stream p' = rest /\ p_keep_tags p' = p_keep_tags p
                 /\ p_state p' = SDocumentContent
  | DuplicateHandle j => explicit_document_start p = Parser.Err (PErr 21 (mark_of run j))
  | DuplicateYaml j => explicit_document_start p = Parser.Err (PErr 2 (mark_of run j))
  end.
Proof. exact explicit_document_start_spec. Qed.
Print Assumptions C16_document_start.

(* what the specification's [decls] means: accepted iff no handle twice and at most one %YAML; the table then
   binds every declared handle to its prefix and nothing else *)
Theorem C16_decls_accepts : forall ds,
  (exists d, decls ds = Declared d) <-> NoDup (tag_handles ds) /\ (yaml_count ds <= 1)%nat.
Proof. exact decls_accepts. Qed.
Print Assumptions C16_decls_accepts.

Theorem C16_decls_table : forall ds d, decls ds = Declared d -> forall h, lookup h d = declared_prefix h ds.
Proof. exact decls_table. Qed.
Print Assumptions C16_decls_table.

(* ---------------------------------------------------------------------------------------------- *)
(* (c) Declarations end with their document unless keep_tags is set.                                  *)
(* ---------------------------------------------------------------------------------------------- *)
Theorem C16_document_end : forall p ev p',
  document_end p = Parser.Ok (ev, p') ->
  p_tags p' = carried (p_keep_tags p) (p_tags p) /\ p_keep_tags p' = p_keep_tags p /\ p_anchors p' = [].
Proof. exact document_end_tags. Qed.
Print Assumptions C16_document_end.

(* (c)+(b) in the words of [table_of]: from the end of one document to the "---" of the next *)
Theorem C16_next_document : forall p T ev p1 run sp rest,
  agree (p_tags p) T -> document_end p = Parser.Ok (ev, p1) ->
  stream p1 = run ++ (sp, TDocumentStart) :: rest -> run_ok run ->
  match table_of (p_keep_tags p) T (dirs_of run) with
  | Some T' =>
      exists p2, explicit_document_start p1 = Parser.Ok ((EDocumentStart true, sp), p2)
                 /\ agree (p_tags p2) T' /\ stream p2 = rest /\ p_keep_tags p2 = p_keep_tags p
  | None =>
      exists site j, (site = 21 \/ site = 2)%N /\ explicit_document_start p1 = Parser.Err (PErr site (mark_of run j))
  end.
Proof. exact next_document_spec. Qed.
Print Assumptions C16_next_document.

(* between the start and the end of a document nothing touches the table: every other state of the parser,
   whatever the tokens, leaves it as it is *)
Theorem C16_table_stable : forall p ev p',
  state_machine p = Parser.Ok (ev, p') -> table_state (p_state p) = false -> p_tags p' = p_tags p.
Proof. exact state_machine_tags. Qed.
Print Assumptions C16_table_stable.

(* ---------------------------------------------------------------------------------------------- *)
(* (d) Percent-decoding is STRICT UTF-8 (RFC 3629), in both directions, for every input.             *)
(*     Specification: [utf8_decode]/[utf8_encode]/[take_escaped_char] of Spec/TagSpec.v.              *)
(* ---------------------------------------------------------------------------------------------- *)

(* (d0) the specification itself is strict: a byte sequence decodes to c iff c is a Unicode scalar value
   (U+0000..U+D7FF, U+E000..U+10FFFF) and the sequence is its UTF-8 encoding — hence shortest form only, no
   surrogates, nothing above U+10FFFF; decoder and encoder are inverse bijections *)
Theorem C16_utf8_strict : forall bs c,
  utf8_decode bs = Some c <-> (is_scalar_value c = true /\ bs = utf8_encode c).
Proof. exact utf8_decode_strict. Qed.
Print Assumptions C16_utf8_strict.

Theorem C16_utf8_round_trip : forall c, is_scalar_value c = true -> utf8_decode (utf8_encode c) = Some c.
Proof. exact utf8_round_trip. Qed.
Print Assumptions C16_utf8_round_trip.

Theorem C16_utf8_decode_injective : forall bs1 bs2 c,
  utf8_decode bs1 = Some c -> utf8_decode bs2 = Some c -> bs1 = bs2.
Proof. exact utf8_decode_injective. Qed.
Print Assumptions C16_utf8_decode_injective.

Theorem C16_utf8_encode_injective : forall c1 c2,
  is_scalar_value c1 = true -> is_scalar_value c2 = true -> utf8_encode c1 = utf8_encode c2 -> c1 = c2.
Proof. exact utf8_encode_injective. Qed.
Print Assumptions C16_utf8_encode_injective.

(* the specification's reader of one escaped character at the front of a text, in the words of bytes:
   [spells es bs] = the text [es] is the bytes [bs] written as %XY escapes (hex digits of either case) *)
Theorem C16_escaped_char_spec : forall l c r,
  take_escaped_char l = Some (c, r) <-> exists es bs, l = es ++ r /\ spells es bs /\ utf8_decode bs = Some c.
Proof. exact take_escaped_char_spells. Qed.
Print Assumptions C16_escaped_char_spec.

(* (d1) EXACTNESS.  On every scanner state over the string back-end — whatever the text — the model's
   scan_uri_escapes returns exactly the character the specification reads at the front of the text, having consumed
   exactly its escapes (3 characters each), and it reports one of its four errors (sites 50..53: invalid escape,
   incorrect leading byte, incorrect trailing byte, invalid code point) at the given mark exactly when the
   specification has no reading.  It never runs out of fuel and never panics. *)
Theorem C16_percent_exact : forall mk s,
  let l : list N := si_chars (sc_in s) in
  match take_escaped_char l with
  | Some (c, r) => scan_uri_escapes str_ops mk s = SBase.Ok (c, eats (escaped_len l) s) /\ r = skipn (3 * escaped_len l) l
  | None => exists site, scan_uri_escapes str_ops mk s = SBase.Err site mk /\ 50 <= site <= 53
  end.
Proof. exact scan_uri_escapes_exact. Qed.
Print Assumptions C16_percent_exact.

(* soundness (the direction that was FALSE before commit 990db80): whatever the model accepts is a reading of the
   specification *)
Theorem C16_percent_sound : forall mk s c s',
  scan_uri_escapes str_ops mk s = SBase.Ok (c, s') ->
  take_escaped_char (si_chars (sc_in s)) = Some (c, si_chars (sc_in s')) /\
  s' = eats (escaped_len (si_chars (sc_in s))) s.
Proof. exact scan_uri_escapes_sound. Qed.
Print Assumptions C16_percent_sound.

Theorem C16_percent_total : forall mk s,
  (exists c n, (1 <= n <= 4)%nat /\ scan_uri_escapes str_ops mk s = SBase.Ok (c, eats n s)) \/
  (exists site, scan_uri_escapes str_ops mk s = SBase.Err site mk /\ 50 <= site <= 53).
Proof. exact scan_uri_escapes_total. Qed.
Print Assumptions C16_percent_total.

(* (d2) STRICT DECODING at the level of bytes, both directions, for EVERY byte sequence: its escapes (followed by
   anything) are accepted as a whole iff the sequence is the UTF-8 encoding of a Unicode scalar value, and then the
   result is that value.  (This replaces C16_strict_decoding_refuted: %C0%AF, %E0%80%AF, %F0%80%80%AF were read as '/'.) *)
Theorem C16_strict_decoding : forall es bs rest mk s c,
  spells es bs -> si_chars (sc_in s) = es ++ rest ->
  (scan_uri_escapes str_ops mk s = SBase.Ok (c, eats (length bs) s)
   <-> (is_scalar_value c = true /\ bs = utf8_encode c)).
Proof. exact scan_uri_escapes_strict. Qed.
Print Assumptions C16_strict_decoding.

(* ... error otherwise: a byte sequence none of whose prefixes is such an encoding (with no further escape after it) *)
Theorem C16_percent_rejects : forall es bs rest mk s,
  spells es bs -> si_chars (sc_in s) = es ++ rest -> take_escape rest = None ->
  (forall k, utf8_decode (firstn k bs) = None) ->
  exists site, scan_uri_escapes str_ops mk s = SBase.Err site mk /\ 50 <= site <= 53.
Proof. exact scan_uri_escapes_rejects. Qed.
Print Assumptions C16_percent_rejects.

(* completeness in the earlier words: for EVERY byte sequence the decoder accepts, spelled as escapes with hex
   digits of either case and followed by anything, the model returns that character and consumes the 3n characters *)
Theorem C16_percent_decoding : forall bs c es rest mk s,
  utf8_decode bs = Some c -> spells es bs -> si_chars (sc_in s) = es ++ rest ->
  scan_uri_escapes str_ops mk s = SBase.Ok (c, eats (length bs) s).
Proof. exact scan_uri_escapes_decodes. Qed.
Print Assumptions C16_percent_decoding.

(* hence: the percent-encoded UTF-8 form of every scalar value is decoded back to it *)
Theorem C16_percent_round_trip : forall c rest mk s,
  is_scalar_value c = true -> si_chars (sc_in s) = percent_encode c ++ rest ->
  scan_uri_escapes str_ops mk s = SBase.Ok (c, eats (length (utf8_encode c)) s).
Proof. exact scan_uri_escapes_round_trip. Qed.
Print Assumptions C16_percent_round_trip.

(* what "consumes exactly" means *)
Theorem C16_consumed : forall n s,
  si_chars (sc_in (eats n s)) = skipn (3 * n) (si_chars (sc_in s)) /\
  sc_mark (eats n s) = adv (N.of_nat (3 * n)) (sc_mark s).
Proof. exact eats_consumed. Qed.
Print Assumptions C16_consumed.

(* the text-level decoder of the specification ([percent_decode] reads characters with [take_escaped_char]) *)
Theorem C16_percent_spec : forall l c r mk s,
  take_escaped_char l = Some (c, r) -> si_chars (sc_in s) = l ->
  exists s', scan_uri_escapes str_ops mk s = SBase.Ok (c, s') /\ si_chars (sc_in s') = r
             /\ exists n, sc_mark s' = adv (N.of_nat (3 * n)) (sc_mark s) /\ (length l = 3 * n + length r)%nat.
Proof. exact scan_uri_escapes_meets_spec. Qed.
Print Assumptions C16_percent_spec.

(* ---------------------------------------------------------------------------------------------- *)
(* (e) The hypotheses of (a) and (b) hold for everything the scanner model produces, over any input  *)
(*     back-end: a tag token has a handle of one of the four shapes; a directive token is a          *)
(*     directive, and a reserved one is filed as ("", "").                                            *)
(* ---------------------------------------------------------------------------------------------- *)
Theorem C16_scanner_tag_shape : forall (I : Type) (ops : InputOps I) F s sp t s',
  scan_tag ops F s = SBase.Ok ((sp, t), s') -> exists h sfx, t = TTag h sfx /\ kind_of h <> HMalformed.
Proof. exact @scan_tag_shape. Qed.
Print Assumptions C16_scanner_tag_shape.

Theorem C16_scanner_directive_shape : forall (I : Type) (ops : InputOps I) F s sp t s',
  scan_directive ops F s = SBase.Ok ((sp, t), s') -> is_directive_tok t = true /\ dir_tok_ok t.
Proof. exact @scan_directive_shape. Qed.
Print Assumptions C16_scanner_directive_shape.

(* ---------------------------------------------------------------------------------------------- *)
(* (g) TEXT level: scanner, and scanner + parser composed, on tag texts — for EVERY such text.         *)
(*     Texts and character classes are those of Spec/TagSpec.v section 4 (YAML 1.2.2 productions):     *)
(*       tag_text ttext h sfx            ttext is one of  !<uri>  !name!suffix  !!suffix  !suffix  !     *)
(*                                       built from tag/uri characters and percent-escapes; h is the      *)
(*                                       handle the scanner reports and sfx = percent_decode of the text  *)
(*       tag_directive_text line dh p    line = "%TAG" blanks handle blanks prefix LF, p = percent_decode *)
(*       doc_line ttext                  = "--- " ttext " x"  (end of input)                              *)
(*     [st l lk m w s] is the scanner state s with text l, lookahead counter lk, mark m and                *)
(*     leading-whitespace flag w (Proofs/TagScanText.v).                                                   *)
(* ---------------------------------------------------------------------------------------------- *)

(* the character classes the model uses (generated from parser/src/char_traits.rs on every run) ARE the
   productions of the YAML specification, for every code point *)
Theorem C16_classes : forall c,
  is_tag_char c = ns_tag_char c /\ is_uri_char c = ns_uri_char c /\ is_alpha c = handle_name_char c
  /\ is_blank c = s_white c.
Proof. exact char_classes. Qed.
Print Assumptions C16_classes.

(* the scanner half for tag tokens: every tag text, followed by what may follow a tag (blank, break, end of
   input; a flow indicator inside a flow collection), is scanned as ONE TTag token with the handle and the DECODED
   suffix; exactly the text is consumed; any fuel larger than the text is enough *)
Theorem C16_scan_tag_text : forall F ttext h sfx rest lk m w s,
  tag_text ttext h sfx -> (length ttext < F)%nat -> tag_end (sc_flow_level s) (hd 0 rest) = true ->
  exists lk', (lk <= lk')%nat /\
    scan_tag str_ops F (st (ttext ++ rest) lk m w s)
    = SBase.Ok ((mkspan m (adv (N.of_nat (length ttext)) m), TTag h sfx),
                st rest lk' (adv (N.of_nat (length ttext)) m) false s).
Proof. exact scan_tag_text. Qed.
Print Assumptions C16_scan_tag_text.

(* the scanner half for %TAG lines: ONE TTagDirective token with the handle and the DECODED prefix; the line and
   its line feed are consumed *)
Theorem C16_scan_directive_text : forall F line dh p rest lk m w s,
  tag_directive_text line dh p -> (length line < F)%nat ->
  exists lk', (lk <= lk')%nat /\
    scan_directive str_ops F (st (line ++ rest) lk m w s)
    = SBase.Ok ((mkspan m (adv (N.of_nat (length line - 1)) m), TTagDirective dh p),
                st rest lk' (nlm (adv (N.of_nat (length line - 1)) m)) true s).
Proof. exact scan_directive_text. Qed.
Print Assumptions C16_scan_directive_text.

(* the whole scanner (scan_str: fetch_next_token, simple keys, indentation, document markers, plain scalar, stream
   end) on the two-line text: exactly these six tokens, with their spans *)
Theorem C16_token_stream : forall line dh p ttext h sfx,
  tag_directive_text line dh p -> tag_text ttext h sfx ->
  let md := nlm (adv (N.of_nat (length line - 1)) m1) in
  scan_str (line ++ doc_line ttext)
  = ((span_empty m1, TStreamStart)
     :: (mkspan m1 (adv (N.of_nat (length line - 1)) m1), TTagDirective dh p)
     :: doc_tokens md ttext h sfx, SEnded).
Proof. exact token_stream_directive_document. Qed.
Print Assumptions C16_token_stream.

Theorem C16_token_stream_plain : forall ttext h sfx,
  tag_text ttext h sfx ->
  scan_str (doc_line ttext) = ((span_empty m1, TStreamStart) :: doc_tokens m1 ttext h sfx, SEnded).
Proof. exact token_stream_plain_document. Qed.
Print Assumptions C16_token_stream_plain.

(* SCANNER + PARSER: the tag reported for the node of "--- <tag> x" is the specification's [expand] of the
   scanned (handle, decoded suffix) against the default table; an undeclared named handle is the error 20
   ("the handle wasn't declared") at the tag.  [tag_outcome (Some r) _ = ([Some r], PDone)],
   [tag_outcome None m = ([], PParseErr 20 m)]. *)
Theorem C16_text_plain_document : forall keep ttext h sfx,
  tag_text ttext h sfx ->
  tags_of_run keep (doc_line ttext) = tag_outcome (expand [] h sfx) (tag_mark []).
Proof. exact text_plain_document. Qed.
Print Assumptions C16_text_plain_document.

(* ... and after a %TAG line, against the table of that directive *)
Theorem C16_text_directive_document : forall keep line dh p ttext h sfx,
  tag_directive_text line dh p -> tag_text ttext h sfx ->
  tags_of_run keep (line ++ doc_line ttext) = tag_outcome (expand [(dh, p)] h sfx) (tag_mark line).
Proof. exact text_directive_document. Qed.
Print Assumptions C16_text_directive_document.

(* THE text-level statement: "%TAG !name! prefix\n--- !name!suffix x" resolves to
   (percent_decode prefix, percent_decode suffix) — for all such texts (and "!!" when name is empty) *)
Theorem C16_text_named_handle_resolves : forall keep line name p suffix t,
  tag_directive_text line (named_handle name) p ->
  tag_text (named_text name suffix) (named_handle name) t ->
  tags_of_run keep (line ++ doc_line (named_text name suffix)) = ([Some (p, t)], PDone).
Proof. exact text_named_handle_resolves. Qed.
Print Assumptions C16_text_named_handle_resolves.

(* "%TAG ! prefix\n--- !suffix x": the redefined primary handle *)
Theorem C16_text_primary_handle_resolves : forall keep line p suffix t,
  tag_directive_text line [bang] p -> tag_text (local_text suffix) [bang] t ->
  tags_of_run keep (line ++ doc_line (local_text suffix)) = ([Some (p, t)], PDone).
Proof. exact text_primary_handle_resolves. Qed.
Print Assumptions C16_text_primary_handle_resolves.

(* ---------------------------------------------------------------------------------------------- *)
(* (g') ANY NUMBER of %TAG lines, at text level: all %TAG directives of a document are in force            *)
(*      together, a handle may be declared only once per document.  [lines] are the texts of the lines,    *)
(*      [ds] the directives they denote (Forall2 directive_line_text), [decls] is the specification's      *)
(*      table builder (part 1 of Spec/TagSpec.v).  [line_start lines j] is the mark where the j-th line     *)
(*      begins, [tag_mark_lines lines] where the tag of the document line begins.                           *)
(* ---------------------------------------------------------------------------------------------- *)
Theorem C16_text_directives_document : forall keep lines ds ttext h sfx,
  Forall2 directive_line_text lines ds -> tag_text ttext h sfx ->
  tags_of_run keep (concat lines ++ doc_line ttext)
  = match decls ds with
    | Declared d => tag_outcome (expand d h sfx) (tag_mark_lines lines)
    | DuplicateHandle j => ([], PParseErr 21 (line_start lines j))
    | DuplicateYaml j => ([], PParseErr 2 (line_start lines j))
    end.
Proof. exact text_directives_document. Qed.
Print Assumptions C16_text_directives_document.

(* whichever of the lines declares the handle of the tag, its (decoded) prefix is the one used *)
Theorem C16_text_any_line_resolves : forall keep lines ds name p suffix t d,
  Forall2 directive_line_text lines ds -> decls ds = Declared d -> declared_prefix (named_handle name) ds = Some p ->
  tag_text (named_text name suffix) (named_handle name) t ->
  tags_of_run keep (concat lines ++ doc_line (named_text name suffix)) = ([Some (p, t)], PDone).
Proof. exact text_any_line_resolves. Qed.
Print Assumptions C16_text_any_line_resolves.

(* a handle declared twice: the error is reported where the second declaration begins *)
Theorem C16_text_duplicate_handle : forall keep lines ds ttext h sfx j,
  Forall2 directive_line_text lines ds -> decls ds = DuplicateHandle j -> tag_text ttext h sfx ->
  tags_of_run keep (concat lines ++ doc_line ttext) = ([], PParseErr 21 (line_start lines j)).
Proof. exact text_duplicate_handle. Qed.
Print Assumptions C16_text_duplicate_handle.

(* "%TAG !a! tag:a,\n%TAG !b! tag:b,\n--- !b!y x": the SECOND line is in force (through the theorem) *)
Example ex_text_two_lines :
  tags_of_run false (concat [[37;84;65;71;32;33;97;33;32;116;97;103;58;97;44;10]; [37;84;65;71;32;33;98;33;32;116;97;103;58;98;44;10]]
                     ++ doc_line (named_text [98] [121]))
  = ([Some ([116;97;103;58;98;44], [121])], PDone).
Proof.
  apply (C16_text_any_line_resolves false _ [DTag [33;97;33] [116;97;103;58;97;44]; DTag [33;98;33] [116;97;103;58;98;44]]
           [98] [116;97;103;58;98;44] [121] [121]
           [([33;98;33], [116;97;103;58;98;44]); ([33;97;33], [116;97;103;58;97;44])]).
  - repeat constructor.
    + apply (tdt [32] [33;97;33] [32] [116;97;103;58;97;44] [116;97;103;58;97;44]); try reflexivity.
      right. exists [97]. split; reflexivity.
    + apply (tdt [32] [33;98;33] [32] [116;97;103;58;98;44] [116;97;103;58;98;44]); try reflexivity.
      right. exists [98]. split; reflexivity.
  - reflexivity.
  - reflexivity.
  - apply (tt_named [98] [121] [121]); reflexivity.
Qed.

(* ---------------------------------------------------------------------------------------------- *)
(* (h) TEXT level, the other direction: tag texts (and %TAG prefixes) of the right characters whose     *)
(*     escapes have NO decoding — invalid escape, incorrect leading/trailing byte, surrogate, above      *)
(*     U+10FFFF, NON-SHORTEST FORM — are scanner errors (sites 50..53) at the beginning of the tag /      *)
(*     of the directive, for every such text; nothing is delivered for the node.                          *)
(* ---------------------------------------------------------------------------------------------- *)
Theorem C16_scan_tag_text_rejects : forall F ttext rest lk m w s,
  bad_tag_text ttext -> (length ttext < F)%nat -> tag_end (sc_flow_level s) (hd 0 rest) = true ->
  exists site, scan_tag str_ops F (st (ttext ++ rest) lk m w s) = SBase.Err site m /\ 50 <= site <= 53.
Proof. exact scan_tag_text_rejects. Qed.
Print Assumptions C16_scan_tag_text_rejects.

Theorem C16_text_plain_document_rejects : forall keep ttext,
  bad_tag_text ttext ->
  exists site, 50 <= site <= 53 /\ tags_of_run keep (doc_line ttext) = ([], PScanErr site (tag_mark [])).
Proof. exact text_plain_document_rejects. Qed.
Print Assumptions C16_text_plain_document_rejects.

Theorem C16_text_directive_document_rejects : forall keep line dh p ttext,
  tag_directive_text line dh p -> bad_tag_text ttext ->
  exists site, 50 <= site <= 53 /\ tags_of_run keep (line ++ doc_line ttext) = ([], PScanErr site (tag_mark line)).
Proof. exact text_directive_document_rejects. Qed.
Print Assumptions C16_text_directive_document_rejects.

Theorem C16_text_bad_directive_rejects : forall keep text,
  bad_tag_directive_text text ->
  exists site, 50 <= site <= 53 /\ tags_of_run keep text = ([], PScanErr site m1).
Proof. exact text_bad_directive_rejects. Qed.
Print Assumptions C16_text_bad_directive_rejects.

(* the witness of the former finding, now through the theorem: "--- !e%C0%AF x" is a scanner error at the tag *)
Example ex_text_overlong_rejected :
  exists site, 50 <= site <= 53 /\
    tags_of_run false (doc_line [33;101;37;67;48;37;65;70]) = ([], PScanErr site {| m_index := 4; m_line := 1; m_col := 4 |}).
Proof. exact (C16_text_plain_document_rejects false _ (btt_local [101;37;67;48;37;65;70] eq_refl eq_refl)). Qed.

(* "%TAG !e! tag:%C0%AF\n--- a": the directive is rejected where it starts, whatever follows *)
Example ex_text_bad_directive :
  exists site, 50 <= site <= 53 /\
    tags_of_run true ([37;84;65;71] ++ [32] ++ [33;101;33] ++ [32] ++ [116;97;103;58;37;67;48;37;65;70] ++ [10;45;45;45;32;97])
    = ([], PScanErr site {| m_index := 0; m_line := 1; m_col := 0 |}).
Proof.
  apply C16_text_bad_directive_rejects.
  apply (btdt [32] [33;101;33] [32] [116;97;103;58;37;67;48;37;65;70] [10;45;45;45;32;97]); try reflexivity.
  right. exists [101]. split; reflexivity.
Qed.

(* the hypotheses are satisfiable: "%TAG !e! tag:%C3%A9,\n" declares !e! as "tag:é,", "!e!caf%c3%a9" is a tag
   text with suffix "café"; the theorem then gives what direct evaluation of the pipeline gives *)
Example ex_text_hypotheses :
  tag_directive_text [37;84;65;71;32;33;101;33;32;116;97;103;58;37;67;51;37;65;57;44;10] [33;101;33] [116;97;103;58;233;44]
  /\ tag_text [33;101;33;99;97;102;37;99;51;37;97;57] [33;101;33] [99;97;102;233].
Proof.
  split.
  - apply (tdt [32] [33;101;33] [32] [116;97;103;58;37;67;51;37;65;57;44] [116;97;103;58;233;44]); try reflexivity.
    right. exists [101]. split; reflexivity.
  - apply (tt_named [101] [99;97;102;37;99;51;37;97;57] [99;97;102;233]); reflexivity.
Qed.
Example ex_text_instance :
  tags_of_run false ([37;84;65;71;32;33;101;33;32;116;97;103;58;37;67;51;37;65;57;44;10]
                     ++ doc_line [33;101;33;99;97;102;37;99;51;37;97;57])
  = ([Some ([116;97;103;58;233;44], [99;97;102;233])], PDone).
Proof.
  exact (C16_text_named_handle_resolves false _ [101] _ [99;97;102;37;99;51;37;97;57] _
           (proj1 ex_text_hypotheses) (proj2 ex_text_hypotheses)).
Qed.
Example ex_text_instance_computed :
  tags_of_run false ([37;84;65;71;32;33;101;33;32;116;97;103;58;37;67;51;37;65;57;44;10]
                     ++ doc_line [33;101;33;99;97;102;37;99;51;37;97;57])
  = ([Some ([116;97;103;58;233;44], [99;97;102;233])], PDone).
Proof. vm_compute. reflexivity. Qed.
(* an undeclared handle, through the theorem: "--- !u!x x" *)
Example ex_text_undeclared :
  tags_of_run false (doc_line [33;117;33;120]) = ([], PParseErr 20 {| m_index := 4; m_line := 1; m_col := 4 |}).
Proof.
  exact (C16_text_plain_document false _ [33;117;33] [120] (tt_named [117] [120] [120] eq_refl eq_refl eq_refl eq_refl)).
Qed.
(* an overlong escape is not a tag text: there is no decoding *)
Example ex_text_overlong_not_a_tag : percent_decode [101;37;67;48;37;65;70] = None.
Proof. vm_compute. reflexivity. Qed.

(* ---------------------------------------------------------------------------------------------- *)
(* Examples: the whole pipeline (scanner + parser model) on concrete streams; the specification is    *)
(* not vacuous.                                                                                       *)
(* ---------------------------------------------------------------------------------------------- *)

(* "--- !e%C3%A9 x" : U+00E9 *)
Example ex_escape_2_bytes : tags_of_run false [45;45;45;32;33;101;37;67;51;37;65;57;32;120]
  = ([Some ([33], [101;233])], PDone).
Proof. vm_compute. reflexivity. Qed.
(* "--- !<%F0%9F%98%80> x" : U+1F600 *)
Example ex_escape_4_bytes : tags_of_run false [45;45;45;32;33;60;37;70;48;37;57;70;37;57;56;37;56;48;62;32;120]
  = ([Some ([], [128512])], PDone).
Proof. vm_compute. reflexivity. Qed.
(* two %TAG lines are in force together; every spelling *)
Example ex_all_spellings : tags_of_run false [37;84;65;71;32;33;97;33;32;116;97;103;58;97;44;10;37;84;65;71;32;33;98;33;32;116;97;103;58;98;44;10;45;45;45;32;91;33;97;33;120;32;49;44;32;33;98;33;121;32;50;44;32;33;33;115;116;114;32;51;44;32;33;108;32;52;44;32;33;32;53;44;32;33;60;118;58;119;62;32;54;93;10]
  = ([None; Some ([116;97;103;58;97;44], [120]); Some ([116;97;103;58;98;44], [121]); Some ([116;97;103;58;121;97;109;108;46;111;114;103;44;50;48;48;50;58], [115;116;114]); Some ([33], [108]); Some ([], [33]); Some ([], [118;58;119])], PDone).
Proof. vm_compute. reflexivity. Qed.
(* %TAG ! and %TAG !! redefine the primary and secondary handles *)
Example ex_redefined_primary_secondary : tags_of_run false [37;84;65;71;32;33;32;116;97;103;58;112;44;10;37;84;65;71;32;33;33;32;116;97;103;58;113;44;10;45;45;45;32;91;33;120;32;49;44;32;33;32;50;44;32;33;33;115;116;114;32;51;93;10]
  = ([None; Some ([116;97;103;58;112;44], [120]); Some ([], [33]); Some ([116;97;103;58;113;44], [115;116;114])], PDone).
Proof. vm_compute. reflexivity. Qed.
(* a handle declared twice in one document *)
Example ex_duplicate_handle : snd (tags_of_run false [37;84;65;71;32;33;97;33;32;116;97;103;58;97;44;10;37;84;65;71;32;33;97;33;32;116;97;103;58;98;44;10;45;45;45;32;120;10]) = PParseErr 21 {| m_index := 16; m_line := 2; m_col := 0 |}.
Proof. vm_compute. reflexivity. Qed.
(* %YAML twice *)
Example ex_duplicate_yaml : snd (tags_of_run false [37;89;65;77;76;32;49;46;50;10;37;89;65;77;76;32;49;46;50;10;45;45;45;32;120;10]) = PParseErr 2 {| m_index := 10; m_line := 2; m_col := 0 |}.
Proof. vm_compute. reflexivity. Qed.
(* a reserved directive may be repeated *)
(* reserved directives are exempt *)
Example ex_reserved_twice : tags_of_run false [37;70;79;79;32;97;10;37;70;79;79;32;98;10;45;45;45;32;33;32;120;10]
  = ([Some ([], [33])], PDone).
Proof. vm_compute. reflexivity. Qed.
(* a named handle with no declaration *)
Example ex_undeclared : tags_of_run false [45;45;45;32;33;117;33;120;32;97;10] = ([], PParseErr 20 {| m_index := 4; m_line := 1; m_col := 4 |}).
Proof. vm_compute. reflexivity. Qed.
(* declarations end with their document ... *)
Example ex_scope : tags_of_run false [37;84;65;71;32;33;97;33;32;116;97;103;58;97;44;10;45;45;45;32;33;97;33;120;32;49;10;45;45;45;32;33;97;33;120;32;50;10] = ([Some ([116;97;103;58;97;44], [120])], PParseErr 20 {| m_index := 31; m_line := 3; m_col := 4 |}).
Proof. vm_compute. reflexivity. Qed.
(* ... unless keep_tags is set *)
Example ex_keep_tags : tags_of_run true [37;84;65;71;32;33;97;33;32;116;97;103;58;97;44;10;45;45;45;32;33;97;33;120;32;49;10;45;45;45;32;33;97;33;120;32;50;10]
  = ([Some ([116;97;103;58;97;44], [120]); Some ([116;97;103;58;97;44], [120])], PDone).
Proof. vm_compute. reflexivity. Qed.
(* with keep_tags a later document may declare the handle again: the new prefix wins *)
Example ex_keep_tags_override : tags_of_run true [37;84;65;71;32;33;97;33;32;116;97;103;58;97;44;10;45;45;45;32;33;97;33;120;32;49;10;46;46;46;10;37;84;65;71;32;33;97;33;32;116;97;103;58;98;44;10;45;45;45;32;33;97;33;120;32;50;10]
  = ([Some ([116;97;103;58;97;44], [120]); Some ([116;97;103;58;98;44], [120])], PDone).
Proof. vm_compute. reflexivity. Qed.

(* the specification itself *)
Example spec_duplicate : decls [DTag [33;97;33] [120]; DYaml 1 2; DTag [33;97;33] [121]] = DuplicateHandle 2.
Proof. reflexivity. Qed.
Example spec_expand_undeclared : expand [] [33;97;33] [120] = None.
Proof. reflexivity. Qed.
Example spec_expand_secondary : expand [] [33;33] [115] = Some (yaml_prefix, [115]).
Proof. reflexivity. Qed.
Example spec_tables : tables_of false [] [[DTag [33;97;33] [120]]; []] = [Some [([33;97;33], [120])]; Some []]
                      /\ tables_of true [] [[DTag [33;97;33] [120]]; []] = [Some [([33;97;33], [120])]; Some [([33;97;33], [120])]].
Proof. split; reflexivity. Qed.
(* the witnesses of the former finding: "%C0%AF", "%E0%80%AF", "%F0%80%80%AF" are errors of the model (site 53),
   and so is the whole stream "--- !e%C0%AF x" (scanner error at the tag) *)
Example ex_overlong_rejected :
  model_decodes [37;67;48;37;65;70] = None /\ model_decodes [37;69;48;37;56;48;37;65;70] = None
  /\ model_decodes [37;70;48;37;56;48;37;56;48;37;65;70] = None /\ model_decodes [37;50;70] = Some 47.
Proof. repeat split; vm_compute; reflexivity. Qed.
Example ex_overlong_stream : tags_of_run false [45;45;45;32;33;101;37;67;48;37;65;70;32;120]
  = ([], PScanErr 53 {| m_index := 4; m_line := 1; m_col := 4 |}).
Proof. vm_compute. reflexivity. Qed.
Example spec_overlong : utf8_decode [192; 175] = None /\ utf8_decode [224; 128; 175] = None.
Proof. split; reflexivity. Qed.
Example spec_surrogate : utf8_decode [237; 160; 128] = None /\ utf8_decode [244; 144; 128; 128] = None.
Proof. split; reflexivity. Qed.

Example spec_percent_decode : percent_decode [101;37;67;51;37;65;57] = Some [101;233] /\ percent_decode [37;101;50;37;56;50;37;65;67;120;37;70;48;37;57;70;37;57;56;37;56;48] = Some [8364;120;128512]
  /\ percent_decode [37;67;51] = None /\ percent_decode [37;90;90] = None /\ percent_decode [37;67;48;37;65;70] = None.
Proof. repeat split; vm_compute; reflexivity. Qed.

(* ---------------------------------------------------------------------------------------------- *)
(* (i) TEXT level, other node positions (Proofs/TagContext.v).  The tagged scalar as the ENTRY of a      *)
(*     block sequence: the whole scanner on  "- " <tag> " x" LF  delivers StreamStart,                   *)
(*     BlockSequenceStart, BlockEntry, the ONE TTag token with the handle and the DECODED suffix at       *)
(*     index 2 / line 1 / column 2 spanning exactly the tag text, the scalar, BlockEnd, StreamEnd - for   *)
(*     every tag text of Spec/TagSpec.v.  (Scanner half only; the parser half for this token list is      *)
(*     C16_resolve / C16_node_tag.)                                                                       *)
(* ---------------------------------------------------------------------------------------------- *)
Theorem C16_text_entry_token_stream : forall ttext h sfx,
  tag_text ttext h sfx ->
  exists t0 pre rest, scan_str (45 :: 32 :: ttext ++ tail_x)
    = (t0 :: pre ++ tag_tok (mkm 2 1 2) (length ttext) h sfx :: rest, SEnded) /\
    snd t0 = TStreamStart /\ map snd pre = [TBlockSequenceStart; TBlockEntry] /\
    map snd rest = [TScalar Plain [120]; TBlockEnd; TStreamEnd].
Proof. exact scan_tagged_entry. Qed.
Print Assumptions C16_text_entry_token_stream.

(* "- !e%C3%A9 x\n", computed: the tag of the entry is ("!", "e" U+00E9) *)
Example ex_text_entry_computed : tags_of_run false [45;32;33;101;37;67;51;37;65;57;32;120;10]
  = ([None; Some ([33], [101;233])], PDone).
Proof. vm_compute. reflexivity. Qed.
(* "k: !!str x\n", computed *)
Example ex_text_value_computed : tags_of_run false [107;58;32;33;33;115;116;114;32;120;10]
  = ([None; None; Some ([116;97;103;58;121;97;109;108;46;111;114;103;44;50;48;48;50;58], [115;116;114])], PDone).
Proof. vm_compute. reflexivity. Qed.
