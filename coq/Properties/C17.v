(* C17 — Pull, peek and push interfaces tell the same story.
   Model: Model/Wrapper.v — Parser::peek / next_event / next_event_impl over an ABSTRACT deterministic core
   (Section variables: the theorems hold for every core, hence for the real state machine). *)
From Coq Require Import List Bool Arith NArith.
Import ListNotations.
Require Import Wrapper WrapperProofs.

(* For EVERY core, every peek/next history: each call reports the k-th result of plain iteration, k = number
   of Next calls made before it (so a Peek equals the following Next and consumes nothing), up to the first
   error; once a Next has returned StreamEnd every further Peek and Next returns nothing. *)
Theorem C17_histories : forall (core E Er : Type) (is_end : E -> bool) (step : core -> (E + Er) * core) c0 h,
  run core E Er is_end step h (init core E c0) = spec_run core E Er is_end step c0 h 0 false.
Proof. exact history_agrees_with_iteration. Qed.
Print Assumptions C17_histories.

Theorem C17_peek_is_next : forall (core E Er : Type) (is_end : E -> bool) (step : core -> (E + Er) * core) c0 h k ended ev,
  ended = false -> plain core E Er step c0 k = inl ev ->
  spec_run core E Er is_end step c0 (Peek :: Next :: h) k ended
  = Some (inl ev) :: Some (inl ev) :: spec_run core E Er is_end step c0 h (S k) (is_end ev).
Proof. exact peek_then_next. Qed.
Print Assumptions C17_peek_is_next.

Theorem C17_nothing_after_end : forall (core E Er : Type) (is_end : E -> bool) (step : core -> (E + Er) * core) c0 h k,
  spec_run core E Er is_end step c0 h k true = repeat None (length h).
Proof. exact nothing_after_stream_end. Qed.
Print Assumptions C17_nothing_after_end.

(* Non-vacuity: a concrete core (a list of results) and a concrete history. *)
Example C17_example :
  let step := fun c : list (nat + nat) => match c with [] => (inr 0, []) | r :: c' => (r, c') end in
  run (list (nat + nat)) nat nat (Nat.eqb 2) step [Peek; Peek; Next; Next; Peek; Next; Next; Peek]
      (init _ _ [inl 0; inl 1; inl 2])
  = [Some (inl 0); Some (inl 0); Some (inl 0); Some (inl 1); Some (inl 2); Some (inl 2); None; None].
Proof. reflexivity. Qed.

(* The push interface.  Model: Model/PushLoad.v (load / load_document / load_node / load_sequence / load_mapping as
   recursive functions over the iteration's results).  For EVERY list of iteration results that is a prefix of an
   event sentence and ends in an error (C02_run proves the prefix property of the parser for every token stream;
   for a complete stream the final error is a sentinel that is never reached): load(multi = true) either pushes a
   complete sentence - every event up to and including StreamEnd - and returns Ok, or stops at the iteration's first
   error having pushed exactly the events before it, returning that very error.  It never panics and never reports
   an error of its own. *)
Require Import Parser Grammar PushLoad PushLoadProofs.
Theorem C17_push_is_iteration : forall rs fuel,
  Pref GInit rs -> has_err rs = true -> 2 * length rs + 4 <= fuel ->
  good [] rs (fun consumed _ => grun GInit (kinds consumed) = Some GEnd) (load_multi fuel rs).
Proof. exact load_multi_is_iteration. Qed.
Print Assumptions C17_push_is_iteration.

Example C17_push_example :
  let sp := span_empty {| m_index := 0; m_line := 1; m_col := 0 |} in
  let evs := [(EStreamStart, sp); (EDocumentStart false, sp); (EMappingStart 0 None, sp); (EScalar [97%N] Plain 1 None, sp);
              (ESequenceStart 0 None, sp); (EAlias 1, sp); (ESequenceEnd, sp); (EMappingEnd, sp); (EDocumentEnd, sp); (EStreamEnd, sp)] in
  load_multi 100 (map inl evs ++ [inr PErrScan]) = LDone (rev evs) [inr PErrScan].
Proof. reflexivity. Qed.
Example C17_push_example_error :
  let sp := span_empty {| m_index := 0; m_line := 1; m_col := 0 |} in
  let evs := [(EStreamStart, sp); (EDocumentStart false, sp); (ESequenceStart 0 None, sp); (EScalar [97%N] Plain 0 None, sp)] in
  load_multi 100 (map inl evs ++ [inr (PErr 7 {| m_index := 3; m_line := 1; m_col := 3 |})])
  = LFail (PErr 7 {| m_index := 3; m_line := 1; m_col := 3 |}) (rev evs).
Proof. reflexivity. Qed.
