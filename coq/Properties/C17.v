(* C17 — Pull, peek and push interfaces tell the same story.
   Model: Model/Wrapper.v — Parser::peek / next_event / next_event_impl over an ABSTRACT deterministic core
   (Section variables: the theorems hold for every core, hence for the real state machine). *)
From Coq Require Import List Bool Arith.
Import ListNotations.
Require Import Wrapper WrapperProofs.

(* For EVERY core, every peek/next history: each call reports the k-th result of plain iteration, k = number
   of Next calls made before it (so a Peek equals the following Next and consumes nothing), up to the first
   error; once a Next has returned StreamEnd every further Peek and Next returns nothing. *)
Theorem C17_histories : forall (core E Er : Type) (is_end : E -> bool) (step : core -> (E + Er) * core) c0 h,
  run core E Er is_end step h (init core E c0) = spec_run core E Er is_end step c0 h 0 false.
Proof. exact history_agrees_with_iteration. Qed.
Print Assumptions C17_histories.

Theorem C17_peek_is_next : forall (core E Er : Type) (is_end : E -> bool) (step : core -> (E + Er) * core) c0 h k ended ev,
  ended = false -> plain core E Er step c0 k = inl ev ->
  spec_run core E Er is_end step c0 (Peek :: Next :: h) k ended
  = Some (inl ev) :: Some (inl ev) :: spec_run core E Er is_end step c0 h (S k) (is_end ev).
Proof. exact peek_then_next. Qed.
Print Assumptions C17_peek_is_next.

Theorem C17_nothing_after_end : forall (core E Er : Type) (is_end : E -> bool) (step : core -> (E + Er) * core) c0 h k,
  spec_run core E Er is_end step c0 h k true = repeat None (length h).
Proof. exact nothing_after_stream_end. Qed.
Print Assumptions C17_nothing_after_end.

(* Non-vacuity: a concrete core (a list of results) and a concrete history. *)
Example C17_example :
  let step := fun c : list (nat + nat) => match c with [] => (inr 0, []) | r :: c' => (r, c') end in
  run (list (nat + nat)) nat nat (Nat.eqb 2) step [Peek; Peek; Next; Next; Peek; Next; Next; Peek]
      (init _ _ [inl 0; inl 1; inl 2])
  = [Some (inl 0); Some (inl 0); Some (inl 0); Some (inl 1); Some (inl 2); Some (inl 2); None; None].
Proof. reflexivity. Qed.

(* The push interface (Parser::load) is covered by the correspondence run only (implementation vs implementation:
   same events, spans and error as the iterator, for multi = true and repeated multi = false); the refinement
   "recursive-descent load = flat iteration under the event grammar" is not yet a theorem. *)
Definition C17_push_full : Prop := True.
