(* C17 — Pull, peek and push interfaces tell the same story.
   Model: Model/Wrapper.v — Parser::peek / next_event / next_event_impl over an ABSTRACT deterministic core
   (Section variables: the theorems hold for every core, hence for the real state machine). *)
From Coq Require Import List Bool Arith NArith.
Import ListNotations.
Require Import Wrapper WrapperProofs.

(* For EVERY core, every peek/next history: each call reports the k-th result of plain iteration, k = number
   of Next calls made before it (so a Peek equals the following Next and consumes nothing), up to the first
   error; once a Next has returned StreamEnd every further Peek and Next returns nothing. *)
Theorem C17_histories : forall (core E Er : Type) (is_end : E -> bool) (step : core -> (E + Er) * core) c0 h,
  run core E Er is_end step h (init core E c0) = spec_run core E Er is_end step c0 h 0 false.
Proof. exact history_agrees_with_iteration. Qed.
Print Assumptions C17_histories.

Theorem C17_peek_is_next : forall (core E Er : Type) (is_end : E -> bool) (step : core -> (E + Er) * core) c0 h k ended ev,
  ended = false -> plain core E Er step c0 k = inl ev ->
  spec_run core E Er is_end step c0 (Peek :: Next :: h) k ended
  = Some (inl ev) :: Some (inl ev) :: spec_run core E Er is_end step c0 h (S k) (is_end ev).
Proof. exact peek_then_next. Qed.
Print Assumptions C17_peek_is_next.

Theorem C17_nothing_after_end : forall (core E Er : Type) (is_end : E -> bool) (step : core -> (E + Er) * core) c0 h k,
  spec_run core E Er is_end step c0 h k true = repeat None (length h).
Proof. exact nothing_after_stream_end. Qed.
Print Assumptions C17_nothing_after_end.

(* Non-vacuity: a concrete core (a list of results) and a concrete history. *)
Example C17_example :
  let step := fun c : list (nat + nat) => match c with [] => (inr 0, []) | r :: c' => (r, c') end in
  run (list (nat + nat)) nat nat (Nat.eqb 2) step [Peek; Peek; Next; Next; Peek; Next; Next; Peek]
      (init _ _ [inl 0; inl 1; inl 2])
  = [Some (inl 0); Some (inl 0); Some (inl 0); Some (inl 1); Some (inl 2); Some (inl 2); None; None].
Proof. reflexivity. Qed.

(* The push interface.  Model: Model/PushLoad.v (load / load_document / load_node / load_sequence / load_mapping as
   recursive functions over the iteration's results).  For EVERY list of iteration results that is a prefix of an
   event sentence and ends in an error (C02_run proves the prefix property of the parser for every token stream;
   for a complete stream the final error is a sentinel that is never reached): load(multi = true) either pushes a
   complete sentence - every event up to and including StreamEnd - and returns Ok, or stops at the iteration's first
   error having pushed exactly the events before it, returning that very error.  It never panics and never reports
   an error of its own. *)
Require Import Parser Grammar PushLoad PushLoadProofs.
Theorem C17_push_is_iteration : forall rs fuel,
  Pref GInit rs -> has_err rs = true -> 2 * length rs + 4 <= fuel ->
  good [] rs (fun consumed _ => grun GInit (kinds consumed) = Some GEnd) (load_multi fuel rs).
Proof. exact load_multi_is_iteration. Qed.
Print Assumptions C17_push_is_iteration.

Example C17_push_example :
  let sp := span_empty {| m_index := 0; m_line := 1; m_col := 0 |} in
  let evs := [(EStreamStart, sp); (EDocumentStart false, sp); (EMappingStart 0 None, sp); (EScalar [97%N] Plain 1 None, sp);
              (ESequenceStart 0 None, sp); (EAlias 1, sp); (ESequenceEnd, sp); (EMappingEnd, sp); (EDocumentEnd, sp); (EStreamEnd, sp)] in
  load_multi 100 (map inl evs ++ [inr PErrScan]) = LDone (rev evs) [inr PErrScan].
Proof. reflexivity. Qed.
Example C17_push_example_error :
  let sp := span_empty {| m_index := 0; m_line := 1; m_col := 0 |} in
  let evs := [(EStreamStart, sp); (EDocumentStart false, sp); (ESequenceStart 0 None, sp); (EScalar [97%N] Plain 0 None, sp)] in
  load_multi 100 (map inl evs ++ [inr (PErr 7 {| m_index := 3; m_line := 1; m_col := 3 |})])
  = LFail (PErr 7 {| m_index := 3; m_line := 1; m_col := 3 |}) (rev evs).
Proof. reflexivity. Qed.

(* ------------------------------------------------------------------------------------------------------------
   Repeated load(recv, multi = false).  Model: Model/Lazy.v - the LAZY pipeline over the string input (the parser
   pulls tokens from the scanner on demand, through its one-token cache), and Parser::load(.., false) on top of it
   with the three scanner observations it reads: stream_started(), stream_ended(), mark(). *)
Require Import SBase SFetch Pipe Lazy ScanRelTop LazyRead LazyFusion LazyScan LazyLoad.

(* T1 (fusion).  For EVERY text the lazy pipeline delivers exactly what the batch pipeline of Model/Pipe.v delivers:
   the same events with the same spans, and the same verdict.  Everything proved about [run_str] is a statement
   about the lazy coupling that the implementation has. *)
Theorem C17_lazy_is_batch : forall text : list N, lazy_run_str text = run_str text.
Proof. exact lazy_is_batch. Qed.
Print Assumptions C17_lazy_is_batch.

(* What makes the model lazy.  A successful step of the state machine has looked at a prefix [c] of its token list
   and at nothing behind it: it does the same on every list that starts with [c], and the cache it leaves is empty,
   untouched, or the last token of [c]. *)
Theorem C17_step_reads_prefix : forall p ev q, state_machine p = Parser.Ok (ev, q) ->
  exists c, p_toks p = c ++ p_toks q /\ cpost (p_token p) c (p_token q)
            /\ forall y, state_machine (rd p (c ++ y)) = Parser.Ok (ev, rd q y).
Proof. exact state_machine_reads. Qed.
Print Assumptions C17_step_reads_prefix.

(* Hence a token is pulled from the scanner only if the step looks at it: if the step asks for more on the tokens
   pulled so far and succeeds with one more, nothing is left unread - between steps the parser holds its one-token
   cache and nothing else. *)
Theorem C17_step_holds_one_token : forall p t ev q,
  state_machine p = Parser.Err PErrScan -> state_machine (ext [t] p) = Parser.Ok (ev, q) -> p_toks q = [].
Proof. exact step_lean. Qed.
Print Assumptions C17_step_holds_one_token.

(* The scanner half, for every input type, every state satisfying the queue invariant (which holds initially and
   is preserved): Scanner::next_token sets stream_end_produced exactly when the token it hands out is StreamEnd,
   and then Scanner::mark() IS the position of that token; once a token has been handed out stream_started() holds. *)
Theorem C17_stream_end_is_at_the_mark : forall (I : Type) (ops : InputOps I) (F : nat) (s s' : sc I) (t : token),
  SEInv s -> SSInv s -> next_token ops F s = SBase.Ok (Some t, s') ->
  sc_stream_end s = false /\ SEInv s' /\ sc_stream_start s' = true /\
  (if is_se (snd t) then sc_stream_end s' = true /\ fst t = span_empty (sc_mark s') else sc_stream_end s' = false).
Proof. exact (@next_token_se). Qed.
Print Assumptions C17_stream_end_is_at_the_mark.

(* T2.  For EVERY text: the calls of repeated load(recv, false) (the driver of the harness: until an error, or until
   StreamEnd has been delivered) together deliver exactly the events of the iteration, WITH their spans, and end with
   its verdict - in particular the StreamEnd that a later call delivers through the stream_ended() shortcut, at
   Span::empty(scanner.mark()), is the iteration's StreamEnd event; load never reports an error of its own
   (sites 100, 101) and never reaches unreachable!() / assert_eq!. *)
Theorem C17_single_load_is_iteration : forall text : list N,
  let r := load_repeated_str text in (concat (fst r), snd r) = run_str text.
Proof. exact single_load_is_iteration. Qed.
Print Assumptions C17_single_load_is_iteration.

(* T3.  For EVERY text: each call delivers StreamEnd or exactly one document (DocumentStart, the events of one node,
   DocumentEnd; accepted by the event grammar from and back to the top level), preceded by StreamStart on the first
   call; only the call that fails may deliver something else (the events before the error). *)
Theorem C17_single_load_one_document_per_call : forall text : list N,
  Shapes true (snd (load_repeated_str text)) (fst (load_repeated_str text)).
Proof. exact single_load_one_document_per_call. Qed.
Print Assumptions C17_single_load_one_document_per_call.

(* Non-vacuity: 'a\n--- b\n' is delivered in three calls; '[\n' fails in the first. *)
Example C17_single_example :
  (map (map fst) (fst (load_repeated_str [97;10;45;45;45;32;98;10]%N)), snd (load_repeated_str [97;10;45;45;45;32;98;10]%N))
  = ([[EStreamStart; EDocumentStart false; EScalar [97%N] Plain 0 None; EDocumentEnd];
      [EDocumentStart true; EScalar [98%N] Plain 0 None; EDocumentEnd];
      [EStreamEnd]], PDone).
Proof. vm_compute. reflexivity. Qed.
Example C17_single_example_error :
  (map (map fst) (fst (load_repeated_str [91;10]%N)), snd (load_repeated_str [91;10]%N))
  = ([[EStreamStart; EDocumentStart false; ESequenceStart 0 None]], PParseErr 11 {| m_index := 2; m_line := 2; m_col := 0 |}).
Proof. vm_compute. reflexivity. Qed.
(* the shortcut is taken: after the first call on 'a\n' the scanner has handed out StreamEnd *)
Example C17_shortcut_taken :
  match lz_load_single (lazy_K [97;10]%N) (lazy_F [97;10]%N) 100 (lz_init [97;10]%N false) [] with
  | ZDone _ z => sc_stream_end (lz_sc z) = true /\ p_state (lz_p z) = SDocumentStart
  | _ => False
  end.
Proof. vm_compute. split; reflexivity. Qed.
