(* C14 — Line-break style does not change the parse.  (theorems: Proofs/BreakProofs.v) *)
From Coq Require Import List NArith Bool.
Import ListNotations.
Require Import Parser SBase SBuf SFetch Pipe Positions BreakProofs ScanBrk ScanBrkParse ScanBrkTop ScanBrkAll BufferedTransfer.
Open Scope N_scope.

(* Line and column of the image of a position are unchanged when every LF is replaced by CR LF or by CR:
   the recount sees the same number of breaks and the same column. *)
Theorem C14_positions_crlf : forall s n,
  Forall (fun c => c <> 13) s -> pos_go (crlf s) (length (crlf (firstn n s))) 1 0 = pos_go s (Nat.min n (length s)) 1 0.
Proof. exact pos_crlf. Qed.
Print Assumptions C14_positions_crlf.

(* SCANNER + PARSER LEVEL.  For every CR-free text x and both substitutions, the model pipeline delivers the same
   events - EVR: equal event (kind, scalar text with breaks as line feeds, style, anchor id, tag) and spans that agree
   in LINE and COLUMN (only the character index differs) - and ends the same way - PER: both PDone, or the same
   scan / parse error site at markers with the same line and column -, unless one of the two runs ends in a panic
   (running out of fuel is excluded by C01_pipeline_terminates_linear, already discharged inside the lemma).
   MR m1 m2 := m_line m1 = m_line m2 /\ m_col m1 = m_col m2. *)
Theorem C14_pipeline_crlf : forall x : list chr, nocr x ->
  is_panic (snd (run_str x)) \/ is_panic (snd (run_str (crlf x))) \/
  (Forall2 EVR (fst (run_str x)) (fst (run_str (crlf x))) /\ PER (snd (run_str x)) (snd (run_str (crlf x)))).
Proof. exact pipeline_crlf. Qed.
Print Assumptions C14_pipeline_crlf.

Theorem C14_pipeline_cr : forall x : list chr, nocr x ->
  is_panic (snd (run_str x)) \/ is_panic (snd (run_str (cr x))) \/
  (Forall2 EVR (fst (run_str x)) (fst (run_str (cr x))) /\ PER (snd (run_str x)) (snd (run_str (cr x)))).
Proof. exact pipeline_cr. Qed.
Print Assumptions C14_pipeline_cr.

(* The scanner alone, for ALL fuels on both sides: related ends, and related token lists when both ends are proper. *)
Theorem C14_scanner_break_style : forall md, brk_target md.
Proof. exact scanner_brk. Qed.
Print Assumptions C14_scanner_break_style.

(* non-vacuity: a multi-line document with a folded quoted scalar, a block scalar and a comment *)
Definition c14_doc : list N := [97; 58; 32; 34; 120; 10; 32; 121; 34; 10; 98; 58; 32; 124; 10; 32; 32; 122; 10; 35; 99; 10].
Example C14_example_crlf :
  Forall (fun c => c <> 13) c14_doc /\ snd (run_str c14_doc) = PDone /\ snd (run_str (crlf c14_doc)) = PDone
  /\ map fst (fst (run_str c14_doc)) = map fst (fst (run_str (crlf c14_doc))).
Proof. split; [repeat constructor; discriminate|]. vm_compute. repeat split; reflexivity. Qed.

(* ... and with the panic freedom of the string pipeline (C01_pipeline_never_panics_str) NO exception is left:
   for every CR-free text, both substitutions give the same events with the same line and column in every span
   and the same end. *)
Theorem C14_crlf : forall x : list chr, nocr x ->
  Forall2 EVR (fst (run_str x)) (fst (run_str (crlf x))) /\ PER (snd (run_str x)) (snd (run_str (crlf x))).
Proof. exact pipeline_crlf_total. Qed.
Print Assumptions C14_crlf.

Theorem C14_cr : forall x : list chr, nocr x ->
  Forall2 EVR (fst (run_str x)) (fst (run_str (cr x))) /\ PER (snd (run_str x)) (snd (run_str (cr x))).
Proof. exact pipeline_cr_total. Qed.
Print Assumptions C14_cr.

(* The same over BUFFERED input back-ends of any capacities >= 8 (the two runs may use different ones): unconditionally,
   since every buffered pipeline returns exactly what the string pipeline returns (C10_pipeline_backends_equal; bounded
   work is proved for the buffered instance too: C01_pipeline_terminates_linear_buffered). *)
Theorem C14_crlf_buffered : forall (x : list chr) cap1 cap2,
  (8 <= cap1)%nat -> (8 <= cap2)%nat -> nocr x ->
  Forall2 EVR (fst (run_buf cap1 x)) (fst (run_buf cap2 (crlf x)))
  /\ PER (snd (run_buf cap1 x)) (snd (run_buf cap2 (crlf x))).
Proof. exact pipeline_crlf_buffered_total. Qed.
Print Assumptions C14_crlf_buffered.

Theorem C14_cr_buffered : forall (x : list chr) cap1 cap2,
  (8 <= cap1)%nat -> (8 <= cap2)%nat -> nocr x ->
  Forall2 EVR (fst (run_buf cap1 x)) (fst (run_buf cap2 (cr x)))
  /\ PER (snd (run_buf cap1 x)) (snd (run_buf cap2 (cr x))).
Proof. exact pipeline_cr_buffered_total. Qed.
Print Assumptions C14_cr_buffered.

Example C14_buffered_example :
  let x := [97; 58; 10; 32; 32; 45; 32; 98; 10; 32; 32; 45; 32; 34; 99; 10; 32; 32; 32; 32; 100; 34; 10] in
  snd (run_buf 8 x) = PDone /\ snd (run_buf 16 (crlf x)) = PDone.
Proof. vm_compute. split; reflexivity. Qed.
