(* C14 — Line-break style does not change the parse.  (theorems: Proofs/BreakProofs.v) *)
From Coq Require Import List NArith Bool.
Import ListNotations.
Require Import Positions BreakProofs.
Open Scope N_scope.

(* Line and column of the image of a position are unchanged when every LF is replaced by CR LF or by CR:
   the recount sees the same number of breaks and the same column. *)
Theorem C14_positions_crlf : forall s n,
  Forall (fun c => c <> 13) s -> pos_go (crlf s) (length (crlf (firstn n s))) 1 0 = pos_go s (Nat.min n (length s)) 1 0.
Proof. exact pos_crlf. Qed.
Print Assumptions C14_positions_crlf.
