(* C13 — Every JSON text loads with its JSON meaning.
   Spec: Spec/Json.v (JSON values, RFC 8259 number grammar, the token sequence of a JSON text, the YAML data a
   value denotes).  Models: Parser.v (pull parser over tokens), Loader.v (YamlLoader), Resolver.v (scalar typing),
   PipeL.v (Parser::load / run_load).  Proofs: Proofs/JsonProofs.v.

   WHAT IS PROVED (token level, for ALL JSON values — no bound on size or nesting, any spans on the tokens,
   any scanner ending, any sufficient fuel): the parser model and the loader model, run on the token stream
   StreamStart · json_tokens v · StreamEnd, end normally and yield exactly ONE document, [yaml_of_json v]:
   objects as mappings with string keys, arrays as sequences, strings unchanged, every RFC 8259 number as the
   i64 integer or the exact decimal float it denotes, true/false/null as booleans and null.

   WHAT IS NOT PROVED HERE (said precisely): the text -> tokens half, i.e. that the scanner model turns every
   serialisation of v (any insignificant spaces, tabs, LF, CR around the tokens; nesting below 256, the u8 flow
   level of the scanner; \u escapes that are not surrogate halves) into [wrap (json_tokens v)] with the escapes of
   strings decoded.  That half is FALSE on the unchanged tree for one class of texts — a ':' followed only by
   TAB(s) and then a number or literal, see [C13_text_refuted] — and is otherwise checked dynamically on every
   run: ./check C13 compares the implementation's real token stream (hx tokens) with the extracted [json_tokens]
   of the generating value, and the loaded data with the extracted [yaml_of_json] (oracle [c13_impl_ok]). *)
From Coq Require Import List NArith ZArith Bool.
Import ListNotations.
Require Import Parser SBase SFetch Pipe Resolver CoreSchema Loader PipeL Json C02run Drivers JsonProofs.

(* Parser + loader (the part of run_load behind the scanner) on the tokens of any JSON value: one document,
   the value.  Duplicate member names: the last value wins ([obj_norm]). *)
Theorem C13_tokens_load : forall v ts se fuel,
  json_wf v = true -> map snd ts = wrap (json_tokens v) -> (length ts + 2 < fuel)%nat ->
  load_tokens fuel ts se = LDocs [yaml_of_json v].
Proof. exact tokens_load. Qed.
Print Assumptions C13_tokens_load.

(* The same in terms of the bare event loop (Parser::next_event) and the loader state: the run is complete
   (PDone), the events are the expected sentence and loading them leaves exactly one finished document. *)
Theorem C13_tokens_events : forall v ts keep se fuel,
  map snd ts = wrap (json_tokens v) -> (length ts + 2 < fuel)%nat ->
  let r := parse_all fuel (init_parser ts keep) se [] in
  snd r = PDone /\ evs_of (fst r) = json_doc_events v.
Proof. exact tokens_parse_all. Qed.
Print Assumptions C13_tokens_events.

Theorem C13_tokens_loader : forall v ts keep se fuel,
  json_wf v = true -> map snd ts = wrap (json_tokens v) -> (length ts + 2 < fuel)%nat ->
  load_events (evs_of (fst (parse_all fuel (init_parser ts keep) se []))) l0 = LOk (LD [yaml_of_json v] [] [] []).
Proof. exact tokens_load_events. Qed.
Print Assumptions C13_tokens_loader.

(* Objects whose member names are pairwise distinct (at every level) load as mappings in source order. *)
Theorem C13_tokens_ordered : forall v ts se fuel,
  json_wf v = true -> json_distinct v = true -> map snd ts = wrap (json_tokens v) -> (length ts + 2 < fuel)%nat ->
  load_tokens fuel ts se = LDocs [yaml_of_json_ordered v].
Proof. exact tokens_load_ordered. Qed.
Print Assumptions C13_tokens_ordered.

(* The two halves of the stack machine, in their generalised form.
   Parser: from ANY state that is about to parse a node (any continuation K, any stack, any remaining tokens),
   the tokens of v produce exactly [json_events v] and pop back to K with the remaining tokens. *)
Theorem C13_parser : forall v, NodeRun v.
Proof. exact node_run. Qed.
Print Assumptions C13_parser.
(* Loader: loading the events of v from ANY loader state is inserting the single node [yaml_of_json v]. *)
Theorem C13_loader : forall v, json_wf v = true ->
  forall ld, load_events (json_events v) ld = insert_new_node ld (yaml_of_json v) 0.
Proof. exact load_node. Qed.
Print Assumptions C13_loader.

(* Numbers: every RFC 8259 number is a core-schema literal; the resolver reads it as the i64 integer it spells,
   or else as the exact decimal float (C08's int_complete / float_complete). *)
Theorem C13_numbers : forall t, json_number t = true ->
  json_num_value t = Some (json_num_scalar t) /\ parse_from_cow t = json_num_scalar t.
Proof. exact json_number_both. Qed.
Print Assumptions C13_numbers.

(* How the token-level theorem composes with the scanner model (run_load = scanner model, then load_tokens):
   whenever the scanner model delivers the tokens of a JSON value for a text, run_load delivers the value. *)
Theorem C13_text_of_tokens : forall s v,
  json_wf v = true ->
  (forall F, let '(toks, _) := scan_all str_ops F (4 * F + 20) (init_sc {| si_chars := s; si_look := 0 |}) [] in
             map snd toks = wrap (json_tokens v) /\ (length toks + 2 < 4 * F + 20)%nat) ->
  run_load s = LDocs [yaml_of_json v].
Proof. exact text_load_of_tokens. Qed.
Print Assumptions C13_text_of_tokens.

(* ---------------- examples: hypotheses satisfiable, end-to-end instances, the known finding ---------------- *)
Definition ex_value : jvalue :=
  JObj [ ([97]%N, JArr [JNum [49]%N; JNum [45;50;46;53;101;51]%N; JBool true; JNull; JStr [120;10;233]%N]);
         ([98]%N, JObj []);
         ([97]%N, JBool false) ].
Example C13_ex_wf : json_wf ex_value = true /\ json_distinct ex_value = false.
Proof. split; reflexivity. Qed.
(* {"a": [1, -2.5e3, true, null, "x\né"],<CR><LF><TAB>"b": {}, "a": false} through the scanner model *)
Definition ex_text : list N :=
  [123;34;97;34;58;32;91;49;44;32;45;50;46;53;101;51;44;32;116;114;117;101;44;32;110;117;108;108;44;32;34;120;92;110;92;
   117;48;48;101;57;34;93;44;13;10;9;34;98;34;58;32;123;125;44;32;34;97;34;58;32;102;97;108;115;101;125]%N.
Example C13_ex_scan : map snd (fst (scan_str ex_text)) = wrap (json_tokens ex_value).
Proof. vm_compute. reflexivity. Qed.
Example C13_ex_load : run_load ex_text = LDocs [yaml_of_json ex_value].
Proof. vm_compute. reflexivity. Qed.
Example C13_ex_dup_last_wins :
  yaml_of_json ex_value = YMap [(YVal (SStr [98]%N), YMap []); (YVal (SStr [97]%N), YVal (SBool false))].
Proof. vm_compute. reflexivity. Qed.
(* the number oracle is not trivially true *)
Example C13_ex_numbers :
  map json_num_scalar [[45;48]; [57;50;50;51;51;55;50;48;51;54;56;53;52;55;55;53;56;48;56]; [49;69;52;48;48]]%N
  = [SInt 0; SFloat (FDec false 9223372036854775808 0); SFloat (FDec false 1 400)].
Proof. vm_compute. reflexivity. Qed.

(* ---------------- the text level ----------------
   The full statement of C13 over the whole model pipeline (scanner + parser + loader), with the class of the
   known finding excluded.  NOT PROVED: it needs the scanner half (scan_str of every serialisation of v is
   wrap (json_tokens v) with decoded strings; then C13_text_of_tokens concludes).  Spec/Json.v: json_doc_text,
   colon_tab. *)
Definition C13_text_full : Prop := forall v s,
  json_doc_text v s -> (json_depth v < 256)%nat -> colon_tab Tout s = false -> run_load s = LDocs [yaml_of_json v].
Example C13_text_instance :
  json_doc_text (JArr [JNum [49]%N; JStr [97;10;233]%N]) [91;49;32;44;10;34;97;92;110;92;117;48;48;101;57;34;93]%N
  /\ run_load [91;49;32;44;10;34;97;92;110;92;117;48;48;101;57;34;93]%N = LDocs [yaml_of_json (JArr [JNum [49]%N; JStr [97;10;233]%N])].
Proof. split; [exact text_example|vm_compute; reflexivity]. Qed.

(* KNOWN FINDING (recorded in known_findings_c13.jsonl, not repaired): without the exclusion the statement is FALSE
   on the unchanged tree.  The text {"a":<TAB>1} is a serialisation of {"a": 1} (valid JSON, depth 1) and is
   REJECTED: the check "':' must be followed by a valid YAML whitespace" of fetch_value also fires in flow context.
   The scanner model reproduces it (the implementation does too: ./check C13 prints the KNOWN-FINDING line). *)
Theorem C13_text_refuted :
  exists v s, json_doc_text v s /\ (json_depth v < 256)%nat /\ colon_tab Tout s = true /\ run_load s = LErr.
Proof. exact text_refuted. Qed.
Print Assumptions C13_text_refuted.
(* with a space after the tab, or a quoted value after the tab, the same text loads *)
Example C13_tab_space_ok : run_load [123;34;97;34;58;9;32;49;125]%N = LDocs [yaml_of_json (JObj [([97]%N, JNum [49]%N)])].
Proof. vm_compute. reflexivity. Qed.
