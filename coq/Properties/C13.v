(* C13 — Every JSON text loads with its JSON meaning.
   Spec: Spec/Json.v (JSON values, RFC 8259 number grammar, the token sequence of a JSON text, the YAML data a
   value denotes).  Models: Parser.v (pull parser over tokens), Loader.v (YamlLoader), Resolver.v (scalar typing),
   PipeL.v (Parser::load / run_load).  Proofs: Proofs/JsonProofs.v.

   WHAT IS PROVED (token level, for ALL JSON values — no bound on size or nesting, any spans on the tokens,
   any scanner ending, any sufficient fuel): the parser model and the loader model, run on the token stream
   StreamStart · json_tokens v · StreamEnd, end normally and yield exactly ONE document, [yaml_of_json v]:
   objects as mappings with string keys, arrays as sequences, strings unchanged, every RFC 8259 number as the
   i64 integer or the exact decimal float it denotes, true/false/null as booleans and null.

   THE SCANNER HALF (text -> tokens), Proofs/JsonScanBase.v, JsonScanTok.v, JsonScanStr.v, JsonScanPlain.v, JsonWords.v,
   JsonScanRun.v, JsonScanTop.v: symbolic execution of the scanner model (Model/SFetch.v, SScalar.v, SPrim.v over the string
   input) on EVERY serialisation of every JSON value nested less than 256 deep (json_doc_text of Spec/Json.v: any insignificant
   space / TAB / LF / CR / CR LF before and after every token, strings with raw characters, two-character escapes and \uXXXX
   escapes of scalar values, numbers and literals as plain words, member names followed by ':' directly or after whitespace):
   the scanner delivers exactly StreamStart . json_tokens v . StreamEnd and ends normally (C13_scanner).
   Composed with the token level: C13_text_full_proved - run_load s = LDocs [yaml_of_json v] for every such text, over the
   whole model pipeline scanner + parser + loader + resolver.  The statement is about the MODEL; the tie to the
   implementation is dynamic: ./check C13 compares the implementation's real token stream (hx tokens) with the extracted
   [json_tokens] of the generating value, the loaded data with the extracted [yaml_of_json] (oracle [c13_impl_ok]) and with
   the model pipeline (mx load), on every generated text.
   Outside the statement: \u escapes that are surrogate halves (pairs are rejected by saphyr: observed, counted), nesting of
   256 and more (the scanner's u8 flow level: refused). *)
From Coq Require Import List NArith ZArith Bool Lia.
Import ListNotations.
Require Import Parser SBase SFetch Pipe Resolver CoreSchema Loader PipeL Json C02run Drivers JsonProofs JsonScanRun JsonScanTop JsonText.

(* Parser + loader (the part of run_load behind the scanner) on the tokens of any JSON value: one document,
   the value.  Duplicate member names: the last value wins ([obj_norm]). *)
Theorem C13_tokens_load : forall v ts se fuel,
  json_wf v = true -> map snd ts = wrap (json_tokens v) -> (length ts + 2 < fuel)%nat ->
  load_tokens fuel ts se = LDocs [yaml_of_json v].
Proof. exact tokens_load. Qed.
Print Assumptions C13_tokens_load.

(* The same in terms of the bare event loop (Parser::next_event) and the loader state: the run is complete
   (PDone), the events are the expected sentence and loading them leaves exactly one finished document. *)
Theorem C13_tokens_events : forall v ts keep se fuel,
  map snd ts = wrap (json_tokens v) -> (length ts + 2 < fuel)%nat ->
  let r := parse_all fuel (init_parser ts keep) se [] in
  snd r = PDone /\ evs_of (fst r) = json_doc_events v.
Proof. exact tokens_parse_all. Qed.
Print Assumptions C13_tokens_events.

Theorem C13_tokens_loader : forall v ts keep se fuel,
  json_wf v = true -> map snd ts = wrap (json_tokens v) -> (length ts + 2 < fuel)%nat ->
  load_events (evs_of (fst (parse_all fuel (init_parser ts keep) se []))) l0 = LOk (LD [yaml_of_json v] [] [] []).
Proof. exact tokens_load_events. Qed.
Print Assumptions C13_tokens_loader.

(* Objects whose member names are pairwise distinct (at every level) load as mappings in source order. *)
Theorem C13_tokens_ordered : forall v ts se fuel,
  json_wf v = true -> json_distinct v = true -> map snd ts = wrap (json_tokens v) -> (length ts + 2 < fuel)%nat ->
  load_tokens fuel ts se = LDocs [yaml_of_json_ordered v].
Proof. exact tokens_load_ordered. Qed.
Print Assumptions C13_tokens_ordered.

(* The two halves of the stack machine, in their generalised form.
   Parser: from ANY state that is about to parse a node (any continuation K, any stack, any remaining tokens),
   the tokens of v produce exactly [json_events v] and pop back to K with the remaining tokens. *)
Theorem C13_parser : forall v, NodeRun v.
Proof. exact node_run. Qed.
Print Assumptions C13_parser.
(* Loader: loading the events of v from ANY loader state is inserting the single node [yaml_of_json v]. *)
Theorem C13_loader : forall v, json_wf v = true ->
  forall ld, load_events (json_events v) ld = insert_new_node ld (yaml_of_json v) 0.
Proof. exact load_node. Qed.
Print Assumptions C13_loader.

(* Numbers: every RFC 8259 number is a core-schema literal; the resolver reads it as the i64 integer it spells,
   or else as the exact decimal float (C08's int_complete / float_complete). *)
Theorem C13_numbers : forall t, json_number t = true ->
  json_num_value t = Some (json_num_scalar t) /\ parse_from_cow t = json_num_scalar t.
Proof. exact json_number_both. Qed.
Print Assumptions C13_numbers.

(* How the token-level theorem composes with the scanner model (run_load = scanner model, then load_tokens):
   whenever the scanner model delivers the tokens of a JSON value for a text, run_load delivers the value. *)
Theorem C13_text_of_tokens : forall s v,
  json_wf v = true ->
  (forall F, let '(toks, _) := scan_all str_ops F (4 * F + 20) (init_sc {| si_chars := s; si_look := 0 |}) [] in
             map snd toks = wrap (json_tokens v) /\ (length toks + 2 < 4 * F + 20)%nat) ->
  run_load s = LDocs [yaml_of_json v].
Proof. exact text_load_of_tokens. Qed.
Print Assumptions C13_text_of_tokens.

(* ---------------- examples: hypotheses satisfiable, end-to-end instances ---------------- *)
Definition ex_value : jvalue :=
  JObj [ ([97]%N, JArr [JNum [49]%N; JNum [45;50;46;53;101;51]%N; JBool true; JNull; JStr [120;10;233]%N]);
         ([98]%N, JObj []);
         ([97]%N, JBool false) ].
Example C13_ex_wf : json_wf ex_value = true /\ json_distinct ex_value = false.
Proof. split; reflexivity. Qed.
(* {"a": [1, -2.5e3, true, null, "x\né"],<CR><LF><TAB>"b": {}, "a": false} through the scanner model *)
Definition ex_text : list N :=
  [123;34;97;34;58;32;91;49;44;32;45;50;46;53;101;51;44;32;116;114;117;101;44;32;110;117;108;108;44;32;34;120;92;110;92;
   117;48;48;101;57;34;93;44;13;10;9;34;98;34;58;32;123;125;44;32;34;97;34;58;32;102;97;108;115;101;125]%N.
Example C13_ex_scan : map snd (fst (scan_str ex_text)) = wrap (json_tokens ex_value).
Proof. vm_compute. reflexivity. Qed.
Example C13_ex_load : run_load ex_text = LDocs [yaml_of_json ex_value].
Proof. vm_compute. reflexivity. Qed.
Example C13_ex_dup_last_wins :
  yaml_of_json ex_value = YMap [(YVal (SStr [98]%N), YMap []); (YVal (SStr [97]%N), YVal (SBool false))].
Proof. vm_compute. reflexivity. Qed.
(* the number oracle is not trivially true *)
Example C13_ex_numbers :
  map json_num_scalar [[45;48]; [57;50;50;51;51;55;50;48;51;54;56;53;52;55;55;53;56;48;56]; [49;69;52;48;48]]%N
  = [SInt 0; SFloat (FDec false 9223372036854775808 0); SFloat (FDec false 1 400)].
Proof. vm_compute. reflexivity. Qed.

(* ---------------- the text level ----------------
   The full statement of C13 over the whole model pipeline (scanner + parser + loader + resolver).  Spec/Json.v: json_doc_text
   (RFC 8259 texts with their insignificant whitespace and escapes).  PROVED. *)
Definition C13_text_full : Prop := forall v s,
  json_doc_text v s -> (json_depth v < 256)%nat -> run_load s = LDocs [yaml_of_json v].
Theorem C13_text_full_proved : C13_text_full.
Proof. exact text_load. Qed.
Print Assumptions C13_text_full_proved.

(* Member names pairwise distinct at every level: the mappings are in source order. *)
Theorem C13_text_ordered : forall v s, json_doc_text v s -> (json_depth v < 256)%nat -> json_distinct v = true ->
  run_load s = LDocs [yaml_of_json_ordered v].
Proof. exact text_load_ordered. Qed.
Print Assumptions C13_text_ordered.

(* The event API (Parser::next_event loop over the scanner, Pipe.run_str): the run is complete and the events are those of the
   value - StreamStart, an implicit DocumentStart, json_events v, DocumentEnd, StreamEnd. *)
Theorem C13_text_events : forall v s, json_doc_text v s -> (json_depth v < 256)%nat ->
  snd (run_str s) = PDone /\ evs_of (fst (run_str s)) = json_doc_events v.
Proof. exact text_events. Qed.
Print Assumptions C13_text_events.

(* The scanner half alone: the scanner model, with any fuel unit F that covers the text (the pipeline uses 2 * length + 10),
   ends normally with the tokens of the value between StreamStart and StreamEnd; the token count stays below the fuel the
   pipeline gives the scanner. *)
Theorem C13_scanner : forall v s, json_doc_text v s -> (json_depth v < 256)%nat ->
  forall F, (2 * length s + 10 <= F)%nat ->
  let '(toks, se) := scan_all str_ops F (4 * F + 20) (init_sc {| si_chars := s; si_look := 0 |}) [] in
  map snd toks = wrap (json_tokens v) /\ se = SEnded /\ (length toks + 2 < 4 * F + 20)%nat.
Proof. exact text_tokens. Qed.
Print Assumptions C13_scanner.

(* The induction behind it: inside a flow collection (flow level fl > 0, the enclosing levels holding the pending root key),
   whatever the queue, the simple-key stack and the implicit-mapping states are, the scanner model run on whitespace w0, a
   serialisation t of v, whitespace w1 and then ',' ']' or '}' queues exactly json_tokens v and stands before that
   character (NodeScan, Proofs/JsonScanRun.v: runs of fetch_next_token while a token is needed). *)
Theorem C13_scanner_node : forall v t, json_text v t -> NodeScan v t.
Proof. exact node_scan. Qed.
Print Assumptions C13_scanner_node.

(* A JSON text denotes a well-formed value *)
Theorem C13_text_wf : forall v t, json_text v t -> json_wf v = true.
Proof. exact json_text_wf. Qed.
Print Assumptions C13_text_wf.

(* The same for one serialiser given as a FUNCTION (Spec/Json.v json_compact: no whitespace, the quote and the backslash escaped
   with a backslash, control characters as \u00XX): every JSON value whose numbers are RFC 8259 numbers and whose strings hold
   Unicode scalar values, nested less than 256 deep, loads from its compact text with its JSON meaning. *)
Theorem C13_compact_is_text : forall v, json_wf v = true -> json_chars_ok v = true -> json_text v (json_compact v).
Proof. exact json_compact_text. Qed.
Print Assumptions C13_compact_is_text.
Theorem C13_text_compact : forall v, json_wf v = true -> json_chars_ok v = true -> (json_depth v < 256)%nat ->
  run_load (json_compact v) = LDocs [yaml_of_json v].
Proof. exact compact_load. Qed.
Print Assumptions C13_text_compact.
(* the hypotheses are satisfiable, the compact text is what one expects, and the theorem's conclusion is what the model computes *)
Example C13_compact_instance :
  json_wf ex_value = true /\ json_chars_ok ex_value = true /\ (json_depth ex_value < 256)%nat
  /\ json_compact ex_value
     = [123;34;97;34;58;91;49;44;45;50;46;53;101;51;44;116;114;117;101;44;110;117;108;108;44;34;120;92;117;48;48;48;97;233;34;93;44;
        34;98;34;58;123;125;44;34;97;34;58;102;97;108;115;101;125]%N
  /\ run_load (json_compact ex_value) = LDocs [yaml_of_json ex_value].
Proof. repeat split; vm_compute; try reflexivity; lia. Qed.
(* a member name of 2000 characters inside nested arrays and objects (the 1024-character limit of /repo 57aa316 concerns the
   implicit key of a flow-SEQUENCE entry; JSON arrays hold no "key: value" entry and the names of {...} members are unlimited) *)
Example C13_long_member_name :
  let k := repeat 107%N 2000 in
  let v := JArr [JNum [48]%N; JArr [JObj [(k, JArr [JObj [(k, JStr k)]])]; JStr k]] in
  run_load (json_compact v) = LDocs [yaml_of_json v].
Proof. vm_compute. reflexivity. Qed.
(* C13_text_full_proved applied (not computed): the text of C13_text_instance, and a text of the tab class *)
Example C13_text_by_theorem :
  run_load [91;49;32;44;10;34;97;92;110;92;117;48;48;101;57;34;93]%N = LDocs [yaml_of_json (JArr [JNum [49]%N; JStr [97;10;233]%N])]
  /\ run_load [123;34;97;34;58;9;49;125]%N = LDocs [yaml_of_json (JObj [([97]%N, JNum [49]%N)])].
Proof.
  split; apply C13_text_full_proved; try (cbn; lia); [exact text_example|exact tab_text].
Qed.

Example C13_text_instance :
  json_doc_text (JArr [JNum [49]%N; JStr [97;10;233]%N]) [91;49;32;44;10;34;97;92;110;92;117;48;48;101;57;34;93]%N
  /\ run_load [91;49;32;44;10;34;97;92;110;92;117;48;48;101;57;34;93]%N = LDocs [yaml_of_json (JArr [JNum [49]%N; JStr [97;10;233]%N])].
Proof. split; [exact text_example|vm_compute; reflexivity]. Qed.

(* FORMER FINDING colon-tab-scalar (known_findings_c13.jsonl: fixed by /repo b87c12b).  The text {"a":<TAB>1} is a
   serialisation of {"a": 1} (valid JSON, depth 1); it used to be REJECTED ("':' must be followed by a valid YAML
   whitespace": the tab check of fetch_value fired in flow context too).  Now the whole model pipeline loads it,
   like every other text of the class (Spec/Json.v colon_tab: a ':' outside strings followed by TABs only and then
   a number or literal); ./check C13 runs the class as a regression stream on the implementation. *)
Example C13_tab_text : json_doc_text (JObj [([97]%N, JNum [49]%N)]) [123;34;97;34;58;9;49;125]%N
                       /\ colon_tab Tout [123;34;97;34;58;9;49;125]%N = true.
Proof. split; [exact tab_text|reflexivity]. Qed.
Example C13_tab_ok : run_load [123;34;97;34;58;9;49;125]%N = LDocs [yaml_of_json (JObj [([97]%N, JNum [49]%N)])].
Proof. exact (proj2 tab_text_loads). Qed.
(* {"a":<TAB><TAB>true,"b":<TAB>-1.5e3,"c":[{"d":<TAB>null}]} *)
Example C13_tab_ok2 :
  run_load [123;34;97;34;58;9;9;116;114;117;101;44;34;98;34;58;9;45;49;46;53;101;51;44;34;99;34;58;91;123;34;100;34;58;9;110;117;108;108;125;93;125]%N
  = LDocs [yaml_of_json (JObj [([97]%N, JBool true); ([98]%N, JNum [45;49;46;53;101;51]%N); ([99]%N, JArr [JObj [([100]%N, JNull)]])])].
Proof. vm_compute. reflexivity. Qed.
(* with a space after the tab, or a quoted value after the tab, the same text loads (it always did) *)
Example C13_tab_space_ok : run_load [123;34;97;34;58;9;32;49;125]%N = LDocs [yaml_of_json (JObj [([97]%N, JNum [49]%N)])].
Proof. vm_compute. reflexivity. Qed.
