(* C05 — Block scalars yield exactly the text YAML assigns to them.

   Specification: Spec/BlockScalar.v ([block_value], [content_indent], [render_block], [case_ok]), written from YAML 1.2.2
   chapter 8.1.  Model: Model/SScalar.v ([scan_block_scalar] and its helpers), tied to parser/src/scanner.rs by the
   differential run of vlib/p_c05.py.

   Proved here, for ALL inputs of the stated class, about the scanner model on the string back-end [str_ops]:
     T1  [nls] / chomping arithmetic;
     T2  [scan_block_scalar_content_line] appends exactly the line and stops in front of the break — through the
         buffered-peek loop (non-empty look-ahead) and through the raw fast path (empty look-ahead);
     T3  [skip_spaces_to], [skip_block_scalar_indent] (narrow path and wide path indent >= bufmaxlen - 2) and
         [skip_first_line_indent]: blank lines are counted, min(k, indent) spaces of the next line are consumed;
     T4  [C05_block_scalar_partial]: scan_block_scalar returns [block_value] for
           style        literal and folded
           chomping     strip, clip, keep
           indentation  explicit (1-9, either indicator order) or auto-detected; content indentation 0 (top level)
                        included: no content line at column 0 may look like a document marker, and the first
                        line may not start with a tab
           parent       any scanner state (parent indentation = what unroll_non_block_indents leaves, -1 at top level)
           header       indicators, then white space (blanks, tabs) and an optional comment, then the line break
           lines        ALL line lists of content lines (any extra indentation, whitespace-only content lines, lines
                        that look like YAML, tabs; no break / NUL characters inside) and blank lines (at most
                        `indent` spaces), with at least one content line; auto-detection: the first content line
                        has no extra indentation and is not whitespace-only
           line breaks  LF, CR LF or CR (one style per text; parameter [brk] of [with_breaks]: the text is the rendering
                        of the specification with every line feed replaced)
           end          [C05_block_scalar_partial]: every line terminated by a line break, then a less indented line
                        that does not start with a break, or the end of the input (trailing blank lines are part of
                        the line list), or — content indentation 0 — a document marker line `...` or `---`
                        ([ends_after]);
                        [C05_block_scalar_eof_partial]: the end of the input without a final line feed, in general:
                        right after the last content line (a whitespace-only line of MORE spaces than the indentation
                        is such a line), or inside a last line of 1 <= j <= indentation spaces (fewer spaces than the
                        indentation, or exactly as many) — an empty line, dropped by strip and clip, counted by keep:
                        the value is that of the same lines with a final line feed;
                        [C05_block_scalar_empty_partial]: NO content line at all — blank lines only (or nothing),
                        then the end of the input (with a final line feed, without, or inside a last line of
                        spaces: the end-of-stream path), a line of an enclosing collection, or a document marker
                        `...` / `---` at column 0
                        (the input ending on the header line itself is [block_scalar_header_eof], used by T5)
           back-end     string input
     T5  [C05_case_partial]: T4 restated on the cases of the specification — for EVERY [bcase] with [case_ok] outside
         the leading-tab class, in every break style, from any scanner state at the indicator with the parent
         indentation of the case: the token is (style, [case_value]); all side conditions of T4 are discharged from
         [case_ok] (Proofs/BlockScalarCase.v).
   NOT proved (stated as [C05_full], exercised by the Examples below and by the differential run): the syntactic
   contexts in front of the indicator (that the scanner reaches scan_block_scalar in the state T5 assumes), the buffered
   back-ends.  [C05_full] itself is refuted on
   the faithful model by ONE remaining input class (known_findings_c05.jsonl): a top-level scalar with auto-detected
   indentation whose first line starts with a tab at column 0 is rejected; the witness is a theorem below.  The three
   classes that refuted it before (end of the input inside a last line of spaces under clip and under keep, `---`
   after content at column 0) were repaired in /repo (42046c7, 001a921): they are inside T4 now, and their former
   witnesses are Examples of agreement. *)
From Coq Require Import List NArith ZArith Bool Arith Lia.
Import ListNotations.
Require Import Parser SBase SPrim SDir SScalar SFetch Pipe SBuf Drivers BlockScalar BlockScalarProofs BlockScalarCase.
Require Import FlowText ScalarContext ScalarContextBlock ScalarContext2BlockSib.
Require FlowFold.
Open Scope N_scope.

(* ---- T1 ---- *)
Theorem C05_nls_add : forall a b acc, nls (a + b) acc = nls a (nls b acc).
Proof. exact nls_add. Qed.
Print Assumptions C05_nls_add.

Theorem C05_nls_text : forall n acc, rev (nls n acc) = rev acc ++ lfs (N.to_nat n).
Proof. exact rev_nls. Qed.
Print Assumptions C05_nls_text.

Theorem C05_chomp_tail : forall c (acc : list chr) (tb : nat),
  rev (match to_model c with Keep => nls (N.of_nat tb) | _ => fun a => a end
         (match to_model c with Strip => acc | _ => nls 1 acc end))
  = rev acc ++ match c with CStrip => [] | CClip => [LF] | CKeep => lfs (S tb) end.
Proof. exact chomp_tail. Qed.
Print Assumptions C05_chomp_tail.

(* ---- T2 ---- *)
Theorem C05_content_line : forall brk (txt rest : list chr) F acc s lk m w,
  nobreak txt -> is_breakz (hd0 rest) = true -> (length txt < F)%nat ->
  scan_block_scalar_content_line str_ops F acc (mv s (txt ++ rest) lk m w)
  = Ok (rev txt ++ acc, mv s rest lk (mark_after brk m txt) w).
Proof. exact content_line_spec. Qed.
Print Assumptions C05_content_line.

(* ---- T3 ---- *)
Theorem C05_skip_spaces_to : forall k (rest : list chr) f indent cb s lk m w j,
  hd0 rest <> 32 -> (k < f)%nat -> (cb = true -> lk <> O) ->
  j = Nat.min k (N.to_nat (indent - m_col m)) ->
  skip_spaces_to str_ops f indent cb (mv s (sps k ++ rest) lk m w)
  = Ok (tt, mv s (sps (k - j) ++ rest) lk (adv (N.of_nat j) m) w).
Proof. exact skip_spaces_to_spec. Qed.
Print Assumptions C05_skip_spaces_to.

Theorem C05_block_scalar_indent : forall brk, break_style brk -> forall ks k (rest : list chr) F fuel indent breaks s lk m,
  m_col m = 0 ->
  Forall (fun k => N.of_nat k <= indent) ks ->
  hd0 rest <> 32 ->
  (indent < N.of_nat k \/ is_break (hd0 rest) = false) ->
  (length ks < fuel)%nat ->
  Forall (fun k => (k < F)%nat) (k :: ks) ->
  exists lk', (lk <= lk')%nat /\ lk' <> O /\
  skip_block_scalar_indent str_ops F fuel indent breaks (mv s (blank_lines brk ks ++ sps k ++ rest) lk m true)
  = Ok (breaks + N.of_nat (length ks),
        mv s (sps (k - Nat.min k (N.to_nat indent)) ++ rest) lk'
           (mark_after brk m (blank_lines brk ks ++ sps (Nat.min k (N.to_nat indent)))) true).
Proof. exact skip_block_scalar_indent_spec. Qed.
Print Assumptions C05_block_scalar_indent.

Theorem C05_first_line_indent : forall brk, break_style brk -> forall ks k (rest : list chr) F fuel maxi breaks s lk m,
  m_col m = 0 ->
  hd0 rest <> 32 -> is_break (hd0 rest) = false ->
  (length ks < fuel)%nat -> Forall (fun k => (k < F)%nat) (k :: ks) ->
  exists lk', (lk <= lk')%nat /\ lk' <> O /\
  skip_first_line_indent str_ops F fuel maxi breaks (mv s (blank_lines brk ks ++ sps k ++ rest) lk m true)
  = Ok ((N.max maxi (N.of_nat (maxl ks k)), breaks + N.of_nat (length ks)),
        mv s rest lk' (mark_after brk m (blank_lines brk ks ++ sps k)) true).
Proof. exact skip_first_line_indent_spec. Qed.
Print Assumptions C05_first_line_indent.

(* ---- T4 ---- *)
Theorem C05_block_scalar_partial : forall brk (s : sc strin) F literal c (explicit : option nat) (digit_first : bool) (hc : list chr)
    (lines : list bline) (j : nat) (r' : list chr) (n : nat) pz inds,
  si_chars (sc_in s) = with_breaks brk (render_block n literal c explicit digit_first hc lines (EofRest [])) ++ sps j ++ r' ->
  unroll_nb (sc_indents s) (sc_indent s) = (pz, inds) ->
  header_tail hc -> (2 * length hc + 2 < F)%nat ->
  Forall (line_ok F n) lines -> Forall (line_col0 n) lines -> (n = O -> first_char n lines <> 9) ->
  (S (length lines) < F)%nat -> has_text lines = true ->
  ends_after n j r' -> hd0 r' <> 32 -> is_break (hd0 r') = false -> (r' = [] -> j = O) -> (r' <> [] -> hd0 r' <> 0) ->
  match explicit with
  | Some d => (1 <= d <= 9)%nat /\ N.of_nat n = (if (0 <=? pz)%Z then Z.to_N (pz + Z.of_N (N.of_nat d)) else N.of_nat d)
  | None => Z.to_N (pz + 1) <= N.of_nat n /\ exists txt, first_text lines = Some (O, txt) /\ txt <> []
  end ->
  exists sp s', scan_block_scalar str_ops F literal s
                = Ok ((sp, TScalar (if literal then Literal else Folded) (block_value literal c lines)), s')
                /\ si_chars (sc_in s') = r'.
Proof. exact block_scalar_lines_k. Qed.
Print Assumptions C05_block_scalar_partial.

Theorem C05_block_scalar_eof_partial : forall brk (s : sc strin) F literal c (explicit : option nat) (digit_first : bool) (hc : list chr)
    (lines : list bline) (n : nat) pz inds,
  si_chars (sc_in s) = with_breaks brk (render_block n literal c explicit digit_first hc lines EofNone) ->
  unroll_nb (sc_indents s) (sc_indent s) = (pz, inds) ->
  header_tail hc -> (2 * length hc + 2 < F)%nat ->
  Forall (line_ok F n) lines -> Forall (line_col0 n) lines -> (n = O -> first_char n lines <> 9) ->
  (S (length lines) < F)%nat -> has_text lines = true ->
  last_line_nonempty lines ->
  match explicit with
  | Some d => (1 <= d <= 9)%nat /\ N.of_nat n = (if (0 <=? pz)%Z then Z.to_N (pz + Z.of_N (N.of_nat d)) else N.of_nat d)
  | None => Z.to_N (pz + 1) <= N.of_nat n /\ exists txt, first_text lines = Some (O, txt) /\ txt <> []
  end ->
  exists sp s', scan_block_scalar str_ops F literal s
                = Ok ((sp, TScalar (if literal then Literal else Folded) (block_value literal c lines)), s')
                /\ si_chars (sc_in s') = [].
Proof. exact block_scalar_lines_eof_k. Qed.
Print Assumptions C05_block_scalar_eof_partial.

Theorem C05_block_scalar_empty_partial : forall brk (s : sc strin) F literal c (explicit : option nat) (digit_first : bool)
    (hc : list chr) (ks : list nat) (j : nat) (r' : list chr) pz inds,
  si_chars (sc_in s) = header literal c explicit digit_first ++ hc ++ kbrk brk ++ blank_lines (kbrk brk) ks ++ sps j ++ r' ->
  unroll_nb (sc_indents s) (sc_indent s) = (pz, inds) ->
  header_tail hc -> (2 * length hc + 2 < F)%nat ->
  Forall (fun k => (k < F)%nat) (j :: ks) -> (S (length ks) < F)%nat ->
  hd0 r' <> 32 -> is_break (hd0 r') = false -> hd0 (blank_lines (kbrk brk) ks ++ sps j ++ r') <> 9 ->
  (* the end of the input, a line that belongs to an enclosing collection, or a document marker at column 0 *)
  (r' = [] \/ (hd0 r' <> 0 /\ (Z.of_nat j <= pz)%Z) \/ (j = O /\ doc_ind_b r' = true)) ->
  match explicit with
  | Some d => (1 <= d <= 9)%nat /\
              let n := if (0 <=? pz)%Z then Z.to_N (pz + Z.of_N (N.of_nat d)) else N.of_nat d in
              Forall (fun k => N.of_nat k <= n) (j :: ks)
  | None => True
  end ->
  exists sp s', scan_block_scalar str_ops F literal s
                = Ok ((sp, TScalar (if literal then Literal else Folded) (block_value literal c (empty_lines ks j r'))), s')
                /\ si_chars (sc_in s') = r'.
Proof. exact block_scalar_empty_k. Qed.
Print Assumptions C05_block_scalar_empty_partial.

From Coq Require Import String.

Ltac lines_ok := repeat (apply Forall_cons || apply Forall_nil); unfold line_ok, line_col0, nobreak; cbn;
  repeat split; try discriminate; try (right; discriminate); try (left; discriminate); try lia; try congruence; repeat constructor.

(* the hypotheses of T4 are satisfiable, and the conclusion is not vacuous: "|-\n  x\n\n   y\n \nz" at top level *)
Example C05_block_scalar_partial_instance :
  exists sp s', scan_block_scalar str_ops 40 true (init_sc {| si_chars := L "|-/  x//   y/ /z"; si_look := 0 |})
                = Ok ((sp, TScalar Literal (L "x// y")), s') /\ si_chars (sc_in s') = L "z".
Proof.
  apply (block_scalar_lines_k 0 _ 40 true CStrip None false [] [Text 0 (L "x"); Blank 0; Text 1 (L "y"); Blank 1] O (L "z") 2 (-1)%Z []).
  - reflexivity.
  - reflexivity.
  - apply ht_white. constructor.
  - cbn. lia.
  - lines_ok.
  - lines_ok.
  - discriminate.
  - cbn. lia.
  - reflexivity.
  - left. lia.
  - discriminate.
  - reflexivity.
  - discriminate.
  - discriminate.
  - split; [cbn; discriminate|]. exists (L "x"). split; [reflexivity|discriminate].
Qed.
Example C05_block_scalar_partial_instance_folded :   (* with a header comment *)
  exists sp s', scan_block_scalar str_ops 60 false (init_sc {| si_chars := L ">2+ # c/  x/  y//   z/  w/ /k: v"; si_look := 0 |})
                = Ok ((sp, TScalar Folded (L "x y// z/w//")), s') /\ si_chars (sc_in s') = L "k: v".
Proof.
  apply (block_scalar_lines_k 0 _ 60 false CKeep (Some 2%nat) true (L " # c")
           [Text 0 (L "x"); Text 0 (L "y"); Blank 0; Text 1 (L "z"); Text 0 (L "w"); Blank 1] O (L "k: v") 2 (-1)%Z []).
  - reflexivity.
  - reflexivity.
  - apply (ht_comment [32] (L " c")); [repeat constructor|discriminate|repeat constructor].
  - cbn. lia.
  - lines_ok.
  - lines_ok.
  - discriminate.
  - cbn. lia.
  - reflexivity.
  - left. lia.
  - discriminate.
  - reflexivity.
  - discriminate.
  - discriminate.
  - split; [lia|reflexivity].
Qed.
(* content at column 0 of a top-level scalar, ended by a document-end marker; by a document-start marker (the class
   repaired by 001a921); and by the end of the input *)
Example C05_block_scalar_partial_instance_column0 :
  exists sp s', scan_block_scalar str_ops 40 false (init_sc {| si_chars := L ">/a/b/ c//... # end/"; si_look := 0 |})
                = Ok ((sp, TScalar Folded (L "a b/ c/")), s') /\ si_chars (sc_in s') = L "... # end/".
Proof.
  apply (block_scalar_lines_k 0 _ 40 false CClip None false [] [Text 0 (L "a"); Text 0 (L "b"); Text 1 (L "c"); Blank 0]
           O (L "... # end/") O (-1)%Z []).
  - reflexivity.
  - reflexivity.
  - apply ht_white. constructor.
  - cbn. lia.
  - lines_ok.
  - lines_ok.
  - discriminate.
  - cbn. lia.
  - reflexivity.
  - right. right. repeat split.
  - discriminate.
  - reflexivity.
  - discriminate.
  - discriminate.
  - split; [cbn; lia|]. exists (L "a"). split; [reflexivity|discriminate].
Qed.
Example C05_block_scalar_partial_instance_document_start :   (* "|\na\n---\nb\n": the scalar is "a\n", `---` is left *)
  exists sp s', scan_block_scalar str_ops 40 true (init_sc {| si_chars := L "|/a/---/b/"; si_look := 0 |})
                = Ok ((sp, TScalar Literal (L "a/")), s') /\ si_chars (sc_in s') = L "---/b/".
Proof.
  apply (block_scalar_lines_k 0 _ 40 true CClip None false [] [Text 0 (L "a")] O (L "---/b/") O (-1)%Z []).
  - reflexivity.
  - reflexivity.
  - apply ht_white. constructor.
  - cbn. lia.
  - lines_ok.
  - lines_ok.
  - discriminate.
  - cbn. lia.
  - reflexivity.
  - right. right. repeat split.
  - discriminate.
  - reflexivity.
  - discriminate.
  - discriminate.
  - split; [cbn; lia|]. exists (L "a"). split; [reflexivity|discriminate].
Qed.
Example C05_block_scalar_eof_partial_instance :
  exists sp s', scan_block_scalar str_ops 40 true (init_sc {| si_chars := L "|+/x/ y"; si_look := 0 |})
                = Ok ((sp, TScalar Literal (L "x/ y/")), s') /\ si_chars (sc_in s') = [].
Proof.
  apply (block_scalar_lines_eof_k 0 _ 40 true CKeep None false [] [Text 0 (L "x"); Text 1 (L "y")] O (-1)%Z []).
  - reflexivity.
  - reflexivity.
  - apply ht_white. constructor.
  - cbn. lia.
  - lines_ok.
  - lines_ok.
  - discriminate.
  - cbn. lia.
  - reflexivity.
  - exact I.
  - split; [cbn; lia|]. exists (L "x"). split; [reflexivity|discriminate].
Qed.

(* The end of the input inside a last line of spaces, after content, as a mapping value (parent indentation 0,
   content indentation 2): fewer spaces than the indentation, exactly as many (both: an empty line — clip gives one
   final line feed, keep two), and more (a content line of one space).  The first two were wrong before 42046c7
   (keep dropped the short line, clip doubled the line feed after the exact one). *)
Definition in_map_value (t : list N) : sc strin :=
  set_indent 0%Z [{| in_indent := (-1)%Z; in_needs_block_end := true |}] (init_sc {| si_chars := t; si_look := 0 |}).
Definition scans_to (lit : bool) (t v : list N) : Prop :=
  exists sp s', scan_block_scalar str_ops 40 lit (in_map_value t) = Ok ((sp, TScalar (if lit then Literal else Folded) v), s')
                /\ si_chars (sc_in s') = [].
Ltac eof_instance lit c lines :=
  unfold scans_to;
  apply (block_scalar_lines_eof_k 0 _ 40 lit c None false [] lines 2 0%Z [{| in_indent := (-1)%Z; in_needs_block_end := true |}]);
  [reflexivity|reflexivity|apply ht_white; constructor|cbn; lia|lines_ok|lines_ok|discriminate|cbn; lia|reflexivity|exact I|
   split; [cbn; lia|exists (L "x"); split; [reflexivity|discriminate]]].
Example C05_eof_fewer_spaces_clip : scans_to true (L "|/  x/ ") (L "x/").
Proof. eof_instance true CClip [Text 0 (L "x"); Blank 1]. Qed.
Example C05_eof_fewer_spaces_keep : scans_to true (L "|+/  x/ ") (L "x//").
Proof. eof_instance true CKeep [Text 0 (L "x"); Blank 1]. Qed.
Example C05_eof_fewer_spaces_strip : scans_to true (L "|-/  x/ ") (L "x").
Proof. eof_instance true CStrip [Text 0 (L "x"); Blank 1]. Qed.
Example C05_eof_exact_spaces_clip : scans_to true (L "|/  x/  ") (L "x/").
Proof. eof_instance true CClip [Text 0 (L "x"); Blank 2]. Qed.
Example C05_eof_exact_spaces_keep : scans_to true (L "|+/  x/  ") (L "x//").
Proof. eof_instance true CKeep [Text 0 (L "x"); Blank 2]. Qed.
Example C05_eof_more_spaces_clip : scans_to true (L "|/  x/   ") (L "x/ /").
Proof. eof_instance true CClip [Text 0 (L "x"); Text 1 []]. Qed.
Example C05_eof_more_spaces_keep : scans_to true (L "|+/  x/   ") (L "x/ /").
Proof. eof_instance true CKeep [Text 0 (L "x"); Text 1 []]. Qed.
Example C05_eof_more_spaces_strip : scans_to true (L "|-/  x/   ") (L "x/ ").
Proof. eof_instance true CStrip [Text 0 (L "x"); Text 1 []]. Qed.
(* folded, after blank lines: "x y" then two empty lines and a last line of one space *)
Example C05_eof_folded_keep : scans_to false (L ">+/  x/  y/// ") (L "x y////").
Proof. eof_instance false CKeep [Text 0 (L "x"); Text 0 (L "y"); Blank 0; Blank 0; Blank 1]. Qed.
Example C05_eof_folded_clip : scans_to false (L ">/  x/  y///  ") (L "x y/").
Proof. eof_instance false CClip [Text 0 (L "x"); Text 0 (L "y"); Blank 0; Blank 0; Blank 2]. Qed.
(* the value does not depend on the final line break: the same lines with a final line feed *)
Example C05_eof_same_with_final_newline :
  block_value true CKeep [Text 0 (L "x"); Blank 1] = L "x//" /\ block_value true CClip [Text 0 (L "x"); Blank 2] = L "x/".
Proof. split; reflexivity. Qed.

(* CR LF and lone CR line breaks: the same theorems, the text of the specification with its line feeds replaced *)
Example C05_crlf_text : with_breaks 1 (L "|-/  x//") = [124; 45; 13; 10; 32; 32; 120; 13; 10; 13; 10].
Proof. reflexivity. Qed.
Example C05_cr_text : with_breaks 2 (L "|-/  x//") = [124; 45; 13; 32; 32; 120; 13; 13].
Proof. reflexivity. Qed.
Example C05_block_scalar_partial_instance_crlf :
  exists sp s', scan_block_scalar str_ops 40 true
                  (init_sc {| si_chars := with_breaks 1 (L "|-/  x//   y/ /") ++ L "z"; si_look := 0 |})
                = Ok ((sp, TScalar Literal (L "x// y")), s') /\ si_chars (sc_in s') = L "z".
Proof.
  apply (block_scalar_lines_k 1 _ 40 true CStrip None false [] [Text 0 (L "x"); Blank 0; Text 1 (L "y"); Blank 1] O (L "z") 2 (-1)%Z []).
  - reflexivity.
  - reflexivity.
  - apply ht_white. constructor.
  - cbn. lia.
  - lines_ok.
  - lines_ok.
  - discriminate.
  - cbn. lia.
  - reflexivity.
  - left. lia.
  - discriminate.
  - reflexivity.
  - discriminate.
  - discriminate.
  - split; [cbn; discriminate|]. exists (L "x"). split; [reflexivity|discriminate].
Qed.
Example C05_block_scalar_partial_instance_cr_folded :   (* lone CRs, a header comment, a sibling key behind *)
  exists sp s', scan_block_scalar str_ops 60 false
                  (init_sc {| si_chars := with_breaks 2 (L ">2+ # c/  x/  y//   z/  w/ /") ++ L "k: v"; si_look := 0 |})
                = Ok ((sp, TScalar Folded (L "x y// z/w//")), s') /\ si_chars (sc_in s') = L "k: v".
Proof.
  apply (block_scalar_lines_k 2 _ 60 false CKeep (Some 2%nat) true (L " # c")
           [Text 0 (L "x"); Text 0 (L "y"); Blank 0; Text 1 (L "z"); Text 0 (L "w"); Blank 1] O (L "k: v") 2 (-1)%Z []).
  - reflexivity.
  - reflexivity.
  - apply (ht_comment [32] (L " c")); [repeat constructor|discriminate|repeat constructor].
  - cbn. lia.
  - lines_ok.
  - lines_ok.
  - discriminate.
  - cbn. lia.
  - reflexivity.
  - left. lia.
  - discriminate.
  - reflexivity.
  - discriminate.
  - discriminate.
  - split; [lia|reflexivity].
Qed.
(* the end of the input inside a last line of one space, CR LF and CR: keep counts the line *)
Example C05_eof_fewer_spaces_keep_crlf :
  exists sp s', scan_block_scalar str_ops 40 true (in_map_value (with_breaks 1 (L "|+/  x/ ")))
                = Ok ((sp, TScalar Literal (L "x//")), s') /\ si_chars (sc_in s') = [].
Proof.
  apply (block_scalar_lines_eof_k 1 _ 40 true CKeep None false [] [Text 0 (L "x"); Blank 1] 2 0%Z
           [{| in_indent := (-1)%Z; in_needs_block_end := true |}]);
  [reflexivity|reflexivity|apply ht_white; constructor|cbn; lia|lines_ok|lines_ok|discriminate|cbn; lia|reflexivity|exact I|
   split; [cbn; lia|exists (L "x"); split; [reflexivity|discriminate]]].
Qed.
Example C05_eof_exact_spaces_clip_cr :
  exists sp s', scan_block_scalar str_ops 40 false (in_map_value (with_breaks 2 (L ">/  x/  y/  ")))
                = Ok ((sp, TScalar Folded (L "x y/")), s') /\ si_chars (sc_in s') = [].
Proof.
  apply (block_scalar_lines_eof_k 2 _ 40 false CClip None false [] [Text 0 (L "x"); Text 0 (L "y"); Blank 2] 2 0%Z
           [{| in_indent := (-1)%Z; in_needs_block_end := true |}]);
  [reflexivity|reflexivity|apply ht_white; constructor|cbn; lia|lines_ok|lines_ok|discriminate|cbn; lia|reflexivity|exact I|
   split; [cbn; lia|exists (L "x"); split; [reflexivity|discriminate]]].
Qed.

Example C05_block_scalar_empty_instance :   (* "- |+\n\n   <eof>" : keep counts the blank line and the line of spaces *)
  exists sp s', scan_block_scalar str_ops 20 true (init_sc {| si_chars := L "|+//   "; si_look := 0 |})
                = Ok ((sp, TScalar Literal (L "//")), s') /\ si_chars (sc_in s') = [].
Proof.
  apply (block_scalar_empty_k 0 _ 20 true CKeep None false [] [O] 3 [] (-1)%Z []).
  - reflexivity.
  - reflexivity.
  - apply ht_white. constructor.
  - cbn. lia.
  - repeat constructor; lia.
  - cbn. lia.
  - discriminate.
  - reflexivity.
  - discriminate.
  - left. reflexivity.
  - exact I.
Qed.
(* a content-less top-level scalar followed by a document marker: ">2+\n\n \n---\n" is "\n\n" *)
Example C05_block_scalar_empty_instance_marker :
  exists sp s', scan_block_scalar str_ops 20 false (init_sc {| si_chars := L ">2+// /---/"; si_look := 0 |})
                = Ok ((sp, TScalar Folded (L "//")), s') /\ si_chars (sc_in s') = L "---/".
Proof.
  apply (block_scalar_empty_k 0 _ 20 false CKeep (Some 2%nat) true [] [O; 1%nat] O (L "---/") (-1)%Z []).
  - reflexivity.
  - reflexivity.
  - apply ht_white. constructor.
  - cbn. lia.
  - repeat constructor; lia.
  - cbn. lia.
  - discriminate.
  - reflexivity.
  - discriminate.
  - right. right. split; reflexivity.
  - split; [lia|]. cbn. repeat constructor; lia.
Qed.

(* ---- T5: the same, stated on the cases of the specification ---- *)
(* For EVERY case b of Spec/BlockScalar.v with case_ok b = true (all line lists, both styles, every chomping, explicit
   or auto-detected indentation, header comment, every end shape, LF / CR LF / CR) that is not in the leading-tab
   class: from any scanner state at the indicator whose block indentation is the parent indentation of the case, on
   the string input, with fuel above [case_fuel b], scan_block_scalar returns the token (style, case_value b) and stops
   at the line that follows the scalar.  [case_block b] is [case_text b] without the text in front of the indicator
   ([C05_case_text_split]).  What is left to [C05_full]: the scanner reaching scan_block_scalar in such a state from
   the contexts [ctx], the buffered inputs, and the leading-tab class (where it is false). *)
Theorem C05_case_partial : forall b (s : sc strin) F inds,
  case_ok b = true -> leading_tab_b b = false ->
  si_chars (sc_in s) = case_block b ->
  unroll_nb (sc_indents s) (sc_indent s) = (parent_z (bc_parent b), inds) ->
  (case_fuel b < F)%nat ->
  exists sp s', scan_block_scalar str_ops F (bc_literal b) s
                = Ok ((sp, TScalar (if bc_literal b then Literal else Folded) (case_value b)), s')
                /\ si_chars (sc_in s') = case_rest b.
Proof. exact block_scalar_case. Qed.
Print Assumptions C05_case_partial.

Theorem C05_case_text_split : forall b, case_text b = with_breaks (bc_brk b) (bc_prefix b) ++ case_block b.
Proof. exact case_text_split. Qed.
Print Assumptions C05_case_text_split.

(* a top-level case on the scanner's initial state placed at the indicator *)
Theorem C05_case_top_partial : forall b F,
  case_ok b = true -> leading_tab_b b = false -> bc_parent b = None -> (case_fuel b < F)%nat ->
  exists sp s', scan_block_scalar str_ops F (bc_literal b) (init_sc {| si_chars := case_block b; si_look := 0 |})
                = Ok ((sp, TScalar (if bc_literal b then Literal else Folded) (case_value b)), s')
                /\ si_chars (sc_in s') = case_rest b.
Proof. exact block_scalar_case_top. Qed.
Print Assumptions C05_case_top_partial.

(* instances: the former refutation witness "|\n a\n " and example 8.10 of the specification in CR LF *)
Example C05_case_instance_clip_eof :
  exists sp s', scan_block_scalar str_ops 20 true (init_sc {| si_chars := L "|/ a/ "; si_look := 0 |})
                = Ok ((sp, TScalar Literal (L "a/")), s') /\ si_chars (sc_in s') = [].
Proof. apply (block_scalar_case_top former_witness_clip_eof 20); [reflexivity|reflexivity|reflexivity|cbn; lia]. Qed.
(* the leading-tab witness is in the excluded class, and only there does the scanner differ *)
Example C05_case_tab_excluded : case_ok witness_tab = true /\ leading_tab_b witness_tab = true.
Proof. split; reflexivity. Qed.

(* ---- the complete statement is still false on the faithful model: one class (known finding) ---- *)
Theorem C05_full_refuted : ~ C05_full.
Proof. exact C05_full_is_refuted. Qed.
Print Assumptions C05_full_refuted.

(* "|\n\tx\n": the specification gives "\tx\n" (content indentation 0), the scanner stops with error site 82 *)
Theorem C05_refuted_leading_tab :
  case_ok witness_tab = true /\ case_text witness_tab = [124; 10; 9; 120; 10] /\ case_value witness_tab = [9; 120; 10] /\
  first_block_scalar (fst (scan_str (case_text witness_tab))) = None /\
  (exists m, snd (scan_str (case_text witness_tab)) = SError 82 m).
Proof. exact witness_tab_fails. Qed.
Print Assumptions C05_refuted_leading_tab.

(* the same content one line further down is accepted *)
Example C05_leading_tab_second_line : agrees witness_tab_second_line /\ case_value witness_tab_second_line = [10; 9; 120; 10].
Proof. exact witness_tab_second_line_ok. Qed.

(* the former refutation witnesses (classes repaired by 42046c7 and 001a921) now agree with the specification *)
Example C05_repaired_clip_at_eof :
  agrees former_witness_clip_eof /\ case_text former_witness_clip_eof = L "|/ a/ " /\ case_value former_witness_clip_eof = L "a/".
Proof. exact former_witness_clip_eof_ok. Qed.
Example C05_repaired_keep_at_eof :
  agrees former_witness_keep_eof /\ case_text former_witness_keep_eof = L "k: |+/  a/ " /\ case_value former_witness_keep_eof = L "a//".
Proof. exact former_witness_keep_eof_ok. Qed.
Example C05_repaired_document_start :
  agrees former_witness_doc_start /\ case_text former_witness_doc_start = L "|/a/---/b/" /\ case_value former_witness_doc_start = L "a/".
Proof. exact former_witness_doc_start_ok. Qed.

(* ---- Examples: the model pipeline on the string input and on buffered inputs of capacity 8 and 16 ---- *)
Ltac run := vm_compute; repeat split.
Definition two_lines : list rline := [R 2 "x"; R 2 "y"; R 0 ""].
Definition fold_lines : list rline := [R 2 "x"; R 2 "y"; R 0 ""; R 2 "z"; R 0 ""; R 0 ""].
(* each chomping x literal / folded *)
Example ex_literal_strip : agrees (mkcase true CStrip None (Some O) (L "a: ") [] two_lines EofNewline). Proof. run. Qed.
Example ex_literal_clip : agrees (mkcase true CClip None (Some O) (L "a: ") [] two_lines EofNewline). Proof. run. Qed.
Example ex_literal_keep : agrees (mkcase true CKeep None (Some O) (L "a: ") [] two_lines EofNewline). Proof. run. Qed.
Example ex_literal_keep_value : case_value (mkcase true CKeep None (Some O) (L "a: ") [] two_lines EofNewline) = L "x/y//".
Proof. reflexivity. Qed.
Example ex_folded_strip : agrees (mkcase false CStrip None (Some O) (L "- ") [] fold_lines EofNewline). Proof. run. Qed.
Example ex_folded_clip : agrees (mkcase false CClip None (Some O) (L "- ") [] fold_lines EofNewline). Proof. run. Qed.
Example ex_folded_keep : agrees (mkcase false CKeep None (Some O) (L "- ") [] fold_lines EofNewline). Proof. run. Qed.
Example ex_folded_keep_value : case_value (mkcase false CKeep None (Some O) (L "- ") [] fold_lines EofNewline) = L "x y/z///".
Proof. reflexivity. Qed.
(* more-indented lines in folded style (YAML 1.2.2 example 8.10), at top level, followed by a trailing comment *)
Definition ex810 : list rline :=
  [R 0 ""; R 1 "folded"; R 1 "line"; R 0 ""; R 1 "next"; R 1 "line"; R 3 "* bullet"; R 0 ""; R 3 "* list"; R 3 "* lines";
   R 0 ""; R 1 "last"; R 1 "line"; R 0 ""].
Example ex_folded_more_indented : agrees (mkcase false CClip None None [] [] ex810 (EofRest (L "# Comment/"))). Proof. run. Qed.
Example ex_folded_more_indented_value :
  case_value (mkcase false CClip None None [] [] ex810 (EofRest (L "# Comment/")))
  = L "/folded line/next line/  * bullet//  * list/  * lines//last line/".
Proof. reflexivity. Qed.
(* auto-detected indentation with leading blank lines *)
Example ex_auto_leading_blank : agrees (mkcase true CClip None (Some O) (L "- ") [] [R 0 ""; R 2 ""; R 2 "x"; R 3 "y"] EofNewline).
Proof. run. Qed.
(* explicit indentation, the first line starts with more spaces *)
Example ex_explicit_leading_spaces : agrees (mkcase true CClip (Some 1%nat) (Some O) (L "- ") [] [R 3 "x"; R 1 "y"] EofNewline).
Proof. run. Qed.
Example ex_explicit_leading_spaces_value :
  case_value (mkcase true CClip (Some 1%nat) (Some O) (L "- ") [] [R 3 "x"; R 1 "y"] EofNewline) = L "  x/y/".
Proof. reflexivity. Qed.
(* the end of the input without a final line break; after blank lines; after a whitespace-only content line *)
Example ex_eof_none_clip : agrees (mkcase true CClip None (Some O) (L "a: ") [] [R 2 "x"] EofNone). Proof. run. Qed.
Example ex_eof_none_keep : agrees (mkcase true CKeep None (Some O) (L "a: ") [] [R 2 "x"; R 2 "y"] EofNone). Proof. run. Qed.
Example ex_eof_none_folded : agrees (mkcase false CClip None None [] [] [R 0 "x"; R 0 "y"] EofNone). Proof. run. Qed.
Example ex_eof_after_blank_lines : agrees (mkcase true CKeep None (Some O) (L "a: ") [] [R 2 "x"; R 0 ""; R 1 ""; R 0 ""] EofNewline).
Proof. run. Qed.
Example ex_eof_after_space_content : agrees (mkcase true CClip None (Some O) (L "foo: ") [] [R 2 "x"; R 3 ""] EofNone). Proof. run. Qed.
(* no content at all (the end-of-stream path, and a document marker after a top-level scalar) *)
Example ex_empty_clip : agrees (mkcase true CClip None (Some O) (L "a: ") [] [] EofNewline). Proof. run. Qed.
Example ex_empty_keep : agrees (mkcase true CKeep None (Some O) (L "- ") [] [R 0 ""; R 3 ""] EofNone). Proof. run. Qed.
Example ex_empty_keep_value : case_value (mkcase true CKeep None (Some O) (L "- ") [] [R 0 ""; R 3 ""] EofNone) = L "//".
Proof. reflexivity. Qed.
Example ex_empty_marker : agrees (mkcase false CStrip (Some 2%nat) None [] [] [] (EofRest (L ".../"))). Proof. run. Qed.
(* header comment, digit and chomping indicators, followed by a sibling key; CR LF *)
Example ex_header_comment : agrees (mkcase false CStrip (Some 2%nat) (Some O) (L "k: ") (L " # c") [R 2 "x"; R 3 "y"] (EofRest (L "z: 1/"))).
Proof. run. Qed.
Example ex_crlf : agrees {| bc_literal := true; bc_chomp := CKeep; bc_explicit := None; bc_digit_first := true;
                            bc_parent := Some O; bc_prefix := L "k: "; bc_hc := []; bc_raw := [R 1 "x"; R 0 ""; R 2 "y"; R 0 ""];
                            bc_eof := EofRest (L "z: 1/"); bc_brk := 1 |}.
Proof. run. Qed.
(* indentation 20: the wide-indent path of skip_block_scalar_indent on the capacity-8 and capacity-16 buffers *)
Definition wide_prefix : list N := L "a:/" ++ spaces 20 ++ L "b: ".
Example ex_wide_literal : agrees (mkcase true CKeep None (Some 20%nat) wide_prefix [] [R 22 "wide"; R 0 ""; R 24 "more"; R 22 "path"; R 21 ""]
                                         (EofRest (spaces 20 ++ L "c: d/"))).
Proof. run. Qed.
Example ex_wide_folded : agrees (mkcase false CClip (Some 3%nat) (Some 20%nat) wide_prefix [] [R 23 "wide"; R 23 "path"; R 30 ""; R 23 "end"] EofNone).
Proof. run. Qed.
(* T5 on example 8.10 of the specification, CR LF breaks, followed by a trailing comment *)
Definition ex810_crlf : bcase :=
  {| bc_literal := false; bc_chomp := CClip; bc_explicit := None; bc_digit_first := false; bc_parent := None;
     bc_prefix := []; bc_hc := []; bc_raw := ex810; bc_eof := EofRest (L "# Comment/"); bc_brk := 1 |}.
Example C05_case_instance_ex810_crlf :
  exists sp s', scan_block_scalar str_ops 60 false (init_sc {| si_chars := case_block ex810_crlf; si_look := 0 |})
                = Ok ((sp, TScalar Folded (L "/folded line/next line/  * bullet//  * list/  * lines//last line/")), s')
                /\ si_chars (sc_in s') = with_breaks 1 (L "# Comment/").
Proof. apply (block_scalar_case_top ex810_crlf 60); [reflexivity|reflexivity|reflexivity|cbn; lia]. Qed.

(* ---- T6: block scalars in DOCUMENT context, text -> tokens -> events (Proofs/ScalarContext.v, ScalarContextBlock.v) ---- *)
(* T5 composed with the scanner skeleton (fetch_next_token dispatch, save_simple_key / the key that may still be pending
   when the input ends, roll_indent / roll_one_col_indent / unroll_indent, Key / BlockMappingStart back-insertion, the token
   queue handed out between the fetches, the end of the input in two BlockEnd batches) and with the parser theorem
   (Proofs/TokenGrammarProofs.v: parse_wrap).  The left side is the specification's own rendering [case_text b], the right
   side the specification's value [case_value b]; for EVERY case b with case_ok b = true outside the leading-tab class, every
   style / chomping / indicator / header comment / line list / break style, whose scalar ENDS THE INPUT (with or without
   a final line break: [ends_input]), in three positions:
     C05_document_top    the document is the scalar                      (bc_prefix = "",      bc_parent = None)
     C05_document_value  value of the pair of a top-level block mapping  (bc_prefix = "key: ", bc_parent = Some 0)
     C05_document_entry  entry of a top-level block sequence             (bc_prefix = "- ",    bc_parent = Some 0)
   run_str is the whole model pipeline on the string input; the event list is complete (PDone). *)
Theorem C05_document_top : forall b,
  case_ok b = true -> leading_tab_b b = false -> bc_parent b = None -> bc_prefix b = [] -> ends_input b = true ->
  map fst (fst (run_str (case_text b)))
  = [EStreamStart; EDocumentStart false; EScalar (case_value b) (if bc_literal b then Literal else Folded) 0 None;
     EDocumentEnd; EStreamEnd]
  /\ snd (run_str (case_text b)) = PDone.
Proof. exact run_block_top. Qed.
Print Assumptions C05_document_top.

Theorem C05_document_value : forall b kw,
  case_ok b = true -> leading_tab_b b = false -> bc_parent b = Some O -> key_ok kw = true -> bc_prefix b = kw ++ [58; 32] ->
  ends_input b = true ->
  map fst (fst (run_str (case_text b)))
  = [EStreamStart; EDocumentStart false; EMappingStart 0 None; EScalar kw Plain 0 None;
     EScalar (case_value b) (if bc_literal b then Literal else Folded) 0 None; EMappingEnd; EDocumentEnd; EStreamEnd]
  /\ snd (run_str (case_text b)) = PDone.
Proof. exact run_block_value. Qed.
Print Assumptions C05_document_value.

Theorem C05_document_entry : forall b,
  case_ok b = true -> leading_tab_b b = false -> bc_parent b = Some O -> bc_prefix b = [45; 32] -> ends_input b = true ->
  map fst (fst (run_str (case_text b)))
  = [EStreamStart; EDocumentStart false; ESequenceStart 0 None;
     EScalar (case_value b) (if bc_literal b then Literal else Folded) 0 None; ESequenceEnd; EDocumentEnd; EStreamEnd]
  /\ snd (run_str (case_text b)) = PDone.
Proof. exact run_block_entry. Qed.
Print Assumptions C05_document_entry.

(* the token level of the same three theorems *)
Theorem C05_document_tokens : forall b,
  case_ok b = true -> leading_tab_b b = false -> ends_input b = true ->
  (bc_parent b = None -> bc_prefix b = [] ->
   exists toks, scan_str (case_text b) = (toks, SEnded) /\
     map snd toks = [TStreamStart; TScalar (if bc_literal b then Literal else Folded) (case_value b); TStreamEnd]) /\
  (forall kw, bc_parent b = Some O -> key_ok kw = true -> bc_prefix b = kw ++ [58; 32] ->
   exists toks, scan_str (case_text b) = (toks, SEnded) /\
     map snd toks = [TStreamStart; TBlockMappingStart; TKey; TScalar Plain kw; TValue;
                     TScalar (if bc_literal b then Literal else Folded) (case_value b); TBlockEnd; TStreamEnd]) /\
  (bc_parent b = Some O -> bc_prefix b = [45; 32] ->
   exists toks, scan_str (case_text b) = (toks, SEnded) /\
     map snd toks = [TStreamStart; TBlockSequenceStart; TBlockEntry;
                     TScalar (if bc_literal b then Literal else Folded) (case_value b); TBlockEnd; TStreamEnd]).
Proof.
  exact (fun b Hok Htab Hend =>
    conj (fun Hp Hpre => scan_block_top b Hok Htab Hp Hpre (ends_input_rest b Hend))
   (conj (fun kw Hp Hk Hpre => scan_block_value b kw Hok Htab Hp Hk Hpre (ends_input_rest b Hend))
         (fun Hp Hpre => scan_block_entry b Hok Htab Hp Hpre (ends_input_rest b Hend)))).
Qed.
Print Assumptions C05_document_tokens.

(* instances, every hypothesis evaluated.  Top level: literal, strip, a blank line, a more-indented line, a trailing line of
   one space, a final line break: "|-\n x\n\n  y\n \n" *)
Definition ctx_top : bcase := mkcase true CStrip None None [] [] [R 1 "x"; R 0 ""; R 2 "y"; R 1 ""] EofNewline.
Example C05_document_top_instance :
  case_text ctx_top = L "|-/ x//  y/ /" /\
  map fst (fst (run_str (L "|-/ x//  y/ /")))
  = [EStreamStart; EDocumentStart false; EScalar (L "x// y") Literal 0 None; EDocumentEnd; EStreamEnd]
  /\ snd (run_str (L "|-/ x//  y/ /")) = PDone.
Proof. split; [reflexivity|]. exact (run_block_top ctx_top eq_refl eq_refl eq_refl eq_refl eq_refl). Qed.
(* content at column 0, folded, keep, no final line break: ">+\na\nb\n\n c" *)
Definition ctx_top0 : bcase := mkcase false CKeep None None [] [] [R 0 "a"; R 0 "b"; R 0 ""; R 1 "c"] EofNone.
Example C05_document_top_instance_column0 :
  case_text ctx_top0 = L ">+/a/b// c" /\
  map fst (fst (run_str (L ">+/a/b// c")))
  = [EStreamStart; EDocumentStart false; EScalar (L "a b// c/") Folded 0 None; EDocumentEnd; EStreamEnd]
  /\ snd (run_str (L ">+/a/b// c")) = PDone.
Proof. split; [reflexivity|]. exact (run_block_top ctx_top0 eq_refl eq_refl eq_refl eq_refl eq_refl). Qed.
(* the header alone: "|" — the key saved for the scalar is still pending when the input ends (the other path of end_unit) *)
Definition ctx_top_empty : bcase := mkcase true CClip None None [] [] [] EofNone.
Example C05_document_top_instance_header_only :
  case_text ctx_top_empty = L "|" /\
  map fst (fst (run_str (L "|"))) = [EStreamStart; EDocumentStart false; EScalar [] Literal 0 None; EDocumentEnd; EStreamEnd]
  /\ snd (run_str (L "|")) = PDone.
Proof. split; [reflexivity|]. exact (run_block_top ctx_top_empty eq_refl eq_refl eq_refl eq_refl eq_refl). Qed.
(* mapping value: folded, keep, explicit indentation, a header comment, CR LF breaks, the input ends inside a last line of one space *)
Definition ctx_value : bcase :=
  {| bc_literal := false; bc_chomp := CKeep; bc_explicit := Some 1%nat; bc_digit_first := true; bc_parent := Some O;
     bc_prefix := L "key: "; bc_hc := L " # c"; bc_raw := [R 1 "x"; R 1 "y"; R 0 ""; R 3 "z"; R 1 "w"; R 1 ""]; bc_eof := EofNone;
     bc_brk := 1 |}.
Example C05_document_value_instance :
  case_text ctx_value = with_breaks 1 (L "key: >1+ # c/ x/ y//   z/ w/ ") /\
  map fst (fst (run_str (with_breaks 1 (L "key: >1+ # c/ x/ y//   z/ w/ "))))
  = [EStreamStart; EDocumentStart false; EMappingStart 0 None; EScalar (L "key") Plain 0 None;
     EScalar (L "x y//  z/w//") Folded 0 None; EMappingEnd; EDocumentEnd; EStreamEnd]
  /\ snd (run_str (with_breaks 1 (L "key: >1+ # c/ x/ y//   z/ w/ "))) = PDone.
Proof. split; [reflexivity|]. exact (run_block_value ctx_value (L "key") eq_refl eq_refl eq_refl eq_refl eq_refl eq_refl). Qed.
(* sequence entry: literal, clip, auto-detected indentation 3 behind a leading empty line, lone CR breaks *)
Definition ctx_entry : bcase :=
  {| bc_literal := true; bc_chomp := CClip; bc_explicit := None; bc_digit_first := false; bc_parent := Some O;
     bc_prefix := L "- "; bc_hc := []; bc_raw := [R 0 ""; R 3 "x"; R 5 "- y: z"; R 3 "# no comment"; R 0 ""]; bc_eof := EofNewline;
     bc_brk := 2 |}.
Example C05_document_entry_instance :
  case_text ctx_entry = with_breaks 2 (L "- |//   x/     - y: z/   # no comment//") /\
  map fst (fst (run_str (with_breaks 2 (L "- |//   x/     - y: z/   # no comment//"))))
  = [EStreamStart; EDocumentStart false; ESequenceStart 0 None; EScalar (L "/x/  - y: z/# no comment/") Literal 0 None;
     ESequenceEnd; EDocumentEnd; EStreamEnd]
  /\ snd (run_str (with_breaks 2 (L "- |//   x/     - y: z/   # no comment//"))) = PDone.
Proof. split; [reflexivity|]. exact (run_block_entry ctx_entry eq_refl eq_refl eq_refl eq_refl eq_refl). Qed.
(* the hypotheses are not vacuous restrictions: a scalar followed by a sibling key does not end the input, and the tab class *)
Example C05_document_ends_input_excludes :
  ends_input (mkcase true CClip None (Some O) (L "a: ") [] [R 2 "x"] (EofRest (L "b: 1/"))) = false /\ leading_tab_b witness_tab = true.
Proof. split; reflexivity. Qed.

(* ---- T7: a FOLLOWER behind the block scalar (Proofs/ScalarContext2Pos.v, ScalarContext2BlockSib.v) ------------------- *)
(* The scalar is the value of the FIRST pair of a two-pair top-level mapping / the FIRST entry of a two-entry top-level
   sequence: bc_eof b = EofRest (sibling line), the sibling line being  kw2 ": " w tail  resp.  "- " w tail  with kw2 a
   one-word plain key (key_ok), w any ONE-LINE plain scalar the specification of C04 allows in block context (sib_wf w =
   FlowFold.plain_layout_wf false 0 w []: inner blanks, '#' and ':' inside words, ...) and tail spaces and line feeds (tail_ok: line
   feeds only when the case is written with LF breaks, because case_text renders every LF of the rest in the break style of
   the case).  For EVERY such case with case_ok outside the leading-tab class whose text holds no NUL (no YAML stream does; the
   position theorem of C12 that locates the scanner behind the scalar is stated for NUL-free inputs) -- both styles, the
   three chompings, explicit / auto-detected indentation, header comment, all line lists, LF / CR LF / CR -- the whole model
   pipeline on the specification's rendering yields the scalar event with the specified value and style, FOLLOWED BY the
   sibling's events.  What is new against T6: behind the scalar the scanner stands at column 0 of a later line (from the
   position invariant MarkOK of Proofs/ScanPos.v, established at the indicator by the skeleton lemmas restated with explicit
   positions), so the simple key saved for the scalar is stale and the token is handed out; the indentation stack left by
   scan_block_scalar (unchanged, or without the one-column raise of "key:") fetches like r3c03's at_tok state; the sibling
   line is then scanned by r3c03's key_at_tok / dash_sp and C04's plain scalar at the end of the input. *)
Theorem C05_document_value_sibling : forall b kw kw2 w tail,
  case_ok b = true -> leading_tab_b b = false -> bc_parent b = Some O -> key_ok kw = true -> bc_prefix b = kw ++ [58; 32] ->
  bc_eof b = EofRest (kw2 ++ 58 :: 32 :: w ++ tail) -> key_ok kw2 = true -> FlowFold.plain_layout_wf false 0 w [] = true ->
  tail_ok (bc_brk b) tail = true -> forallb (fun c => negb (c =? 0)) (case_text b) = true ->
  map fst (fst (run_str (case_text b)))
  = [EStreamStart; EDocumentStart false; EMappingStart 0 None; EScalar kw Plain 0 None;
     EScalar (case_value b) (if bc_literal b then Literal else Folded) 0 None;
     EScalar kw2 Plain 0 None; EScalar w Plain 0 None; EMappingEnd; EDocumentEnd; EStreamEnd]
  /\ snd (run_str (case_text b)) = PDone.
Proof. exact run_block_value_sib. Qed.
Print Assumptions C05_document_value_sibling.

Theorem C05_document_entry_sibling : forall b w tail,
  case_ok b = true -> leading_tab_b b = false -> bc_parent b = Some O -> bc_prefix b = [45; 32] ->
  bc_eof b = EofRest (45 :: 32 :: w ++ tail) -> FlowFold.plain_layout_wf false 0 w [] = true ->
  tail_ok (bc_brk b) tail = true -> forallb (fun c => negb (c =? 0)) (case_text b) = true ->
  map fst (fst (run_str (case_text b)))
  = [EStreamStart; EDocumentStart false; ESequenceStart 0 None;
     EScalar (case_value b) (if bc_literal b then Literal else Folded) 0 None; EScalar w Plain 0 None;
     ESequenceEnd; EDocumentEnd; EStreamEnd]
  /\ snd (run_str (case_text b)) = PDone.
Proof. exact run_block_entry_sib. Qed.
Print Assumptions C05_document_entry_sibling.

(* the token level *)
Theorem C05_document_sibling_tokens : forall b w tail,
  case_ok b = true -> leading_tab_b b = false -> bc_parent b = Some O -> FlowFold.plain_layout_wf false 0 w [] = true ->
  tail_ok (bc_brk b) tail = true -> forallb (fun c => negb (c =? 0)) (case_text b) = true ->
  (forall kw kw2, key_ok kw = true -> bc_prefix b = kw ++ [58; 32] -> bc_eof b = EofRest (kw2 ++ 58 :: 32 :: w ++ tail) -> key_ok kw2 = true ->
   exists toks, scan_str (case_text b) = (toks, SEnded) /\
     map snd toks = [TStreamStart; TBlockMappingStart; TKey; TScalar Plain kw; TValue;
                     TScalar (if bc_literal b then Literal else Folded) (case_value b);
                     TKey; TScalar Plain kw2; TValue; TScalar Plain w; TBlockEnd; TStreamEnd]) /\
  (bc_prefix b = [45; 32] -> bc_eof b = EofRest (45 :: 32 :: w ++ tail) ->
   exists toks, scan_str (case_text b) = (toks, SEnded) /\
     map snd toks = [TStreamStart; TBlockSequenceStart; TBlockEntry;
                     TScalar (if bc_literal b then Literal else Folded) (case_value b); TBlockEntry; TScalar Plain w; TBlockEnd; TStreamEnd]).
Proof.
  exact (fun b w tail Hok Htab Hp Hw Ht Hn =>
    conj (fun kw kw2 Hk Hpre He Hk2 => scan_block_value_sib b kw kw2 w tail Hok Htab Hp Hk Hpre He Hk2 Hw Ht Hn)
         (fun Hpre He => scan_block_entry_sib b w tail Hok Htab Hp Hpre He Hw Ht Hn)).
Qed.
Print Assumptions C05_document_sibling_tokens.

(* instances, every hypothesis evaluated.  "key: |\n  x\n  y\nk2: w\n" *)
Definition sib_value : bcase := mkcase true CClip None (Some O) (L "key: ") [] [R 2 "x"; R 2 "y"] (EofRest (L "k2: w/")).
Example C05_document_value_sibling_instance :
  case_text sib_value = L "key: |/  x/  y/k2: w/" /\
  map fst (fst (run_str (L "key: |/  x/  y/k2: w/")))
  = [EStreamStart; EDocumentStart false; EMappingStart 0 None; EScalar (L "key") Plain 0 None; EScalar (L "x/y/") Literal 0 None;
     EScalar (L "k2") Plain 0 None; EScalar (L "w") Plain 0 None; EMappingEnd; EDocumentEnd; EStreamEnd]
  /\ snd (run_str (L "key: |/  x/  y/k2: w/")) = PDone.
Proof.
  split; [reflexivity|].
  exact (run_block_value_sib sib_value (L "key") (L "k2") (L "w") (L "/") eq_refl eq_refl eq_refl eq_refl eq_refl eq_refl eq_refl eq_refl eq_refl eq_refl).
Qed.
(* folded, keep, explicit indentation, a header comment, CR LF breaks, a more-indented line, trailing empty lines that belong to
   the scalar; the sibling's value has inner blanks and a '#' inside a word, a blank behind it, no final line break *)
Definition sib_value2 : bcase :=
  {| bc_literal := false; bc_chomp := CKeep; bc_explicit := Some 1%nat; bc_digit_first := true; bc_parent := Some O;
     bc_prefix := L "key: "; bc_hc := L " # c"; bc_raw := [R 1 "x"; R 1 "y"; R 0 ""; R 3 "z"; R 1 ""]; bc_eof := EofRest (L "k2: a b#c ");
     bc_brk := 1 |}.
Example C05_document_value_sibling_instance_crlf :
  case_text sib_value2 = with_breaks 1 (L "key: >1+ # c/ x/ y//   z/ /k2: a b#c ") /\
  map fst (fst (run_str (with_breaks 1 (L "key: >1+ # c/ x/ y//   z/ /k2: a b#c "))))
  = [EStreamStart; EDocumentStart false; EMappingStart 0 None; EScalar (L "key") Plain 0 None; EScalar (L "x y//  z//") Folded 0 None;
     EScalar (L "k2") Plain 0 None; EScalar (L "a b#c") Plain 0 None; EMappingEnd; EDocumentEnd; EStreamEnd].
Proof.
  split; [reflexivity|].
  exact (proj1 (run_block_value_sib sib_value2 (L "key") (L "k2") (L "a b#c") (L " ") eq_refl eq_refl eq_refl eq_refl eq_refl eq_refl eq_refl eq_refl eq_refl eq_refl)).
Qed.
(* sequence: literal, strip, auto-detected indentation 3 behind a leading empty line, a YAML look-alike line, a trailing empty
   line; the sibling entry starts with '-' in front of a letter and is followed by two line feeds *)
Definition sib_entry : bcase :=
  {| bc_literal := true; bc_chomp := CStrip; bc_explicit := None; bc_digit_first := false; bc_parent := Some O;
     bc_prefix := L "- "; bc_hc := []; bc_raw := [R 0 ""; R 3 "x"; R 5 "- y: z"; R 0 ""]; bc_eof := EofRest (L "- -w w//");
     bc_brk := 0 |}.
Example C05_document_entry_sibling_instance :
  case_text sib_entry = L "- |-//   x/     - y: z//- -w w//" /\
  map fst (fst (run_str (L "- |-//   x/     - y: z//- -w w//")))
  = [EStreamStart; EDocumentStart false; ESequenceStart 0 None; EScalar (L "/x/  - y: z") Literal 0 None; EScalar (L "-w w") Plain 0 None;
     ESequenceEnd; EDocumentEnd; EStreamEnd]
  /\ snd (run_str (L "- |-//   x/     - y: z//- -w w//")) = PDone.
Proof.
  split; [reflexivity|].
  exact (run_block_entry_sib sib_entry (L "-w w") (L "//") eq_refl eq_refl eq_refl eq_refl eq_refl eq_refl eq_refl eq_refl).
Qed.
(* the side conditions are real restrictions: a line feed in the tail of a CR LF case, " #" (a comment) and ": " in the sibling's
   value, a NUL in the text *)
Example C05_document_sibling_excludes :
  tail_ok 1 (L "/") = false /\ tail_ok 0 (L " //") = true /\ tail_ok 2 (L "  ") = true /\
  FlowFold.plain_layout_wf false 0 (L "a #b") [] = false /\ FlowFold.plain_layout_wf false 0 (L "a: b") [] = false /\
  forallb (fun c => negb (c =? 0)) [107; 58; 32; 124; 10; 32; 0; 10] = false.
Proof. repeat split. Qed.
