(* C04 — Plain and quoted scalars yield exactly the text YAML assigns to them.
   Specification side: Spec/FlowFold.v (escapes of 5.7, hexadecimal values, fold_lines, presentations).
   Lemmas: Proofs/FlowScalarProofs.v.  Model: Model/SScalar.v (scan_flow_scalar, consume_nonws, flow_blanks,
   resolve_escape, read_hex, scan_plain_scalar) over the string input str_ops; generated tables Gen/Escapes.v,
   Gen/CharTraits.v (regenerated from parser/src/scanner.rs and char_traits.rs on every run).

   THE COMPLETE STATEMENT is C04_full below (scanner level: the scanner state stands for the syntactic context;
   C04_quoted_full and C04_plain_full are defined in Proofs/FlowScalarProofs.v over the presentations of
   Spec/FlowFold.v).  It is NOT proved; what is proved of it:
     full      T1  the generated escape table IS the table of section 5.7 (every character, both directions), the
                   numeric escapes are x/2, u/4, U/8;
     full      T2  hexadecimal digits and numbers: as_hex on every digit, read_hex on every digit list,
                   resolve_escape on every named and every numeric escape (non-scalar values rejected);
     partial   T3  the character loop for ALL words (C04_word_partial: no blank, no break, no escape;
                   C04_word_with_escapes_partial: literals, named and numeric escapes in any order), and the
                   whole scan_flow_scalar for ALL single-line escape-free texts with arbitrary interior, leading
                   and trailing blanks, both quote styles, followed by the end of the line
                   (C04_single_line_partial).  NOT covered by a theorem: multi-line scalars (folding: exercised
                   only by the examples below and by the differential run), escapes inside the whole-scalar
                   theorem, followers other than end of line, plain scalars;
     refuted   the plain half of C04_full is false for the current code (C04_plain_full_refuted; known finding
               plain-indented-document-marker in known_findings_c04.jsonl). *)
From Coq Require Import List NArith ZArith Bool.
Import ListNotations.
Require Import Parser SBase SPrim SDir SScalar SFetch Pipe FlowFold FlowScalarProofs.
Open Scope N_scope.

Definition C04_full : Prop := C04_quoted_full /\ C04_plain_full.

(* ---- T1: escape tables --------------------------------------------------------------------------------- *)
(* the finite domain, stated: every key of the generated table and every key of the specification's table *)
Theorem C04_escape_tables_agree_on_their_keys :
  forallb (fun c => opt_eqb (assocc c escape_table) (spec_escape c))
          (map fst escape_table ++ map fst spec_named_escapes) = true.
Proof. exact tables_agree_on_domain. Qed.
Print Assumptions C04_escape_tables_agree_on_their_keys.

Theorem C04_generated_escapes_are_spec : forall e v, In (e, v) escape_table -> spec_escape e = Some v.
Proof. exact every_generated_pair_is_in_spec. Qed.
Print Assumptions C04_generated_escapes_are_spec.

Theorem C04_spec_escapes_are_generated : forall e v, In (e, v) spec_named_escapes -> assocc e escape_table = Some v.
Proof. exact every_spec_pair_is_generated. Qed.
Print Assumptions C04_spec_escapes_are_generated.

(* hence for EVERY character after a backslash the scanner's table lookup is the specification's *)
Theorem C04_escape_lookup_is_spec : forall c, assocc c escape_table = spec_escape c.
Proof. exact escape_table_is_spec. Qed.
Print Assumptions C04_escape_lookup_is_spec.

Theorem C04_numeric_escape_lengths : code_length_table = [(120, 2%nat); (117, 4%nat); (85, 8%nat)].
Proof. exact code_length_table_is_spec. Qed.
Print Assumptions C04_numeric_escape_lengths.

(* ---- T2: hexadecimal --------------------------------------------------------------------------------- *)
Theorem C04_hex_digit_value : forall c, is_hex c = true -> hex_digit_value c = Some (as_hex c).
Proof. exact as_hex_correct. Qed.
Print Assumptions C04_hex_digit_value.

Theorem C04_hex_digits_are_the_22 : forall c, is_hex c = true <-> In c (map fst hex_digits).
Proof. exact is_hex_iff_listed. Qed.
Print Assumptions C04_hex_digits_are_the_22.

Theorem C04_read_hex : forall start s0 l m w ds v rest,
  hex_value ds = Some v ->
  read_hex str_ops (length ds) 0 0 start (st_with s0 (ds ++ rest) l m w) = Ok (v, st_with s0 (ds ++ rest) l m w).
Proof. exact read_hex_value. Qed.
Print Assumptions C04_read_hex.

(* backslash, named escape character e: the code point of 5.7; two characters consumed *)
Theorem C04_named_escape : forall start s0 e v rest l m w,
  spec_escape e = Some v ->
  resolve_escape str_ops start (st_with s0 (92 :: e :: rest) l m w) = Ok (v, st_with s0 rest l (adv 2 m) false).
Proof. exact resolve_escape_named. Qed.
Print Assumptions C04_named_escape.

(* backslash, x|u|U, exactly 2|4|8 hexadecimal digits of value v: v if it is a Unicode scalar value, else an error *)
Theorem C04_numeric_escape : forall start s0 e n ds v rest l m w,
  In (e, n) spec_numeric_escapes -> length ds = n -> hex_value ds = Some v ->
  resolve_escape str_ops start (st_with s0 (92 :: e :: ds ++ rest) l m w)
  = if spec_scalar_value v then Ok (v, st_with s0 rest (Nat.max l n) (adv (N.of_nat n) (adv 2 m)) false)
    else Err 32 start.
Proof. exact resolve_escape_numeric. Qed.
Print Assumptions C04_numeric_escape.

(* ---- T3: the character loop ----------------------------------------------------------------------------- *)
(* ALL words: t made of ordinary characters (not blank, break, NUL; for double quotes not the quote, not the
   backslash), written inside the quotes (a single quote doubled), up to a blank or the closing quote:
   the word is appended unchanged and the scanner stops exactly there.  Any scanner state (st_with s0 ...). *)
Theorem C04_word_partial : forall single t fuel acc start s0 x rest l m w,
  forallb (ordinary single) t = true -> stops single x rest -> (length t < fuel)%nat ->
  consume_nonws str_ops fuel single acc start (st_with s0 (enc single t ++ x :: rest) l m w)
  = Ok ((rev t ++ acc, false),
        st_with s0 (x :: rest) (Nat.max l 2) (adv (N.of_nat (length (enc single t))) m)
                (match t with [] => w | _ => false end)).
Proof. exact consume_nonws_word. Qed.
Print Assumptions C04_word_partial.

(* ALL double-quoted words with escapes: any sequence of literal characters, named escapes and numeric escapes
   decodes to the sequence of their code points *)
Theorem C04_word_with_escapes_partial : forall items fuel acc start s0 x rest l m w,
  Forall item_ok items -> stops false x rest -> (length items < fuel)%nat ->
  exists l' w',
    consume_nonws str_ops fuel false acc start (st_with s0 (flat_map item_src items ++ x :: rest) l m w)
    = Ok ((rev (map item_val items) ++ acc, false),
          st_with s0 (x :: rest) l' (adv (N.of_nat (length (flat_map item_src items))) m) w').
Proof. exact consume_nonws_items. Qed.
Print Assumptions C04_word_with_escapes_partial.

(* ALL single-line escape-free texts (ordinary characters and blanks anywhere), both styles, from ANY scanner
   state whose input starts with the quoted scalar, whose indentation does not exceed the column after the
   opening quote, the scalar being followed by a break or the end of input: the token is the scalar with
   exactly that text, the right style, the span from the opening quote to just after the closing quote. *)
Theorem C04_single_line_partial : forall F single (s : sc strin) t rest,
  forallb (text_char single) t = true -> (length t < F)%nat ->
  si_chars (sc_in s) = quote_of single :: enc single t ++ quote_of single :: rest ->
  (single = true -> (nth 0 rest 0 =? 39) = false) ->
  is_breakz (nth 0 rest 0) = true ->
  (sc_indent s <= Z.of_N (m_col (sc_mark s)) + 1)%Z ->
  exists s',
    scan_flow_scalar str_ops F single s
    = Ok (({| sp_start := sc_mark s; sp_end := adv (N.of_nat (length (enc single t)) + 2) (sc_mark s) |},
           TScalar (style_of single) t), s')
    /\ si_chars (sc_in s') = rest.
Proof. exact scan_flow_scalar_single_line. Qed.
Print Assumptions C04_single_line_partial.

(* ---- the complete statement is false for the current code (plain scalars) ------------------------------- *)
Theorem C04_plain_full_refuted : ~ C04_plain_full.
Proof. exact C04_plain_full_is_false. Qed.
Print Assumptions C04_plain_full_refuted.

Theorem C04_full_refuted : ~ C04_full.
Proof. exact (fun H => C04_plain_full_is_false (proj2 H)). Qed.
Print Assumptions C04_full_refuted.

(* ---- examples (whole pipeline run_str, by computation) ------------------------------------------------- *)
(* the specification functions are not trivial *)
Example C04_spec_examples :
  spec_escape 110 = Some 10 /\ spec_escape 78 = Some 133 /\ spec_escape 113 = None
  /\ hex_value [49; 70; 54; 48; 48] = Some 128512 /\ hex_value [49; 103] = None
  /\ spec_scalar_value 55296 = false /\ spec_scalar_value 1114111 = true /\ spec_scalar_value 1114112 = false
  /\ fold_lines [97] [(Folded 0, [98]); (Folded 2, [99]); (Escaped 0, [100]); (Escaped 1, [101])]
     = [97; 32; 98; 10; 10; 99; 100; 10; 101].
Proof. vm_compute. repeat split. Qed.

(* a folded multi-line double-quoted scalar: one break -> space, two breaks -> one line feed, blanks around breaks
   dropped; the specification's physical folding gives the same text *)
Example C04_example_folded_double :
  scalars_of (run_str [34; 97; 32; 98; 32; 10; 32; 32; 99; 10; 10; 32; 9; 32; 100; 34; 10]) = ([(DoubleQuoted, [97; 32; 98; 32; 99; 10; 100])], true)
  /\ fold_physical (split_lf [] [97; 32; 98; 32; 10; 32; 32; 99; 10; 10; 32; 9; 32; 100]) = [97; 32; 98; 32; 99; 10; 100].
Proof. vm_compute. split; reflexivity. Qed.

(* an escaped break joins without a space and keeps the blank before the backslash; the x, u, U and n escapes decode *)
Example C04_example_escaped_break :
  scalars_of (run_str [107; 58; 32; 34; 97; 32; 92; 10; 32; 32; 32; 32; 98; 92; 120; 52; 49; 92; 117; 48; 48; 101; 57; 92; 85; 48; 48; 48; 49; 70; 54; 48; 48; 92; 110; 34; 10]) = ([(Plain, [107]); (DoubleQuoted, [97; 32; 98; 65; 233; 128512; 10])], true).
Proof. vm_compute. reflexivity. Qed.

(* two quotes inside single quotes are one quote, interior blanks are kept *)
Example C04_example_single_quoted :
  scalars_of (run_str [45; 32; 39; 105; 116; 39; 39; 115; 32; 32; 115; 111; 39; 10]) = ([(SingleQuoted, [105; 116; 39; 115; 32; 32; 115; 111])], true)
  /\ sq_undouble [105; 116; 39; 39; 115; 32; 32; 115; 111] = [105; 116; 39; 115; 32; 32; 115; 111].
Proof. vm_compute. split; reflexivity. Qed.

(* a plain multi-line scalar *)
Example C04_example_plain_multiline :
  scalars_of (run_str [107; 58; 32; 97; 32; 98; 10; 32; 32; 32; 99; 10; 10; 32; 32; 32; 100; 10; 122; 58; 32; 119; 10]) = ([(Plain, [107]); (Plain, [97; 32; 98; 32; 99; 10; 100]); (Plain, [122]); (Plain, [119])], true).
Proof. vm_compute. reflexivity. Qed.

(* an instance of C04_quoted_full (multi-line with escapes, not covered by a theorem): its hypotheses are satisfiable
   and its conclusion is what the model computes *)
Example C04_quoted_full_instance :
  let b := {| bl_escaped := false; bl_pad := [32]; bl_empties := [[]]; bl_indent := [32; 32; 9] |} in
  let e := {| bl_escaped := true; bl_pad := []; bl_empties := []; bl_indent := [32] |} in
  let first := [ILit 97; ILit 32; INamed 116 9] in
  let more := [(b, [ILit 98; ILit 32]); (e, [IHex 120 [52; 49] 65])] in
  dq_layout_wf 1 first more = true
  /\ dq_text first more = [97; 32; 9; 10; 98; 32; 65]
  /\ match scan_flow_scalar str_ops 100 false
             (init_sc {| si_chars := 34 :: dq_render first more ++ [34; 10]; si_look := 0 |}) with
     | Ok ((_, TScalar DoubleQuoted v), _) => v = dq_text first more
     | _ => False
     end.
Proof. vm_compute. repeat split. Qed.

(* the two recorded findings, on the model (the implementation behaves the same: the check compares them) *)
Example C04_known_finding_witnesses :
  snd (scalars_of (run_str [91; 97; 32; 45; 93; 10])) = false
  /\ scalars_of (run_str [97; 10; 32; 45; 45; 45; 10]) = ([(Plain, [97])], false)
  /\ snd (scalars_of (run_str [107; 58; 10; 32; 32; 45; 45; 45; 32; 97; 10])) = false
  /\ scalars_of (run_str [91; 97; 32; 45; 32; 93; 10]) = ([(Plain, [97; 32; 45])], true)
  /\ scalars_of (run_str [45; 32; 45; 45; 45; 32; 97; 10]) = ([(Plain, [45; 45; 45; 32; 97])], true).
Proof. vm_compute. repeat split. Qed.
